"""C04 contract on MoleculeContainer.calc_implicit / check_implicit (chython/containers/molecule.py), for EVERY element, charge -4..+4, radical
flag and EVERY multiset of neighbour bonds - decided by a finite abstraction of the neighbour multiset plus execution of the real functions on
one representative per abstract class (same scheme as the tokenizer fixpoint of C03).

  ensures   atom.implicit_hydrogens == first hydrogen-count candidate of the independent re-derivation from the raw element tables
            (oracles/o04_valence.expected_with_aromatic), None when there is none;
            check_implicit(n, h) <=> h is among the candidates (False next to an aromatic bond).

Abstraction.  The functions read the neighbourhood only through
   explicit_sum                         (sum of the orders, order 8 skipped)           - enumerated concretely, 0 .. largest tabulated sum + 2
   the number of aromatic bonds         (aromatic branch, 0 .. 4)                      - enumerated concretely
   explicit_dict[(order, Z)]            used only as  s.issubset(explicit_dict)  and  explicit_dict[k] >= c  for keys k of the rules of
                                        (charge, radical, explicit_sum)
so two neighbourhoods with the same explicit_sum that agree on min(count[k], cmax[k] + 1) for every key k mentioned by a rule of that
(charge, radical, explicit_sum) give the same result; bonds with other keys only fill the sum.  Sums above every tabulated one have no rule at all
(dict lookup -> ValenceError -> None).  `dependency_check` verifies syntactically, on the current source, that the dict accumulator is used in no
other way; when it is, the contract is UNANCHORED (nothing decided), never a violation.
"""
import ast
import itertools

from vlib import env
from vlib.env import Unanchored

FILE = 'chython/containers/molecule.py'
CHARGES = tuple(range(-4, 5))
FILLERS = (6, 7, 9, 8, 17, 35, 14, 2)


def dependency_check(src, qual):
    """the defaultdict accumulator of `qual` is only incremented in the neighbour loop and afterwards only used as argument of .issubset() or
    subscripted inside a >= comparison"""
    import tables
    tree = ast.parse(src)
    f = tables.find_def(tree, qual)
    accs = {t.id for n in ast.walk(f) if isinstance(n, ast.Assign) and isinstance(n.value, ast.Call) and ast.unparse(n.value.func) == 'defaultdict'
            for t in n.targets if isinstance(t, ast.Name)}
    if len(accs) != 1:
        return [f'{qual}: expected one defaultdict accumulator, found {sorted(accs)}']
    acc = accs.pop()
    parents = {}
    for n in ast.walk(f):
        for c in ast.iter_child_nodes(n):
            parents[c] = n
    problems = []
    for n in ast.walk(f):
        if isinstance(n, ast.Name) and n.id == acc:
            p = parents[n]
            if isinstance(p, ast.Assign) and n in p.targets:
                continue
            if isinstance(p, ast.Subscript) and p.value is n:
                pp = parents[p]
                if isinstance(pp, ast.AugAssign) and pp.target is p and isinstance(pp.op, ast.Add):
                    continue            # explicit_dict[key] += 1
                if isinstance(pp, ast.Compare) and pp.left is p and len(pp.ops) == 1 and isinstance(pp.ops[0], ast.GtE):
                    continue            # explicit_dict[k] >= c
                problems.append(f'{qual}: {acc}[...] used in {ast.unparse(pp)[:60]}')
                continue
            if isinstance(p, ast.Call) and isinstance(p.func, ast.Attribute) and p.func.attr == 'issubset' and n in p.args:
                continue                # s.issubset(explicit_dict)
            problems.append(f'{qual}: {acc} used in {ast.unparse(p)[:60]}')
    return problems


def _symbols():
    from chython.periodictable import Element
    out = {}
    for c in Element.__subclasses__():
        z = c.atomic_number.fget(None)
        if z and not c.__name__.startswith('Sym'):
            out[z] = c.__name__
    return out


def _star(sym, ch, rad, envt):
    """real molecule: centre atom 1 of element sym with (order, Z) neighbours; nothing is calculated yet"""
    from chython.containers import MoleculeContainer
    from chython.periodictable import Element
    m = MoleculeContainer()
    m.add_atom(Element.from_symbol(sym)(charge=ch, is_radical=rad), 1, _skip_calculation=True)
    for j, (o, z) in enumerate(envt, 2):
        m.add_atom(Element.from_atomic_number(z)(), j, _skip_calculation=True)
        m.add_bond(1, j, o, _skip_calculation=True)
    return m


def _abstract_envs(rules_code, rules_spec, S):
    """representative neighbour multisets of explicit_sum S: every vector of counts 0..cmax+1 over the keys the rules of S mention, the rest of the
    sum filled with bonds of irrelevant keys (two fill styles)"""
    keys, cmax = [], {}
    for d in rules_code + rules_spec:
        for k, c in d.items():
            if k not in cmax:
                keys.append(k)
            cmax[k] = max(cmax.get(k, 0), c)
    used = {z for _, z in keys}
    fill = next(z for z in FILLERS if z not in used)
    out = []

    def rec(i, left, base):
        if i == len(keys):
            rem = left
            out.append(tuple(base + [(1, fill)] * rem))
            if rem >= 2:
                out.append(tuple(base + [(2, fill)] + [(1, fill)] * (rem - 2)))
            if rem >= 3:
                out.append(tuple(base + [(3, fill)] * (rem // 3) + [(1, fill)] * (rem % 3)))
            return
        k = keys[i]
        for c in range(cmax[k] + 2):
            if k[0] * c > left:
                break
            rec(i + 1, left - k[0] * c, base + [k] * c)
    rec(0, S, [])
    return out


def element_rows(sym):
    """worker: all abstract cases of one element -> (n_obligations, failures[(name, key, what, witness)])"""
    env.setup()
    from chython.periodictable import Element
    from oracles import o04_valence as O
    symbols = _symbols()
    a = Element.from_symbol(sym)()
    compiled = a._compiled_valence_rules
    common, rows = O.raw_tables(sym)
    n, fails = 0, []
    for ch in CHARGES:
        for rad in (False, True):
            code_sums = {k[2] for k in compiled if k[0] == ch and k[1] == rad}
            spec_sums = set()
            if ch == 0 and not rad:
                spec_sums |= set(range((common[0] if common and common[0] else 0) + 1)) | set(common)
            for implicit, need, e in rows.get((ch, rad), ()):
                spec_sums |= set(range(e, e + implicit + 1))
            top = max(code_sums | spec_sums | {0})
            hmax = max([h for k, v in compiled.items() if k[0] == ch and k[1] == rad for _, _, h in v] + [i for i, _, _ in rows.get((ch, rad), ())] + [0])
            for S in range(top + 3):
                rc = [dict(d) for _, d, _ in compiled.get((ch, rad, S), ())]
                rs = [{(o, _z(symbols, x)): c for (o, x), c in need} for implicit, need, e in rows.get((ch, rad), ()) if e <= S <= e + implicit]
                envs = _abstract_envs(rc, rs, S)
                for i, envt in enumerate(envs):
                    variants = [envt] + ([envt + ((8, 26),)] if i == 0 else [])
                    for ev in variants:
                        senv = [(o, symbols[z]) for o, z in ev]
                        exp = O.expected_with_aromatic(sym, ch, rad, senv)
                        cands = O.candidates(sym, ch, rad, [x for x in senv if x[0] != 8])
                        m = _star(sym, ch, rad, ev)
                        m.calc_implicit(1)
                        got = m._atoms[1].implicit_hydrogens
                        n += 1
                        if got != exp:
                            fails.append(_fail(sym, ch, rad, ev, symbols, 'calc_implicit', got, exp))
                        for h in range(hmax + 2):
                            g2 = m.check_implicit(1, h)
                            n += 1
                            if bool(g2) != (h in cands):
                                fails.append(_fail(sym, ch, rad, ev, symbols, f'check_implicit(h={h})', bool(g2), h in cands))
            # aromatic branch: 1..4 aromatic bonds, 0..3 further orders
            for ar in (1, 2, 3, 4):
                for S in range(4):
                    ev = ((4, 6),) * ar + ((1, 6),) * S
                    exp = O.expected_with_aromatic(sym, ch, rad, [(o, symbols[z]) for o, z in ev])
                    m = _star(sym, ch, rad, ev)
                    m.calc_implicit(1)
                    got = m._atoms[1].implicit_hydrogens
                    n += 2
                    if got != exp:
                        fails.append(_fail(sym, ch, rad, ev, symbols, 'calc_implicit', got, exp))
                    if sym != 'H' and m.check_implicit(1, 0) is not False:
                        fails.append(_fail(sym, ch, rad, ev, symbols, 'check_implicit(h=0)', True, False))
    return sym, n, fails


def _z(symbols, name):
    return next(z for z, s in symbols.items() if s == name)


def _fail(sym, ch, rad, ev, symbols, what, got, exp):
    et = ','.join(f'{o}{symbols[z]}' for o, z in ev) or '-'
    name = f'{what}[{sym}{ch:+d}{"*" if rad else ""}|{et}]'
    return (name, f'valence:{what.split("(")[0]}:{sym}:{ch}:{int(rad)}:{et}',
            f'{what} on {sym} charge {ch:+d}{" radical" if rad else ""} with neighbour bonds {et}: library {got!r}, re-derivation from the raw tables {exp!r}',
            {'element': sym, 'charge': ch, 'radical': rad, 'bonds': [[o, symbols[z]] for o, z in ev], 'got': got, 'expected': exp, 'function': what})


def replay(w):
    """native replay of a witness on the real functions"""
    env.setup()
    from oracles import o04_valence as O
    symbols = _symbols()
    ev = tuple((o, _z(symbols, s)) for o, s in w['bonds'])
    m = _star(w['element'], w['charge'], w['radical'], ev)
    if w['function'].startswith('check_implicit'):
        h = int(w['function'].split('=')[1].rstrip(')'))
        got = bool(m.check_implicit(1, h))
        exp = h in O.candidates(w['element'], w['charge'], w['radical'], [tuple(x) for x in w['bonds'] if x[0] not in (4, 8)]) and not any(x[0] == 4 for x in w['bonds'])
    else:
        m.calc_implicit(1)
        got = m._atoms[1].implicit_hydrogens
        exp = O.expected_with_aromatic(w['element'], w['charge'], w['radical'], [tuple(x) for x in w['bonds']])
    print('library', got, 'expected', exp)
    return got == exp


def run(run_):
    from vlib.report import pmap
    import tables
    src = env.read(FILE)
    problems = dependency_check(src, 'MoleculeContainer.calc_implicit') + dependency_check(src, 'MoleculeContainer.check_implicit')
    sound = not problems
    if problems:
        # the representatives still run (a disagreement is a concrete input replayed on the real function, valid whatever the abstraction);
        # agreement proves nothing then: counted as bounded cases, the contract is reported UNANCHORED
        run_.unanchored('C04/P:valence-abstraction', 'soundness argument of the abstraction does not cover this source: ' + '; '.join(problems))
    for q in ('MoleculeContainer.calc_implicit', 'MoleculeContainer.check_implicit'):
        run_.under_contract(FILE, q, tables.source_of(FILE, q))
    syms = sorted(_symbols().values())
    total = 0
    for sym, n, fails in pmap(element_rows, syms):
        bad = {}
        for name, key, what, wit in fails:
            k = run_.violation(key, what, witness=wit, obligation=name, native={'ok': False, 'got': wit['got'], 'expected': wit['expected']}, found_input=True)
            if sound:
                run_.oblig(name, False, 'P', 'abstraction+execution', 0.0, known=(k == 'known'))
            bad[name] = 1
        if sound:
            for i in range(n - len(bad)):
                run_.oblig(f'calc_implicit/check_implicit[{sym}: charge -4..+4 x radical x abstract neighbour multiset]#{i}', True, 'P', 'abstraction+execution', 0.0)
        else:
            run_.case(n)
        total += n
    run_.notes['valence_abstraction'] = {'elements': len(syms), 'abstract_cases_and_checks': total, 'abstraction_sound_for_this_source': sound}
    if not sound:
        run_.bound('valence representatives without the abstraction argument: one neighbour multiset per (element, charge, radical, explicit sum, count vector over rule keys)')
    if total == 0:
        raise RuntimeError('valence abstraction generated no obligation')
