def cases():
    return []
