"""Lemma used by engine F for MoleculeStereo.fix_stereo: in one pass of the retry loop, `fail_stereo == old_stereo` (the break
condition) implies that no stereo label was restored in that pass - so the chiral-centre caches computed at the top of the pass are
still valid at the break.  Proved by engine P on the REAL loop body (cut from the AST), for every membership outcome, shape-bounded
(up to 2 pending labels per kind)."""
import ast
import itertools
import types

import z3

from vlib import env
from pysym import SymBool, sym_bool, zbool
from pysym.harness import Case
from pysym import regions

FILE = 'chython/algorithms/stereo.py'


class SymMembership:
    def __init__(self, name):
        self.name = name

    def __contains__(self, x):
        return SymBool(z3.Bool(f'{self.name}[{x}]'))


class Recorder:
    writes = 0

    def __setattr__(self, k, v):
        Recorder.writes += 1


def _region():
    import chython.algorithms.stereo as st
    tree = ast.parse(env.read(FILE))
    f = regions.find_function(tree, 'MoleculeStereo.fix_stereo')
    loop = regions.locate(f, 'while[0]')
    idx = next(i for i, s in enumerate(loop.body) if isinstance(s, ast.If) and 'fail_stereo == old_stereo' in ast.unparse(s.test))
    return st, regions.compile_region(loop.body[:idx], env.repo_path(FILE), loopcut=False), ast.unparse(loop)


def cases():
    st, code, text = _region()
    out = []
    for na, nl, nc in itertools.product(range(3), repeat=3):
        if na + nl + nc == 0:
            continue

        def fn(na=na, nl=nl, nc=nc):
            Recorder.writes = 0
            self_ = types.SimpleNamespace(chiral_tetrahedrons=SymMembership('T'), chiral_allenes=SymMembership('A'), chiral_cis_trans=SymMembership('C'),
                                          flush_stereo_cache=lambda: None)
            ns = regions.run_region(code, vars(st), self=self_, atoms_stereo=[(i, Recorder(), True) for i in range(na)],
                                    allenes_stereo=[(10 + i, Recorder(), False) for i in range(nl)],
                                    cis_trans_stereo=[((20 + i, 30 + i), Recorder(), True) for i in range(nc)], old_stereo=na + nl + nc)
            return ns['fail_stereo'], Recorder.writes
        out.append(Case(f'fix_stereo/break-condition-implies-no-restore[{na},{nl},{nc}]', fn, (),
                        (lambda v, tot=na + nl + nc: z3.BoolVal((v[0] == tot) == (v[1] == 0) and v[0] + v[1] == tot)), (), None,
                        (FILE, 'MoleculeStereo.fix_stereo/while[0]')))
    return out


def region_text():
    return _region()[2]
