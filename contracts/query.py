"""Contracts on the query-atom / query-bond predicates (C08) and builders of symbolic stub atoms reused by C09.

The molecule atom is a REAL `Element` instance (created with object.__new__, as the library itself does in copy/unpack) whose
slots hold proxies; atomic numbers are symbolic on both sides (stub subclasses whose `atomic_number`/`mdl_isotope` return proxies),
so one run covers all 118 x 118 element pairs.  Set-valued query attributes are SymSmallSets over their validated universes.
Every postcondition is an independently written predicate taken from the documented meaning of the primitive.
"""
import z3

from pysym import SymBool, SymInt, SymSmallSet, sym_int, sym_bool, zbool, bv, W
from pysym.harness import Case

QFILE = 'chython/periodictable/base/query.py'
BFILE = 'chython/containers/bonds.py'

RING_U = list(range(3, 13)) + [66, 70]          # C08: pure set semantics, any finite universe is representative (assumption A-ring)


def _classes():
    from chython.periodictable import Element, QueryElement, AnyElement, ListElement, AnyMetal
    return Element, QueryElement, AnyElement, ListElement, AnyMetal


_SYMCLS = {}


def sym_element_class():
    """Element subclass whose atomic_number / mdl_isotope are read from per-instance proxies (slots `_z`, `_mdl`)"""
    if 'el' not in _SYMCLS:
        Element = _classes()[0]
        cls = type('SymElement', (Element,), {
            '__slots__': ('_z', '_mdl'),
            'atomic_number': property(lambda s: 0 if s is None else s._z), 'mdl_isotope': property(lambda s: 0 if s is None else s._mdl),
            'isotopes_distribution': property(lambda s: {}), 'isotopes_masses': property(lambda s: {}),
            'atomic_radius': property(lambda s: 1.), '_common_valences': property(lambda s: (0,)),
            '_valences_exceptions': property(lambda s: ())})
        cls.__abstractmethods__ = frozenset()
        _SYMCLS['el'] = cls
    return _SYMCLS['el']


def sym_query_class():
    if 'q' not in _SYMCLS:
        QueryElement = _classes()[1]
        cls = type('SymQueryElement', (QueryElement,), {
            '__slots__': ('_z', '_mdl'),
            'atomic_number': property(lambda s: 0 if s is None else s._z), 'mdl_isotope': property(lambda s: 0 if s is None else s._mdl)})
        cls.__abstractmethods__ = frozenset()
        _SYMCLS['q'] = cls
    return _SYMCLS['q']


# The stub subclasses appear in Element.__subclasses__() / QueryElement.__subclasses__(); library lookups call
# `atomic_number.fget(None)` on every subclass, so the stub properties answer 0 for None (no element has number 0) and the
# class names match no element symbol.


def mk_atom(dom, prefix='a', iso='sym', h='sym', ring_u=RING_U, z=None, cls=None, h_hi=14):
    """symbolic molecule atom; iso/h: 'sym' | None"""
    a = object.__new__(cls or sym_element_class())
    if cls is None:
        a._z = z if z is not None else sym_int(f'{prefix}_Z', 1, 118, dom)
        a._mdl = sym_int(f'{prefix}_mdl', 1, 300, dom)
    a._charge = sym_int(f'{prefix}_ch', -4, 4, dom)
    a._is_radical = sym_bool(f'{prefix}_rad')
    a._implicit_hydrogens = None if h is None else sym_int(f'{prefix}_h', 0, h_hi, dom)
    a._explicit_hydrogens = 0
    a._neighbors = sym_int(f'{prefix}_nb', 0, 14, dom)
    a._heteroatoms = sym_int(f'{prefix}_het', 0, 14, dom)
    a._hybridization = sym_int(f'{prefix}_hyb', 1, 4, dom)
    a._isotope = None if iso is None else sym_int(f'{prefix}_iso', 1, 300, dom)
    a._ring_sizes = SymSmallSet(f'{prefix}r', ring_u)
    a._in_ring = SymBool(a._ring_sizes.nonempty())
    a._stereo = None
    return a


def _qset(name, universe, dom, key, empties):
    """symbolic subset; with `empties` given the emptiness is decided by the shape: () or a set required non-empty"""
    if empties is None:
        return SymSmallSet(name, universe)
    if key in empties:
        return ()
    s = SymSmallSet(name, universe)
    dom.append(s.nonempty())
    return s


def mk_query(kind, dom, prefix='q', iso='sym', ring_mode='set', ring_u=RING_U, cls=None, empties=None, rad=None):
    """kind: 'Q' QueryElement | 'A' AnyElement | 'L' ListElement | 'M' AnyMetal; empties: None (emptiness symbolic) or the set of
    attribute keys ('n','y','x','h') that are the empty tuple in this shape; rad: None (symbolic) or concrete bool"""
    Element, QueryElement, AnyElement, ListElement, AnyMetal = _classes()
    if kind == 'Q':
        q = object.__new__(cls or sym_query_class())
        if cls is None:
            q._z = sym_int(f'{prefix}_Z', 1, 118, dom)
            q._mdl = sym_int(f'{prefix}_mdl', 1, 300, dom)
        q._isotope = None if iso is None else sym_int(f'{prefix}_iso', 0, 300, dom)   # 0 is accepted by the setter and means unspecified
    elif kind == 'A':
        q = object.__new__(AnyElement)
    elif kind == 'L':
        q = object.__new__(ListElement)
        q.__dict__['atomic_numbers'] = SymSmallSet(f'{prefix}l', range(1, 119))
        q._elements = ()
    else:
        q = object.__new__(AnyMetal)
    q._neighbors = _qset(f'{prefix}n', range(15), dom, 'n', empties)
    q._hybridization = _qset(f'{prefix}y', range(1, 5), dom, 'y', empties)
    q._masked = False
    if kind != 'M':
        q._charge = sym_int(f'{prefix}_ch', -4, 4, dom)
        q._is_radical = sym_bool(f'{prefix}_rad') if rad is None else rad
        q._heteroatoms = _qset(f'{prefix}x', range(15), dom, 'x', empties)
        q._implicit_hydrogens = _qset(f'{prefix}h', range(15), dom, 'h', empties)
        q._ring_sizes = () if ring_mode == 'none' else (0,) if ring_mode == 'zero' else SymSmallSet(f'{prefix}r', ring_u)
        q._stereo = None
    return q


# ---- independent predicate (specification) ------------------------------------------------------------------------------

def _member_or_unspecified(qset, val):
    """unspecified (empty) or value is a member; val None (unknown hydrogen count) is a member of nothing"""
    if isinstance(qset, tuple) and not qset:
        return z3.BoolVal(True)
    if val is None:
        return z3.Not(qset.nonempty())
    return z3.Or(z3.Not(qset.nonempty()), zbool(qset.__contains__(val)))


def spec_match(kind, q, a):
    conj = []
    if kind == 'Q':
        conj.append(bv(q._z) == bv(a.atomic_number))
        if q._isotope is not None:
            conj.append(z3.Or(q._isotope.z == 0, z3.BoolVal(False) if a._isotope is None else q._isotope.z == a._isotope.z))
    elif kind == 'L':
        conj.append(zbool(q.__dict__['atomic_numbers'].__contains__(a.atomic_number)))
    if kind != 'M':
        conj.append(q._charge.z == a._charge.z)
        conj.append(zbool(q._is_radical) == a._is_radical.z)
        conj.append(_member_or_unspecified(q._implicit_hydrogens, a._implicit_hydrogens))
        conj.append(_member_or_unspecified(q._heteroatoms, a._heteroatoms))
        rs = q._ring_sizes
        if isinstance(rs, SymSmallSet):
            common = z3.Or(*[z3.And(rs.m[k], a._ring_sizes.m[k]) for k in rs.u if k in a._ring_sizes.m])
            conj.append(z3.Or(z3.Not(rs.nonempty()), common))
        elif rs == (0,):
            conj.append(z3.Not(a._ring_sizes.nonempty()))
    conj.append(_member_or_unspecified(q._neighbors, a._neighbors))
    conj.append(_member_or_unspecified(q._hybridization, a._hybridization))
    return z3.And(*conj)


NONMETALS = {1, 2, 5, 6, 7, 8, 9, 10, 14, 15, 16, 17, 18, 32, 33, 34, 35, 36, 51, 52, 53, 54, 85, 86, 118}   # reference: non-metals, metalloids, noble gases


def _atom_case(kind, qiso, aiso, ah, ring_mode):
    dom = []
    q = mk_query(kind, dom, iso=qiso, ring_mode=ring_mode)
    a = mk_atom(dom, iso=aiso, h=ah)
    spec = spec_match(kind, q, a)
    cname = {'Q': 'QueryElement', 'A': 'AnyElement', 'L': 'ListElement'}[kind]

    def fn():
        return q == a

    def native(model):
        return replay_atom(kind, model, qiso, aiso, ah, ring_mode)
    tag = f'{cname}.__eq__/[qiso={qiso},aiso={aiso},h={ah},ring={ring_mode}]'
    return Case(tag, fn, dom, lambda v: zbool(v) == spec, (), native, (QFILE, f'{cname}.__eq__'))


def replay_atom(kind, model, qiso, aiso, ah, ring_mode, ring_u=RING_U):
    """build the concrete query and atom from a counter-model and compare the real __eq__ with the reference predicate in Python"""
    Element, QueryElement, AnyElement, ListElement, AnyMetal = _classes()
    g = model.get
    za = g('a_Z', 6)
    a = object.__new__(Element.from_atomic_number(za))
    a._charge, a._is_radical = g('a_ch', 0), bool(g('a_rad', False))
    a._implicit_hydrogens = None if ah is None else g('a_h', 0)
    a._neighbors, a._heteroatoms, a._hybridization = g('a_nb', 0), g('a_het', 0), g('a_hyb', 1)
    a._isotope = None if aiso is None else a.mdl_isotope + (g('a_iso', 1) - g('a_mdl', 1))    # keep the model's offset
    a._ring_sizes = {k for k in ring_u if g(f'ar_{k}', False)}
    a._in_ring = bool(a._ring_sizes)
    sets = {p: tuple(k for k in u if g(f'q{p}_{k}', False)) for p, u in (('n', range(15)), ('y', range(1, 5)), ('x', range(15)), ('h', range(15)))}
    if kind == 'Q':
        q = object.__new__(QueryElement.from_atomic_number(g('q_Z', 6)))
        q._isotope = None if qiso is None else (0 if g('q_iso', 0) == 0 else q.mdl_isotope + (g('q_iso', 0) - g('q_mdl', 1)))
    elif kind == 'A':
        q = object.__new__(AnyElement)
    else:
        q = object.__new__(ListElement)
        q.__dict__['atomic_numbers'] = tuple(k for k in range(1, 119) if g(f'ql_{k}', False))
        q._elements = ()
    q._neighbors, q._hybridization, q._heteroatoms, q._implicit_hydrogens = sets['n'], sets['y'], sets['x'], sets['h']
    q._masked, q._stereo = False, None
    q._charge, q._is_radical = g('q_ch', 0), bool(g('q_rad', False))
    q._ring_sizes = () if ring_mode == 'none' else (0,) if ring_mode == 'zero' else tuple(k for k in ring_u if g(f'qr_{k}', False))
    got = q == a
    exp = True
    if kind == 'Q':
        exp &= g('q_Z', 6) == za and (not q._isotope or q._isotope == a._isotope)
    elif kind == 'L':
        exp &= za in q.__dict__['atomic_numbers']
    exp &= q._charge == a._charge and q._is_radical == a._is_radical
    exp &= not sets['n'] or a._neighbors in sets['n']
    exp &= not sets['y'] or a._hybridization in sets['y']
    exp &= not sets['x'] or a._heteroatoms in sets['x']
    exp &= not sets['h'] or a._implicit_hydrogens in sets['h']
    if q._ring_sizes == (0,):
        exp &= not a._ring_sizes
    elif q._ring_sizes:
        exp &= bool(set(q._ring_sizes) & a._ring_sizes)
    return dict(ok=bool(got) == bool(exp), got=bool(got), expected=bool(exp),
                args=dict(query=repr(q), query_attrs={k: getattr(q, k, None) for k in ('_charge', '_is_radical', '_neighbors', '_hybridization', '_heteroatoms', '_implicit_hydrogens', '_ring_sizes')},
                          atom=repr(a), atom_attrs={k: getattr(a, k) for k in ('_charge', '_is_radical', '_isotope', '_implicit_hydrogens', '_neighbors', '_heteroatoms', '_hybridization', '_ring_sizes')}))


def _metal_cases():
    Element, QueryElement, AnyElement, ListElement, AnyMetal = _classes()
    out = []
    for cls in sorted(Element.__subclasses__(), key=lambda c: c.__name__):
        if cls.__name__ == 'SymElement':
            continue
        z = cls.atomic_number.fget(None)
        dom = []
        q = mk_query('M', dom)
        a = mk_atom(dom, cls=cls)
        spec = z3.And(z3.BoolVal(z not in NONMETALS), _member_or_unspecified(q._neighbors, a._neighbors),
                      _member_or_unspecified(q._hybridization, a._hybridization))
        out.append(Case(f'AnyMetal.__eq__/[{cls.__name__}]', (lambda q=q, a=a: q == a), dom, (lambda v, spec=spec: zbool(v) == spec), (), None,
                        (QFILE, 'AnyMetal.__eq__')))
    return out


def _non_element_cases():
    out = []
    for kind in 'QALM':
        dom = []
        q = mk_query(kind, dom)
        for other in (1, 'C', None, 3.5):
            out.append(Case(f'{kind}.__eq__/non-Element-operand[{other!r}]', (lambda q=q, other=other: q == other), dom,
                            lambda v: z3.BoolVal(v is False), (), None, (QFILE, f'{kind}.__eq__')))
    return out


# ---- query bond ------------------------------------------------------------------------------------------------------------

def _bond_cases():
    from chython.containers.bonds import Bond, QueryBond
    out = []
    # QueryBond == Bond : order in list and (ring flag unspecified or equal)
    for ring in (None, True, False):
        dom = []
        qo = SymSmallSet('qo', (1, 2, 3, 4, 8))
        dom.append(qo.nonempty())
        q = object.__new__(QueryBond)
        q._order = qo
        q._in_ring = ring
        q._stereo = None
        b = object.__new__(Bond)
        bo = sym_int('b_order', 1, 8, dom)
        dom.append(z3.Or(*[bo.z == k for k in (1, 2, 3, 4, 8)]))
        b._order = bo
        b._in_ring = sym_bool('b_ring')
        b._stereo = None
        spec = z3.And(zbool(qo.__contains__(bo)), z3.BoolVal(True) if ring is None else (b._in_ring.z == ring))
        out.append(Case(f'QueryBond.__eq__/Bond[ring={ring}]', (lambda q=q, b=b: q == b), dom, (lambda v, spec=spec: zbool(v) == spec), (), None,
                        (BFILE, 'QueryBond.__eq__')))
        # vs int
        for k in (1, 2, 3, 4, 8, 5):
            speck = zbool(qo.__contains__(k)) if k in (1, 2, 3, 4, 8) else z3.BoolVal(False)
            out.append(Case(f'QueryBond.__eq__/int[{k},ring={ring}]', (lambda q=q, k=k: q == k), dom, (lambda v, speck=speck: zbool(v) == speck), (), None,
                            (BFILE, 'QueryBond.__eq__')))
    # Bond == int / Bond == Bond
    dom = []
    b = object.__new__(Bond)
    bo = sym_int('b_order', 1, 8, dom)
    b._order, b._in_ring, b._stereo = bo, sym_bool('b_ring'), None
    for k in (1, 2, 3, 4, 8):
        out.append(Case(f'Bond.__eq__/int[{k}]', (lambda b=b, k=k: b == k), dom, (lambda v, k=k: zbool(v) == (bo.z == k)), (), None, (BFILE, 'Bond.__eq__')))
    c = object.__new__(Bond)
    co = sym_int('c_order', 1, 8, dom)
    c._order, c._in_ring, c._stereo = co, sym_bool('c_ring'), None
    out.append(Case('Bond.__eq__/Bond', (lambda: b == c), dom, lambda v: zbool(v) == (bo.z == co.z), (), None, (BFILE, 'Bond.__eq__')))
    return out


def _canaries():
    c = _atom_case('Q', 'sym', 'sym', 'sym', 'set')
    good = c.ensures
    c.name += '/CANARY-negated'
    c.ensures = lambda v: z3.Not(good(v))
    c.expect_fail, c.native = True, None
    return [c]


_CACHE = None


def cases():
    global _CACHE
    if _CACHE is not None:
        return _CACHE
    cs = []
    for kind in 'QAL':
        for qiso in (('sym', None) if kind == 'Q' else (None,)):
            for aiso in ('sym', None):
                for ah in ('sym', None):
                    for ring_mode in ('set', 'zero', 'none'):
                        cs.append(_atom_case(kind, qiso, aiso, ah, ring_mode))
    cs += _metal_cases()
    cs += _non_element_cases()
    cs += _bond_cases()
    cs += _canaries()
    _CACHE = cs
    return cs
