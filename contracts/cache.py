"""C13 contracts for engine F: which methods are public mutators, with which constant arguments, and the declared frame facts."""
from frames.engine import ClassModel, Analyzer, KEEP_SSSR, KEEP_COMPONENTS, A_SET, B_TOPO, B_SPECIAL

# declared read-sets of the keys that flush_cache(keep_sssr / keep_components) and copy(keep_...) may keep: derived <= declared is an obligation
DECLARED = {k: {B_TOPO, B_SPECIAL, 'A.names'} for k in KEEP_SSSR}
DECLARED['connected_components'] = {B_TOPO, 'A.names'}

# functions whose bond-order rewrites never move a bond into or out of the coordinate class (order 8): aromatisation and resonance
# rewrite orders among 1, 2, 3, 4 only.  ASSUMED frame contract (validated dynamically by the bounded histories of checks/b13.py).
ORDER_ONLY = ('kekule', 'enumerate_kekule', '__prepare_rings', '__fix_rings', 'thiele', 'fix_resonance')

MUTATORS = [
    # (label, method, constant arguments, pre-state: everything possibly stale?)
    ('add_atom', 'add_atom', {}, False),
    ('add_bond', 'add_bond', {}, False),
    ('delete_atom', 'delete_atom', {}, False),
    ('delete_bond', 'delete_bond', {}, False),
    ('remap', 'remap', {}, False),
    ('union/in-place', 'union', {'copy': False, 'remap': False}, False),
    ('clean_stereo', 'clean_stereo', {}, False),
    ('add_atom_stereo', 'add_atom_stereo', {}, False),
    ('add_cis_trans_stereo', 'add_cis_trans_stereo', {}, False),
    ('add_wedge', 'add_wedge', {}, False),
    ('calculate_cis_trans_from_2d', 'calculate_cis_trans_from_2d', {}, False),
    ('kekule', 'kekule', {}, False),
    ('thiele', 'thiele', {}, False),
    ('fix_resonance', 'fix_resonance', {}, False),
    ('implicify_hydrogens', 'implicify_hydrogens', {}, False),
    ('explicify_hydrogens', 'explicify_hydrogens', {}, False),
    ('remove_coordinate_bonds', 'remove_coordinate_bonds', {}, False),
    ('clean_isotopes', 'clean_isotopes', {}, False),
    ('neutralize', 'neutralize', {}, False),
    ('standardize_charges', 'standardize_charges', {}, False),
    ('remove_metals', 'remove_metals', {}, False),
    ('remove_acids', 'remove_acids', {}, False),
    ('split_metal_salts', 'split_metal_salts', {}, False),
    ('__exit__/commit', '__exit__', {'exc_type': None}, True),
    ('__exit__/rollback', '__exit__', {'exc_type': True}, True),
]

STORE_OVERRIDE = {'remap': {'_atoms': {'A.names'}, '_bonds': {'A.names'}}}      # renaming keeps the atom objects and their labels
LABELS_PRESERVED = ('remap', 'union', 'remove_metals', 'remove_acids')
BREAK_LEMMAS = (('fix_stereo', 'fail_stereo == old_stereo'),)
# "changed-set" guards: the function collects what it changes in a local container and flushes only `if <container>`; F assumes
# `container empty => nothing written so far` (ASSUMED lemma per pair, validated dynamically by checks/b13.py)
GUARDS = (('__fix_rings', 'seen'), ('fix_resonance', 'hs'), ('implicify_hydrogens', 'to_remove'), ('remove_coordinate_bonds', 'ab'),
          ('standardize_charges', 'changed'), ('split_metal_salts', 'log'), ('calculate_cis_trans_from_2d', 'flag'), ('calculate_cis_trans_from_2d', 'stereo'),
          ('thiele', 'freaks'), ('kekule', 'kekule'), ('explicify_hydrogens', 'to_add'))


# adding / removing terminal hydrogens or isolated atoms leaves every ring (and the ring count) unchanged: ASSUMED graph-theoretic lemma
# (degree <= 1 atoms lie on no cycle; E - V + C is invariant); not_special_connectivity is NOT in this list, it must be dropped.
RING_FAMILY = ('sssr', 'atoms_rings', 'atoms_rings_sizes', 'rings_count')
TOPO_KEEPS = {'implicify_hydrogens': RING_FAMILY, 'explicify_hydrogens': RING_FAMILY, 'remove_metals': RING_FAMILY}


def analyzer():
    from chython.containers import MoleculeContainer
    model = ClassModel(MoleculeContainer)
    a = Analyzer(model, DECLARED, ORDER_ONLY, STORE_OVERRIDE, LABELS_PRESERVED, BREAK_LEMMAS)
    a.guards = set(GUARDS)
    a.topo_keeps = dict(TOPO_KEEPS)
    return model, a
