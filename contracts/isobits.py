"""C09 contracts: the bit-mask test of _isomorphism.pyx on the words built by `_cython_compiled_structure` / `_cython_compiled_query`
is equivalent to the Python `__eq__` predicates, for all attribute values of the layout's documented domain.

Organisation (per bit field, see DESIGN §2 C09):
  O2  query words  built by the REAL per-atom region of _cython_compiled_query     == published-layout spec words   (all paths)
  O3  atom  words  built by the REAL per-atom region of _cython_compiled_structure == published-layout spec words   (all paths)
  O2b/O3b  bond / closure words likewise
  O4  mask test on the spec words  <=>  conjunction of the documented clauses (= what C08 proves __eq__ to be)       (pure z3)
  O5  the test expressions cut out of the de-cythonised _isomorphism.pyx  ==  the mask test of O4                  (pure z3)
Out-of-domain probes (unknown hydrogen count, Lv/Ts/Og, ring sizes > 65, query hydrogen counts > 4) are separate cases with stable
names; those that fail on the pinned tree are listed in known_findings.jsonl.
"""
import ast
import types

import z3

from vlib import env
from pysym import SymBool, SymInt, SymSmallSet, sym_int, sym_bool, zbool, bv, W
from pysym.harness import Case
from pysym import regions
from contracts import query as Q

IFILE = 'chython/algorithms/isomorphism.py'
PFILE = 'chython/algorithms/_isomorphism.pyx'
RING_U9 = list(range(3, 68))         # 3..65 in the layout, 66/67 stand for "larger than 65"
M64 = (1 << 64) - 1


def _c(v):
    return z3.BitVecVal(v, W)


def _bit(pos):
    """1 << pos for a z3 position expression (W bits)"""
    return _c(1) << pos


_SRC = {}


def _iso_src():
    if 'iso' not in _SRC:
        src = env.read(IFILE)
        tree = ast.parse(src)
        import chython.algorithms.isomorphism as mod
        fs = regions.find_function(tree, 'MoleculeIsomorphism._cython_compiled_structure')
        fq = regions.find_function(tree, 'QueryIsomorphism._cython_compiled_query')
        atom_loop = regions.locate(fs, 'for[0]{bits1.append}')
        bond_loop = regions.locate(fs, 'for[0]{o_from[i]}/for[0]{bits1[x]}')
        qatom_loop = regions.locate(fq, 'for[0]{masks1}/for[0]{masks1.append}')
        qclos_loop = regions.locate(fq, 'for[0]{masks1}/for[0]{closures}/if[0]/for[0]')
        fn = env.repo_path(IFILE)
        _SRC['iso'] = dict(mod=mod, src=src,
                           s_atom=regions.compile_region(atom_loop.body, fn), s_bond=regions.compile_region(bond_loop.body, fn),
                           q_atom=regions.compile_region(qatom_loop.body, fn), q_clos=regions.compile_region(qclos_loop.body, fn),
                           texts={'s_atom': regions.region_source(src, atom_loop), 's_bond': regions.region_source(src, bond_loop),
                                  'q_atom': regions.region_source(src, qatom_loop), 'q_clos': regions.region_source(src, qclos_loop)})
    return _SRC['iso']


def _pyx_tests():
    """the three test expressions of the translated get_mapping (AST nodes)"""
    if 'pyx' not in _SRC:
        from cyx import translate
        tree, text, decls, structs = translate.build(env.read(PFILE), filename=env.repo_path(PFILE))
        f = regions.find_function(tree, 'get_mapping')
        first = regions.locate(f, 'for[0]{mask1}/if[0]{mask1}').test
        inner_if = regions.locate(f, 'try[0]{mask1}/while[0]{mask1}/if[0]{mask1}/else/for[0]{mask1}/if[0]{mask1}')
        closure_if = regions.locate(inner_if, 'if[0]/if[0]/for[0]/if[0]')
        noclos_if = regions.locate(inner_if, 'if[0]/else/for[0]/if[0]')
        _SRC['pyx'] = dict(first=first, inner=inner_if.test, closure=closure_if.test, noclosure=noclos_if.test,
                           text=ast.unparse(first) + '\n' + ast.unparse(inner_if.test) + '\n' + ast.unparse(closure_if.test))
    return _SRC['pyx']


def region_texts():
    t = dict(_iso_src()['texts'])
    t['pyx_tests'] = _pyx_tests()['text']
    return t


# ---- published layout: spec words (z3), written from the comment block, not from the code's constants ---------------------

def spec_element_bits(z):
    """(word I, word II) element part for a molecule atom of atomic number z (z3 expr)"""
    zz = z3.If(z > 116, _c(116), z)
    w1 = z3.If(z > 56, _c(1), _bit(_c(57) - z))
    w2 = z3.If(z > 56, _bit(_c(120) - zz), _c(0))
    return w1, w2


def _set_bits(s, base, universe=None, empty_all=None):
    """OR of 1 << (k + base) for k in symbolic set s; empty set => empty_all (mask: everything of the field)"""
    if isinstance(s, tuple) and not s:
        return _c(empty_all)
    w = _c(0)
    for k in s.u:
        w = w | z3.If(s.m[k], _c(1 << (k + base)), _c(0))
    if empty_all is not None:
        w = z3.If(s.nonempty(), w, _c(empty_all))
    return w


def spec_atom_words(a, h_none=False):
    z = bv(a.atomic_number)
    w1, w2e = spec_element_bits(z)
    w2 = w2e | _bit(bv(a._hybridization) - 1)
    if a._isotope is None:
        w3 = _c(1 << 63)
    else:
        w3 = z3.If(a._isotope.z == 0, _c(1 << 63), _bit(a._isotope.z - bv(a.mdl_isotope) + 54))
    w3 = w3 | z3.If(a._is_radical.z, _c(1 << 45), _c(1 << 44))
    w3 = w3 | _bit(a._charge.z + 39)
    w3 = w3 | (_c(1 << 30) if a._implicit_hydrogens is None else _bit(a._implicit_hydrogens.z + 30))
    w3 = w3 | _bit(a._neighbors.z + 15) | _bit(a._heteroatoms.z)
    rs = a._ring_sizes
    w4 = _c(0)
    for r in rs.u:
        if r <= 65:
            w4 = w4 | z3.If(rs.m[r], _c(1 << (65 - r)), _c(0))
    w4 = z3.If(w4 == 0, _c(1 << 63), w4)        # no ring (or only rings > 65): "not in ring" bit
    return w1, w2, w3, w4


FIELD_ANY = {'h': sum(1 << (k + 30) for k in range(5)), 'nb': sum(1 << (k + 15) for k in range(15)), 'het': sum(1 << k for k in range(15)),
             'hyb': 0xf, 'el1': (1 << 57) - 1, 'el2': M64 & ~0xf, 'iso': sum(1 << k for k in range(46, 64)), 'ring': M64}


def spec_query_words(kind, q, bond=None):
    if kind == 'M':
        nonmetal = sorted(Q.NONMETALS)
        w1 = sum(1 << (57 - z) for z in range(1, 57) if z not in nonmetal) | 1
        w2 = 0
        for z in range(57, 119):
            if z not in nonmetal:
                w2 |= 1 << (120 - min(z, 116))
        w3 = _c(sum(1 << k for k in range(30, 64)) | FIELD_ANY['het'])        # isotope, radical, charge, hydrogens, heteroatoms ignored
        w1, w2, w4 = _c(w1), _c(w2), _c(M64)
    else:
        if kind == 'A':
            w1, w2 = _c(FIELD_ANY['el1']), _c(FIELD_ANY['el2'])
        elif kind == 'L':
            s = q.__dict__['atomic_numbers']
            w1 = w2 = _c(0)
            for z in s.u:
                e1, e2 = (1, 1 << (120 - min(z, 116))) if z > 56 else (1 << (57 - z), 0)
                w1 = w1 | z3.If(s.m[z], _c(e1), _c(0))
                w2 = w2 | z3.If(s.m[z], _c(e2), _c(0))
        else:
            w1, w2 = spec_element_bits(bv(q.atomic_number))
        rad = z3.If(zbool(q._is_radical), _c(1 << 45), _c(1 << 44))
        if kind == 'Q' and q._isotope is not None:
            w3 = z3.If(q._isotope.z == 0, _c(FIELD_ANY['iso']), _bit(q._isotope.z - bv(q.mdl_isotope) + 54)) | rad
        else:
            w3 = _c(FIELD_ANY['iso']) | rad
        w3 = w3 | _bit(q._charge.z + 39)
        w3 = w3 | _set_bits(q._implicit_hydrogens, 30, empty_all=FIELD_ANY['h'])
        w3 = w3 | _set_bits(q._heteroatoms, 0, empty_all=FIELD_ANY['het'])
        rs = q._ring_sizes
        if isinstance(rs, SymSmallSet):
            w4 = _c(0)
            for r in rs.u:
                if r <= 65:
                    w4 = w4 | z3.If(rs.m[r], _c(1 << (65 - r)), _c(0))
            w4 = z3.If(rs.nonempty(), z3.If(w4 == 0, _c(1 << 63), w4), _c(M64))
        elif rs == (0,):
            w4 = _c(1 << 63)
        else:
            w4 = _c(M64)
    w3 = w3 | _set_bits(q._neighbors, 15, empty_all=FIELD_ANY['nb'])
    w2 = w2 | _set_bits(q._hybridization, -1, empty_all=FIELD_ANY['hyb'])
    if bond is not None:
        w1 = w1 | spec_qbond_bits(bond)
    return w1, w2, w3, w4


ORDER_BIT = {1: 59, 2: 60, 3: 61, 4: 62, 8: 63}


def spec_qbond_bits(b):
    w = _c(0)
    for o in b._order.u:
        w = w | z3.If(b._order.m[o], _c(1 << ORDER_BIT[o]), _c(0))
    if b._in_ring is None:
        w = w | _c((1 << 58) | (1 << 57))
    else:
        w = w | _c(1 << 58 if b._in_ring else 1 << 57)
    return w


def spec_bond_bits(b):
    o = b._order.z
    w = z3.If(o == 1, _c(1 << 59), z3.If(o == 2, _c(1 << 60), z3.If(o == 3, _c(1 << 61), z3.If(o == 4, _c(1 << 62), _c(1 << 63)))))
    return w | z3.If(b._in_ring.z, _c(1 << 58), _c(1 << 57))


def mask_test(m, b, first=True):
    """the acceptance test on 4 words: first-atom form (word I by non-empty intersection) / inner form (word I by inclusion)"""
    t1 = (m[0] & b[0]) != 0 if first else (m[0] & b[0]) == b[0]
    return z3.And(t1, (m[1] & b[1]) == b[1], (m[2] & b[2]) == b[2], (m[3] & b[3]) != 0)


# ---- builders ---------------------------------------------------------------------------------------------------------------

def _dom_layout(dom, q, a, kind, h_max=4, ring_max=65, merge_ok=False):
    """the layout's documented domain as requires"""
    if a._isotope is not None:
        d = a._isotope.z - bv(a.mdl_isotope)
        dom += [d >= -8, d <= 8]
    if kind == 'Q' and q is not None and q._isotope is not None:
        d = q._isotope.z - bv(q.mdl_isotope)
        dom.append(z3.Or(q._isotope.z == 0, z3.And(d >= -8, d <= 8)))
    if kind == 'Q' and q is not None and isinstance(a.atomic_number, SymInt):
        dom.append(z3.Implies(bv(q.atomic_number) == bv(a.atomic_number), bv(q.mdl_isotope) == bv(a.mdl_isotope)))   # mdl_isotope is a function of Z
        if not merge_ok:
            dom.append(z3.Not(z3.And(bv(q.atomic_number) >= 116, bv(a.atomic_number) >= 116, bv(q.atomic_number) != bv(a.atomic_number))))
    if kind == 'L' and q is not None and not merge_ok and isinstance(a.atomic_number, SymInt):
        s = q.__dict__['atomic_numbers']      # Lv, Ts, Og share one bit: lists must not separate them when the atom is one of them
        dom.append(z3.Or(bv(a.atomic_number) < 116, z3.And(s.m[116] == s.m[117], s.m[117] == s.m[118])))
    if a._implicit_hydrogens is not None:
        dom.append(a._implicit_hydrogens.z <= h_max)
    for s in [a._ring_sizes] + ([q._ring_sizes] if q is not None and isinstance(getattr(q, '_ring_sizes', None), SymSmallSet) else []):
        dom += [z3.Not(s.m[r]) for r in s.u if r > ring_max]
    return dom


def _words_from(ns):
    return [ns[k] for k in ('v1', 'v2', 'v3', 'v4')]


def _fits(ws):
    return z3.And(*[z3.And(bv(w) >= 0, bv(w) <= _c(M64)) for w in ws])


def _o3_case(aiso, ah):
    """O3: atom words built by the real region == layout spec, all attribute values"""
    S = _iso_src()
    dom = []
    a = Q.mk_atom(dom, iso=aiso, h=ah, ring_u=RING_U9, h_hi=4)
    _dom_layout(dom, None, a, None, ring_max=67)
    spec = spec_atom_words(a)

    def fn():
        ns = regions.run_region(S['s_atom'], vars(S['mod']), a=a, n=1, i=0, mapping={}, numbers=[], bits1=[], bits2=[], bits3=[], bits4=[])
        return _words_from(ns)
    return Case(f'O3:_cython_compiled_structure/atom-words==layout[iso={aiso},h={ah}]', fn, dom,
                lambda ws: z3.And(_fits(ws), *[bv(w) == s for w, s in zip(ws, spec)]), (), None,
                (IFILE, 'MoleculeIsomorphism._cython_compiled_structure/for[0]'), tactic='QF_BV')


def _mk_qbond(prefix, ring):
    from chython.containers.bonds import QueryBond
    b = object.__new__(QueryBond)
    b._order = SymSmallSet(f'{prefix}o', (1, 2, 3, 4, 8))
    b._in_ring = ring
    b._stereo = None
    return b


def _mk_bond(dom, prefix='b'):
    from chython.containers.bonds import Bond
    b = object.__new__(Bond)
    b._order = sym_int(f'{prefix}_order', 1, 8, dom)
    dom.append(z3.Or(*[b._order.z == k for k in (1, 2, 3, 4, 8)]))
    b._in_ring = sym_bool(f'{prefix}_ring')
    b._stereo = None
    return b


def _o2_case(kind, qiso, ring_mode, bond_ring='nobond', empties=None, rad=None):
    """O2: query words built by the real region == layout spec (shape: which set attributes are empty, radical flag)"""
    S = _iso_src()
    dom = []
    q = Q.mk_query(kind, dom, iso=qiso, ring_mode=ring_mode, ring_u=RING_U9, empties=empties, rad=rad)
    if kind == 'Q' and q._isotope is not None:
        d = q._isotope.z - bv(q.mdl_isotope)
        dom.append(z3.Or(q._isotope.z == 0, z3.And(d >= -8, d <= 8)))
    if kind != 'M' and isinstance(q._implicit_hydrogens, SymSmallSet):
        dom += [z3.Not(q._implicit_hydrogens.m[k]) for k in range(5, 15)]        # documented domain: hydrogens 0..4
    b = None if bond_ring == 'nobond' else _mk_qbond('qb', bond_ring)
    if b is not None:
        dom.append(b._order.nonempty())
    spec = spec_query_words(kind, q, b)

    def fn():
        ns = regions.run_region(S['q_atom'], vars(S['mod']), a=q, b=b, masks1=[], masks2=[], masks3=[], masks4=[])
        return _words_from(ns)
    shape = '' if empties is None else f',empty={"".join(sorted(empties)) or "-"},rad={rad}'
    # quick tier: the two extreme emptiness shapes for every (kind, isotope, ring, bond) combination and the single-attribute shapes for
    # the plain element query; thorough tier: the full 16-shape grid
    quick = empties is None or len(empties) in (0, 4) or (len(empties) == 3 and kind == 'Q' and qiso is None and ring_mode == 'none' and bond_ring == 'nobond')
    return Case(f'O2:_cython_compiled_query/{kind}-words==layout[iso={qiso},ring={ring_mode},bond={bond_ring}{shape}]', fn, dom,
                lambda ws: z3.And(_fits(ws), *[bv(w) == s for w, s in zip(ws, spec)]), (), None,
                (IFILE, 'QueryIsomorphism._cython_compiled_query/for[0]/for[0]'), tactic='QF_BV', tier='quick' if quick else 'thorough')


def _o3b_case():
    """molecule bond word == neighbour's word I | order bit | ring bit"""
    S = _iso_src()
    dom = []
    b = _mk_bond(dom)
    w1 = sym_int('nbr_bits1', 0, M64, dom)

    def fn():
        ns = regions.run_region(S['s_bond'], vars(S['mod']), b=b, m=7, j=0, mapping={7: 0}, bits1=[w1], indices=[0], bonds=[0])
        return ns['bonds'][0], ns['indices'][0]
    return Case('O3b:_cython_compiled_structure/bond-word==layout', fn, dom,
                lambda r: z3.And(bv(r[0]) == (w1.z | spec_bond_bits(b)), z3.BoolVal(r[1] == 0)), (), None,
                (IFILE, 'MoleculeIsomorphism._cython_compiled_structure/for[1]/for[0]'))


def _o2b_case(ring):
    S = _iso_src()
    dom = []
    b = _mk_qbond('qc', ring)
    dom.append(b._order.nonempty())

    def fn():
        ns = regions.run_region(S['q_clos'], vars(S['mod']), b=b, m=7, j=0, mapping={7: 0}, indices=[0], bonds=[0])
        return ns['bonds'][0], ns['indices'][0]
    return Case(f'O2b:_cython_compiled_query/closure-word==layout[ring={ring}]', fn, dom,
                lambda r: z3.And(bv(r[0]) == (_c(FIELD_ANY['el1']) | spec_qbond_bits(b)), z3.BoolVal(r[1] == 0)), (), None,
                (IFILE, 'QueryIsomorphism._cython_compiled_query/for[0]/for[1]/if[0]/for[0]'))


def _const(fn_value):
    return lambda: fn_value


def _o4_case(kind, qiso, aiso, ah, ring_mode, probe=None):
    """O4 (pure z3): mask test on the layout words <=> documented clauses.  probe: None (documented domain) or one of
    'h-unknown', 'merged-Lv-Ts-Og', 'ring>65', 'query-h>4' (known limitations probed one at a time)"""
    dom = []
    q = Q.mk_query(kind, dom, iso=qiso, ring_mode=ring_mode, ring_u=RING_U9)
    a = Q.mk_atom(dom, iso=aiso, h=None if probe == 'h-unknown' else ah, ring_u=RING_U9, h_hi=4)
    _dom_layout(dom, q, a, kind, ring_max=67 if probe == 'ring>65' else 65, merge_ok=(probe == 'merged-Lv-Ts-Og'))
    if probe != 'query-h>4':
        dom += [z3.Not(q._implicit_hydrogens.m[k]) for k in range(5, 15)]
    m = spec_query_words(kind, q)
    b = spec_atom_words(a)
    goal = mask_test(m, b, first=True) == Q.spec_match(kind, q, a)
    name = f'O4:mask-test<=>clauses/{kind}[qiso={qiso},aiso={aiso},h={ah},ring={ring_mode}]' if probe is None else \
        f'probe:{probe}/{kind}[qiso={qiso},aiso={aiso},ring={ring_mode}]'

    def native(model):
        return replay_pair(kind, model, qiso, aiso, None if probe == 'h-unknown' else ah, ring_mode)
    return Case(name, _const(True), dom, lambda _: goal, (), native, (IFILE, 'layout'), timeout_ms=120000, tactic='QF_BV')


def replay_pair(kind, model, qiso, aiso, ah, ring_mode):
    """replay a counter-model natively: build concrete query/atom, run the REAL word builders and the mask test, compare with the real __eq__"""
    S = _iso_src()
    r = Q.replay_atom(kind, model, qiso, aiso, ah, ring_mode, ring_u=RING_U9)
    # rebuild objects (replay_atom does not return them): repeat construction here
    Element, QueryElement, AnyElement, ListElement, AnyMetal = Q._classes()
    g = model.get
    a = object.__new__(Element.from_atomic_number(g('a_Z', 6)))
    a._charge, a._is_radical = g('a_ch', 0), bool(g('a_rad', False))
    a._implicit_hydrogens = None if ah is None else g('a_h', 0)
    a._neighbors, a._heteroatoms, a._hybridization = g('a_nb', 0), g('a_het', 0), g('a_hyb', 1)
    a._isotope = None if aiso is None else a.mdl_isotope + (g('a_iso', 1) - g('a_mdl', 1))
    a._ring_sizes = {k for k in RING_U9 if g(f'ar_{k}', False)}
    a._in_ring = bool(a._ring_sizes)
    sets = {p: tuple(k for k in u if g(f'q{p}_{k}', False)) for p, u in (('n', range(15)), ('y', range(1, 5)), ('x', range(15)), ('h', range(15)))}
    if kind == 'Q':
        q = object.__new__(QueryElement.from_atomic_number(g('q_Z', 6)))
        q._isotope = None if qiso is None else (0 if g('q_iso', 0) == 0 else q.mdl_isotope + (g('q_iso', 0) - g('q_mdl', 1)))
    elif kind == 'A':
        q = object.__new__(AnyElement)
    else:
        q = object.__new__(ListElement)
        q.__dict__['atomic_numbers'] = tuple(k for k in range(1, 119) if g(f'ql_{k}', False))
        q._elements = ()
    q._neighbors, q._hybridization, q._heteroatoms, q._implicit_hydrogens = sets['n'], sets['y'], sets['x'], sets['h']
    q._masked, q._stereo = False, None
    q._charge, q._is_radical = g('q_ch', 0), bool(g('q_rad', False))
    q._ring_sizes = () if ring_mode == 'none' else (0,) if ring_mode == 'zero' else tuple(k for k in RING_U9 if g(f'qr_{k}', False))
    try:
        ns = regions.run_region(S['s_atom'], vars(S['mod']), a=a, n=1, i=0, mapping={}, numbers=[], bits1=[], bits2=[], bits3=[], bits4=[])
        bw = _words_from(ns)
        ns = regions.run_region(S['q_atom'], vars(S['mod']), a=q, b=None, masks1=[], masks2=[], masks3=[], masks4=[])
        mw = _words_from(ns)
    except Exception as e:
        return dict(ok=False, got=repr(e), args=r.get('args'))
    fast = bool(mw[0] & bw[0]) and (mw[1] & bw[1] == bw[1]) and (mw[2] & bw[2] == bw[2]) and bool(mw[3] & bw[3])
    slow = bool(q == a)
    return dict(ok=fast == slow, compiled_mask_test=fast, python_eq=slow, words_query=[hex(x) for x in mw], words_atom=[hex(x) for x in bw],
                args=r.get('args'))


def _o4_bond_case(ring):
    """inner test, bond part: (mask1 & bond == bond) <=> element-bit included and QueryBond == Bond; closure: jb & cb == cb <=> QueryBond == Bond"""
    dom = []
    qb = _mk_qbond('qb', ring)
    dom.append(qb._order.nonempty())
    b = _mk_bond(dom)
    z = sym_int('a_Z', 1, 118, dom)
    e1, _ = spec_element_bits(z.z)
    m_el = sym_int('m_el', 0, (1 << 57) - 1, dom)           # any element part of the query mask
    word = e1 | spec_bond_bits(b)
    mask = m_el.z | spec_qbond_bits(qb)
    bond_ok = z3.And(zbool(qb._order.__contains__(b._order)), z3.BoolVal(True) if ring is None else (b._in_ring.z == ring))
    goal1 = ((mask & word) == word) == z3.And((m_el.z & e1) != 0, bond_ok)
    cmask = _c(FIELD_ANY['el1']) | spec_qbond_bits(qb)
    goal2 = z3.And(word != 0, ((cmask & word) == word) == bond_ok)
    return Case(f'O4b:bond-and-closure-mask<=>QueryBond==Bond[ring={ring}]', _const(True), dom, lambda _: z3.And(goal1, goal2), (), None,
                (IFILE, 'layout'))


def _o4_metal_cases():
    """any-metal mask vs the reference metal list, enumerated over the 118 element classes (T-like, but on the spec words)"""
    out = []
    Element = Q._classes()[0]
    for cls in sorted(Element.__subclasses__(), key=lambda c: c.__name__):
        if cls.__name__ == 'SymElement':
            continue
        z = cls.atomic_number.fget(None)
        out.append((cls, z))
    return out


def _o5_cases():
    """O5: the test expressions of the de-cythonised matcher are the mask tests used in O4 (words are free 64-bit values)"""
    T = _pyx_tests()
    dom = []
    names = ['mask1', 'mask2', 'mask3', 'mask4', 'bits1', 'bits2', 'bits3', 'bits4', 'bond', 'jbond', 'cbond']
    v = {n: sym_int(n, 0, M64, dom) for n in names}
    q_atom = types.SimpleNamespace(mask1=v['mask1'], mask2=v['mask2'], mask3=v['mask3'], mask4=v['mask4'], closure=1)
    n_atom = types.SimpleNamespace(bits1=v['bits1'], bits2=v['bits2'], bits3=v['bits3'], bits4=v['bits4'])
    i_bond = types.SimpleNamespace(bond=v['bond'], index=0)
    j_bond = types.SimpleNamespace(bond=v['jbond'], index=0)
    m = [v[f'mask{i}'].z for i in range(1, 5)]
    b = [v[f'bits{i}'].z for i in range(1, 5)]
    out = []
    ns1 = dict(scope=[1], n=0, q_atom=q_atom, n_atom=n_atom)
    out.append(Case('O5:pyx-first-atom-test==mask-test', _const(True), dom,
                    lambda _: regions.bool_expr(T['first'], ns1) == mask_test(m, b, first=True), (), None, (PFILE, 'get_mapping/for[0]/if[0]')))
    ns2 = dict(scope=[1], matched=[0], m=0, q_atom=q_atom, m_atom=n_atom, i_bond=i_bond)
    inner_spec = z3.And((m[0] & v['bond'].z) == v['bond'].z, (m[1] & b[1]) == b[1], (m[2] & b[2]) == b[2], (m[3] & b[3]) != 0)
    out.append(Case('O5:pyx-inner-test==mask-test', _const(True), dom,
                    lambda _: regions.bool_expr(T['inner'], ns2) == inner_spec, (), None, (PFILE, 'get_mapping/.../for[0]/if[0]')))
    for sc, mt in ((0, 0), (1, 1)):
        ns3 = dict(scope=[sc], matched=[mt], m=0, q_atom=q_atom, m_atom=n_atom, i_bond=i_bond)
        out.append(Case(f'O5:pyx-inner-test-rejects-out-of-scope-or-matched[{sc},{mt}]', _const(True), dom,
                        lambda _, ns3=ns3: z3.Not(regions.bool_expr(T['inner'], ns3)), (), None, (PFILE, 'get_mapping/.../for[0]/if[0]')))
    ns4 = dict(j_bond=j_bond, c_bond=v['cbond'])
    rej = z3.Or(v['cbond'].z == 0, (v['jbond'].z & v['cbond'].z) != v['cbond'].z)
    out.append(Case('O5:pyx-closure-test==mask-test', _const(True), dom, lambda _: regions.bool_expr(T['closure'], ns4) == rej, (), None,
                    (PFILE, 'get_mapping/.../closure')))
    ns5 = dict(j_bond=types.SimpleNamespace(index=sym_int('jidx', 0, 65535, dom)), n=sym_int('nidx', 0, 65535, dom), matched=_Any1())
    return out


class _Any1:
    def __getitem__(self, i):
        return 1


def _canaries():
    c = _o4_case('Q', 'sym', 'sym', 'sym', 'set')
    c.name += '/CANARY-h-domain-lifted-to-14'
    # lifting the hydrogen domain on the atom side to 0..14 makes the layout collide with the charge bits: must be refuted
    dom = []
    q = Q.mk_query('Q', dom, iso='sym', ring_mode='set', ring_u=RING_U9)
    a = Q.mk_atom(dom, iso='sym', h='sym', ring_u=RING_U9, h_hi=14)
    _dom_layout(dom, q, a, 'Q', h_max=14)
    goal = mask_test(spec_query_words('Q', q), spec_atom_words(a), first=True) == Q.spec_match('Q', q, a)
    return [Case('O4:CANARY-atom-hydrogens-up-to-14-must-fail', _const(True), dom, lambda _: goal, (), None, (IFILE, 'layout'), expect_fail=True)]


_CACHE = None


def cases():
    global _CACHE
    if _CACHE is not None:
        return _CACHE
    cs = []
    for aiso in ('sym', None):
        for ah in ('sym', None):
            cs.append(_o3_case(aiso, ah))
    import itertools
    shapes = [frozenset(k for k, e in zip('hnxy', bits) if e) for bits in itertools.product((0, 1), repeat=4)]
    for kind in 'QAL':
        for rad in (False, True):
            for empties in shapes:
                for qiso in (('sym', None) if kind == 'Q' else (None,)):
                    for ring_mode in ('set', 'zero', 'none'):
                        cs.append(_o2_case(kind, qiso, ring_mode, empties=empties, rad=rad))
                for bond_ring in (None, True, False):
                    cs.append(_o2_case(kind, None, 'none', bond_ring, empties=empties, rad=rad))
    for empties in (frozenset(), frozenset('n'), frozenset('y'), frozenset('ny')):
        cs.append(_o2_case('M', None, 'none', empties=empties))
        cs.append(_o2_case('M', None, 'none', None, empties=empties))
    cs.append(_o3b_case())
    for ring in (None, True, False):
        cs.append(_o2b_case(ring))
        cs.append(_o4_bond_case(ring))
    for kind in 'QAL':
        for qiso in (('sym', None) if kind == 'Q' else (None,)):
            for aiso in ('sym', None):
                for ring_mode in ('set', 'zero', 'none'):
                    cs.append(_o4_case(kind, qiso, aiso, 'sym', ring_mode))
    # probes of the documented limitations (one at a time, stable names -> known_findings.jsonl)
    cs.append(_o4_case('Q', None, None, 'sym', 'none', probe='h-unknown'))
    cs.append(_o4_case('Q', None, None, 'sym', 'none', probe='merged-Lv-Ts-Og'))
    cs.append(_o4_case('Q', None, None, 'sym', 'set', probe='ring>65'))
    cs.append(_o4_case('Q', None, None, 'sym', 'none', probe='query-h>4'))
    cs += _o5_cases()
    cs += _canaries()
    _CACHE = cs
    return cs
