"""C03 contract on chython/files/daylight/tokenize.py:_tokenize:  raises ⊆ ValueError (IncorrectSmiles / IncorrectSmarts / int()),
for EVERY input string - proved by finite-state induction over the real loop body (DESIGN §1.3(3)).

The loop body and the post-loop block are cut from the AST of the current source and compiled unchanged.  An abstraction maps the loop
state (token_type, token, tokens) to a finite key; the body is run on one representative per (abstract state, character class) until no
new abstract state appears (least fixpoint = inductive invariant).  Obligation per pair: the step returns or raises a ValueError subclass.
Soundness of "one representative per class" rests on a syntactic dependency check of the body (how `s`, `token`, `tokens` are used);
if that check fails the result is UNDECIDED, never a violation.
"""
import ast
import copy

from vlib import env

FILE = 'chython/files/daylight/tokenize.py'

# character classes: every literal the body compares `s` with is its own class or a member of a class whose members are treated alike
CLASSES = {
    '[': '[', ']': ']', '%': '%', '=': '=', '#': '#', ':': ':', '-': '-', '~': '~', '/': '/', '\\': '\\', '.': '.', ';': ';', ',': ',',
    '!': '!', '(': '(', ')': ')', '@': '@', 'organic(NOPSFI)': 'N', 'aromatic(cnopsb)': 'c', 'C': 'C', 'B': 'B', 'l': 'l', 'r': 'r',
    'digit-0': '0', 'digit-1-9': '7', 'numeric-non-ascii-int()-ok': '٣', 'numeric-int()-fails': '²', 'other-letter': 'x', 'space': ' ', 'H': 'H', '+': '+',
}


def _load():
    import chython.files.daylight.tokenize as tk
    src = env.read(FILE)
    tree = ast.parse(src)
    from vlib.env import Unanchored
    fn = next((n for n in tree.body if isinstance(n, ast.FunctionDef) and n.name == '_tokenize'), None)
    loop = fn and next((s for s in fn.body if isinstance(s, ast.For)), None)
    if loop is None:
        raise Unanchored(f'{FILE}: function _tokenize with a top-level for loop over the characters not found')
    after = fn.body[fn.body.index(loop) + 1:]

    def mk(stmts, name, ret=True):
        body = [copy.deepcopy(s) for s in stmts]
        if ret:
            body.append(ast.Return(ast.Tuple([ast.Name('token_type', ast.Load()), ast.Name('token', ast.Load()), ast.Name('tokens', ast.Load())], ast.Load())))
        f = ast.FunctionDef(name=name, args=ast.arguments(posonlyargs=[], args=[ast.arg('token_type'), ast.arg('token'), ast.arg('tokens'), ast.arg('s')],
                                                           kwonlyargs=[], kw_defaults=[], defaults=[]), body=body, decorator_list=[], type_params=[])
        m = ast.Module([f], [])
        ast.fix_missing_locations(m)
        g = dict(vars(tk))
        exec(compile(m, env.repo_path(FILE), 'exec'), g)
        return g[name]
    return tk, fn, loop, mk(loop.body, 'step'), mk(after, 'fin', ret=False), ast.unparse(fn)


def dependency_check(loop):
    """the body may use s / token / tokens only in ways whose outcome is determined by the abstraction"""
    problems = []
    literals = set()
    for n in ast.walk(loop):
        if isinstance(n, ast.Name) and n.id == 's':
            pass
    for n in ast.walk(loop):
        if isinstance(n, ast.Attribute) and isinstance(n.value, ast.Name):
            if n.value.id == 'tokens' and n.attr not in ('append', 'pop'):
                problems.append(f'tokens.{n.attr}')
            if n.value.id == 'token' and n.attr not in ('append',):
                problems.append(f'token.{n.attr}')
            if n.value.id == 's' and n.attr not in ('isnumeric', 'upper'):
                problems.append(f's.{n.attr}')
        if isinstance(n, ast.Compare) and isinstance(n.left, ast.Name) and n.left.id == 's':
            for c in n.comparators:
                if isinstance(c, ast.Constant) and isinstance(c.value, str):
                    literals |= set(c.value)
                else:
                    problems.append('s compared with a non-literal')
        if isinstance(n, ast.Subscript) and isinstance(n.value, ast.Name) and n.value.id == 'tokens' and ast.unparse(n.slice) != '-1':
            problems.append('tokens indexed at another position than -1')
        if isinstance(n, ast.Call) and isinstance(n.func, ast.Attribute) and isinstance(n.func.value, ast.Name) and n.func.value.id == 'tokens' and \
                n.func.attr == 'pop' and not (len(n.args) == 1 and ast.unparse(n.args[0]) == '-1' or not n.args):
            problems.append('tokens.pop with another index')
    reps = set(CLASSES.values())
    missing = {c for c in literals if c not in reps and not (c in 'NOPSFI' or c in 'cnopsb')}
    if missing:
        problems.append(f'literal characters without a class: {sorted(missing)}')
    return problems


def _kind(v):
    from chython.containers.bonds import QueryBond
    if isinstance(v, QueryBond):
        return 'QB'
    if isinstance(v, bool):
        return ('bool', v)
    if isinstance(v, int):
        return 'int'
    if isinstance(v, str):
        return ('str', v) if v in ('C', 'B') else 'str'
    if v is None:
        return None
    if isinstance(v, list):
        return ('list', tuple(_ckind(x) for x in v[:2]), len(v) > 2)
    return type(v).__name__


def _ckind(x):
    if isinstance(x, str) and len(x) == 1:
        if x in '123456789':
            return 'd19'
        if x == '0':
            return 'd0'
        if x.isnumeric():
            try:
                int(x)
                return 'dn'
            except ValueError:
                return 'dx'
        return 'ch'
    return _kind(x)


def alpha(tt, tok, toks):
    return (tt, _kind(tok), tuple((t[0], _kind(t[1])) for t in toks[-2:]), len(toks) == 0)


def fixpoint(max_states=20000):
    tk, fn, loop, step, fin, text = _load()
    problems = dependency_check(loop)
    init = (None, None, [])
    seen = {alpha(*init): ''}
    work = [(init, '')]
    rows, unsafe = [], []
    while work:
        (tt, tok, toks), pref = work.pop()
        for cname, ch in CLASSES.items():
            st = (tt, copy.deepcopy(tok), copy.deepcopy(toks))
            name = f'_tokenize/step[{alpha(tt, tok, toks)!r} x {cname}]'
            try:
                ns = step(*st, ch)
            except ValueError:
                rows.append((name, True))
                continue
            except Exception as e:
                rows.append((name, False))
                unsafe.append((pref + ch, type(e).__name__, name))
                continue
            rows.append((name, True))
            a = alpha(*ns)
            if a not in seen:
                if len(seen) >= max_states:
                    raise RuntimeError('tokenizer fixpoint: abstract state budget exceeded')
                seen[a] = pref + ch
                work.append((ns, pref + ch))
    # post-loop block on a representative of every reachable abstract state (re-reached by its witness prefix)
    for a, pref in seen.items():
        name = f'_tokenize/end[{a!r}]'
        tt, tok, toks = None, None, []
        try:
            for ch in pref:
                tt, tok, toks = step(tt, tok, toks, ch)
            fin(tt, tok, toks, '')
            rows.append((name, True))
        except ValueError:
            rows.append((name, True))
        except Exception as e:
            rows.append((name, False))
            unsafe.append((pref, type(e).__name__, name))
    return dict(states=len(seen), rows=rows, unsafe=unsafe, problems=problems, text=text)


def replay(s):
    """native replay of a witness string on the real _tokenize"""
    import chython.files.daylight.tokenize as tk
    try:
        tk._tokenize(s)
        return 'returned'
    except ValueError as e:
        return 'ValueError'
    except Exception as e:
        return type(e).__name__
