"""C01 / C15 / C17 contracts on the atom and bond invariants fed to the refinement and the fingerprints: the hashed tuple is exactly
the tuple of the fields the property's mechanism names (frame: a stub atom with only those slots bound raises on any other read), for
all field values.  `hash` itself is rebound to a recorder so the hashed tuple is observed, not its hash value.
Also the dynamic-label predicates of C15 (is_dynamic) and equality/hash of containers being defined on the canonical string (C01)."""
from vlib.env import Unanchored
import ast
import types

import z3

from vlib import env
from pysym import SymBool, SymInt, sym_int, sym_bool, zbool, bv, W
from pysym.harness import Case
from pysym import regions


class _Rec:
    def __init__(self):
        self.calls = []

    def __call__(self, x):
        self.calls.append(x)
        return len(self.calls)


def _hashed_by(func, module, *args):
    """run the whole REAL function (code object of the current tree) with the builtin `hash` bound to a recorder: returns the single hashed
    value.  No statement of the body is addressed, so behaviour-preserving edits inside the function keep the obligation."""
    func = getattr(func, 'fget', func)
    func = getattr(func, '__wrapped__', func)
    rec = _Rec()
    f = types.FunctionType(func.__code__, {**vars(module), 'hash': rec}, func.__name__, func.__defaults__, func.__closure__)
    f(*args)
    if len(rec.calls) != 1:
        raise Unanchored(f'{func.__qualname__}: expected exactly one hash() call for one atom / bond, saw {len(rec.calls)}')
    return rec.calls[0]


class _OneAtom:
    """container stub for Fingerprints._atom_identifiers: one atom, reachable only through atoms() / _atoms"""
    def __init__(self, a):
        self._atoms = {1: a}

    def atoms(self):
        return iter(self._atoms.items())


def _or0(x):
    """spec of `x or 0` for an optional int"""
    if x is None:
        return z3.BitVecVal(0, W)
    return x.z


def _tuple_eq(val, spec):
    if not isinstance(val, tuple) or len(val) != len(spec):
        return z3.BoolVal(False)
    c = []
    for v, s in zip(val, spec):
        if z3.is_bool(s):
            c.append(zbool(v) == s)
        else:
            b = bv(v)
            c.append(b == s if b is not None else z3.BoolVal(False))
    return z3.And(*c)


def cases():
    from chython.periodictable import Element, DynamicElement
    from chython.containers.bonds import Bond, DynamicBond, QueryBond
    import chython.periodictable.base.element as em
    import chython.periodictable.base.dynamic as dm
    import chython.containers.bonds as bm
    import chython.algorithms.fingerprints as fm
    from contracts.query import sym_element_class
    out = []
    # Element.__hash__ : (isotope or 0, Z, charge, radical, hydrogens or 0, in ring)
    for iso in ('sym', None):
        for h in ('sym', None):
            dom = []
            a = object.__new__(sym_element_class())
            a._z = sym_int('Z', 1, 118, dom)
            a._isotope = None if iso is None else sym_int('iso', 0, 400, dom)
            a._charge = sym_int('ch', -4, 4, dom)
            a._is_radical = sym_bool('rad')
            a._implicit_hydrogens = None if h is None else sym_int('h', 0, 14, dom)
            a._in_ring = sym_bool('ring')
            spec = [_or0(a._isotope), a._z.z, a._charge.z, a._is_radical.z, _or0(a._implicit_hydrogens), a._in_ring.z]
            out.append(Case(f'Element.__hash__/hashed-tuple==(isotope|0,Z,charge,radical,H|0,in_ring)[iso={iso},h={h}]',
                            (lambda a=a: _hashed_by(Element.__hash__, em, a)), dom, (lambda v, spec=spec: _tuple_eq(v, spec)), (), None,
                            ('chython/periodictable/base/element.py', 'Element.__hash__')))
    # Fingerprints._atom_identifiers : (isotope or 0, Z, charge, radical) - no hydrogens, no ring mark, no atom number
    for iso in ('sym', None):
        dom = []
        a = object.__new__(sym_element_class())
        a._z = sym_int('Z', 1, 118, dom)
        a._isotope = None if iso is None else sym_int('iso', 0, 400, dom)
        a._charge = sym_int('ch', -4, 4, dom)
        a._is_radical = sym_bool('rad')
        spec = [_or0(a._isotope), a._z.z, a._charge.z, a._is_radical.z]
        out.append(Case(f'Fingerprints._atom_identifiers/hashed-tuple==(isotope|0,Z,charge,radical)[iso={iso}]',
                        (lambda a=a: _hashed_by(fm.Fingerprints._atom_identifiers, fm, _OneAtom(a))), dom, (lambda v, spec=spec: _tuple_eq(v, spec)), (), None,
                        ('chython/algorithms/fingerprints/__init__.py', 'Fingerprints._atom_identifiers')))
    # Bond.__hash__ is the order; QueryBond.__hash__ (order tuple, ring flag); DynamicBond.__hash__ (order|0, p_order|0)
    dom = []
    b = object.__new__(Bond)
    b._order = sym_int('o', 1, 8, dom)
    out.append(Case('Bond.__hash__==order', (lambda: Bond.__hash__(b)), dom, lambda v: bv(v) == b._order.z, (), None, ('chython/containers/bonds.py', 'Bond.__hash__')))
    for o in ('sym', None):
        for p in ('sym', None):
            if o is None and p is None:
                continue
            dom = []
            d = object.__new__(DynamicBond)
            d._order = None if o is None else sym_int('o', 1, 8, dom)
            d._p_order = None if p is None else sym_int('p', 1, 8, dom)
            spec = [_or0(d._order), _or0(d._p_order)]
            out.append(Case(f'DynamicBond.__hash__/hashed-tuple==(order|0,p_order|0)[{o},{p}]', (lambda d=d: _hashed_by(DynamicBond.__hash__, bm, d)), dom,
                            (lambda v, spec=spec: _tuple_eq(v, spec)), (), None, ('chython/containers/bonds.py', 'DynamicBond.__hash__')))
            # C15: a bond is dynamic exactly where the two sides differ
            out.append(Case(f'DynamicBond.is_dynamic<=>order!=p_order[{o},{p}]', (lambda d=d: d.is_dynamic), dom,
                            (lambda v, d=d: zbool(v) == (z3.BoolVal(True) if d._order is None or d._p_order is None else d._order.z != d._p_order.z)), (), None,
                            ('chython/containers/bonds.py', 'DynamicBond.is_dynamic')))
    # DynamicElement: hash tuple and is_dynamic
    dcls = type('SymDyn', (DynamicElement,), {'__slots__': ('_z',), 'atomic_number': property(lambda s: 0 if s is None else s._z)})
    dcls.__abstractmethods__ = frozenset()
    for iso in ('sym', None):
        dom = []
        d = object.__new__(dcls)
        d._z = sym_int('Z', 1, 118, dom)
        d._isotope = None if iso is None else sym_int('iso', 0, 400, dom)
        d._charge, d._p_charge = sym_int('ch', -4, 4, dom), sym_int('pch', -4, 4, dom)
        d._is_radical, d._p_is_radical = sym_bool('rad'), sym_bool('prad')
        spec = [_or0(d._isotope), d._z.z, d._charge.z, d._p_charge.z, d._is_radical.z, d._p_is_radical.z]
        out.append(Case(f'DynamicElement.__hash__/hashed-tuple[iso={iso}]', (lambda d=d: _hashed_by(DynamicElement.__hash__, dm, d)), dom,
                        (lambda v, spec=spec: _tuple_eq(v, spec)), (), None, ('chython/periodictable/base/dynamic.py', 'DynamicElement.__hash__')))
        out.append(Case(f'DynamicElement.is_dynamic<=>charge-or-radical-differs[iso={iso}]', (lambda d=d: d.is_dynamic), dom,
                        (lambda v, d=d: zbool(v) == z3.Or(d._charge.z != d._p_charge.z, d._is_radical.z != d._p_is_radical.z)), (), None,
                        ('chython/periodictable/base/dynamic.py', 'DynamicElement.is_dynamic')))
    # canary
    c = out[0]
    good = c.ensures
    out.append(Case(c.name + '/CANARY-negated', c.fn, c.requires, lambda v: z3.Not(good(v)), (), None, c.target, expect_fail=True))
    return out
