"""C07 contracts on the comparison operators of Isomorphism: they are defined from the existence of a mapping as the property states
(a <= b <=> some embedding; a < b <=> embedding and fewer atoms; is_equal <=> embedding and equal atom counts), for every pair of sizes
and both outcomes of the search (get_mapping stubbed by an iterator that is empty or not: the callers see its contract, not its body)."""
import z3

from pysym import SymBool, sym_bool, sym_int, zbool
from pysym.harness import Case

FILE = 'chython/algorithms/isomorphism.py'


def cases():
    from chython.algorithms.isomorphism import Isomorphism
    out = []

    def mk(name, n, has):
        class Stub(Isomorphism):
            __slots__ = ('n', 'has', 'other_ok')

            def __len__(self):
                return self.n

            def get_mapping(self, other, **kw):
                assert kw.get('automorphism_filter') is False
                return iter([{1: 1}] if bool(self.has[other.name]) else [])
        s = Stub()
        s.n, s.name = n, name
        return s
    for na in range(0, 4):
        for nb in range(0, 4):
            ab, ba = sym_bool('a_in_b'), sym_bool('b_in_a')
            cls = type('Stub', (Isomorphism,), {'__slots__': ('n', 'name', 'emb'), '__len__': lambda s: s.n,
                                                'get_mapping': lambda s, o, **kw: iter([{1: 1}] if bool(s.emb) else [])})
            a, b = cls(), cls()
            a.n, a.name, a.emb = na, 'a', ab
            b.n, b.name, b.emb = nb, 'b', ba
            T = (FILE, 'Isomorphism')
            out.append(Case(f'Isomorphism.__le__[{na},{nb}]', (lambda a=a, b=b: a <= b), (), (lambda v, ab=ab: zbool(v) == ab.z), (), None, T))
            out.append(Case(f'Isomorphism.__lt__[{na},{nb}]', (lambda a=a, b=b: a < b), (), (lambda v, ab=ab, na=na, nb=nb: zbool(v) == z3.And(ab.z, z3.BoolVal(na < nb))), (), None, T))
            out.append(Case(f'Isomorphism.__ge__[{na},{nb}]', (lambda a=a, b=b: a >= b), (), (lambda v, ba=ba: zbool(v) == ba.z), (), None, T))
            out.append(Case(f'Isomorphism.__gt__[{na},{nb}]', (lambda a=a, b=b: a > b), (), (lambda v, ba=ba, na=na, nb=nb: zbool(v) == z3.And(ba.z, z3.BoolVal(na > nb))), (), None, T))
            out.append(Case(f'Isomorphism.is_substructure[{na},{nb}]', (lambda a=a, b=b: a.is_substructure(b)), (), (lambda v, ab=ab: zbool(v) == ab.z), (), None, T))
            out.append(Case(f'Isomorphism.is_equal[{na},{nb}]', (lambda a=a, b=b: a.is_equal(b)), (), (lambda v, ab=ab, na=na, nb=nb: zbool(v) == z3.And(ab.z, z3.BoolVal(na == nb))), (), None, T))
    c = out[1]
    good = c.ensures
    out.append(Case(c.name + '/CANARY-negated', c.fn, c.requires, lambda v: z3.Not(good(v)), (), None, c.target, expect_fail=True))
    return out
