"""C06 contracts on the cyclomatic-number clause ("exactly bonds minus atoms plus components members, coordinate bonds ignored"):

 * Rings.rings_count - the whole REAL property function runs (code object of the current tree) on a receiver stub whose
   `not_special_connectivity` is a dict of V neighbour collections of SYMBOLIC size d_1..d_V; `len` is rebound to a length function that
   answers the symbolic size for those collections, `_connected_components` to a stub answering a collection of symbolic size C (the callee is
   used through its contract "returns the list of components"; its body is judged by the bounded stand-in b06).
   requires  d_i >= 0, sum d_i == 2 E (handshake: the adjacency is symmetric and irreflexive, every bond is listed at both ends), 1 <= C <= V
   ensures   result == E - V + C                 (taken from the property statement)
   Shape bound: V concrete (1..12 quick, ..16 thorough; the bit-vector query grows quickly with the number of summands: 0.2 s at 12, 1.8 s at 16, undecided in 60 s near 60); the degrees (< 2^24), E (< 2^32) and C are symbolic integers - no molecule approaches these sizes.
 * Rings.not_special_connectivity - the whole REAL property function runs on a receiver stub whose `_bonds` holds real `Bond` objects with a
   SYMBOLIC order in {1, 2, 3, 4, 8} (star of degree k around atom 0, k = 1..4; atoms are treated independently by the loop, shape bound k):
   ensures   key set == atom set, and m in result[n]  <=>  order(n, m) != 8        (both directions of every bond)
"""
import types

import z3

from pysym import SymInt, sym_int, bv
from pysym.harness import Case

RFILE = 'chython/algorithms/rings.py'


def _real(name):
    import chython.algorithms.rings as rg
    p = rg.Rings.__dict__[name]
    f = getattr(p, 'func', None) or getattr(p, 'fget', None) or getattr(p, '__wrapped__', p)
    if not isinstance(f, types.FunctionType):
        from vlib.env import Unanchored
        raise Unanchored(f'Rings.{name}: no plain function behind the property object')
    return rg, f


class _Sized:
    """collection of symbolic size: only its length may be asked"""
    __slots__ = ('n',)

    def __init__(self, n):
        self.n = n


def _len(x):
    return x.n if isinstance(x, _Sized) else len(x)


class _Self:
    pass


def _count_cases():
    out = []
    for v in range(1, 17):
        dom = []
        ds = [sym_int(f'd{i}', dom=dom, bits=24) for i in range(v)]
        e = sym_int('E', dom=dom, bits=32)
        c = sym_int('C', 1, v, dom)
        tot = ds[0].z
        for d in ds[1:]:
            tot = tot + d.z
        dom.append(tot == 2 * e.z)

        def fn(v=v, ds=ds, c=c):
            rg, f = _real('rings_count')
            seen = []

            def comps(b):
                seen.append(b)
                return _Sized(c)
            g = types.FunctionType(f.__code__, {**vars(rg), 'len': _len, '_connected_components': comps}, f.__name__, f.__defaults__, f.__closure__)
            s = _Self()
            s.not_special_connectivity = bonds = {i + 1: _Sized(ds[i]) for i in range(v)}
            r = g(s)
            if len(seen) != 1 or seen[0] is not bonds:
                raise AssertionError('rings_count must count the components of the connectivity without coordinate bonds (one call on that very dict)')
            return r

        def native(model, v=v):
            # a graph realising the model cannot be built from degrees alone; the arithmetic is replayed on the real function with plain ints
            rg, f = _real('rings_count')

            class L:
                def __init__(s, n): s.n = n
                def __len__(s): return s.n
            d = [model.get(f'd{i}', 0) for i in range(v)]
            cc, ee = model.get('C', 1), model.get('E', 0)
            g = types.FunctionType(f.__code__, {**vars(rg), '_connected_components': lambda b: L(cc)}, f.__name__, f.__defaults__, f.__closure__)
            s = _Self()
            s.not_special_connectivity = {i + 1: L(d[i]) for i in range(v)}
            r = g(s)
            return dict(ok=r == ee - v + cc, degrees=d, bonds=ee, atoms=v, components=cc, rings_count=r, expected=ee - v + cc)
        out.append(Case(f'rings_count/equals-bonds-minus-atoms-plus-components[atoms={v}]', fn, dom,
                        lambda r, v=v, e=e, c=c: bv(r) == e.z - v + c.z, (), native, (RFILE, 'Rings.rings_count'),
                        tier='quick' if v <= 12 else 'thorough'))
    return out


def _nsc_cases():
    from chython.containers.bonds import Bond
    out = []
    for k in range(1, 5):
        dom = []
        os_ = [sym_int(f'o{i}', None, None, dom) for i in range(1, k + 1)]
        for o in os_:
            dom.append(z3.Or(*[o.z == x for x in (1, 2, 3, 4, 8)]))

        def fn(k=k, os_=os_):
            rg, f = _real('not_special_connectivity')
            bs = []
            for o in os_:
                b = object.__new__(Bond)
                b._order = o
                b._stereo = None
                bs.append(b)
            s = _Self()
            s._bonds = {0: {i + 1: bs[i] for i in range(k)}, **{i + 1: {0: bs[i]} for i in range(k)}}
            r = f(s)
            return {n: set(ms) for n, ms in r.items()}

        def ens(r, k=k, os_=os_):
            if set(r) != set(range(k + 1)):
                return z3.BoolVal(False)
            cl = []
            for i in range(k):
                o = os_[i].z
                cl.append((o != 8) if (i + 1) in r[0] else (o == 8))
                cl.append((o != 8) if 0 in r[i + 1] else (o == 8))
                if r[i + 1] - {0}:
                    return z3.BoolVal(False)
            if r[0] - set(range(1, k + 1)):
                return z3.BoolVal(False)
            return z3.And(*cl)

        def native(model, k=k):
            rg, f = _real('not_special_connectivity')
            o = [model.get(f'o{i}', 1) for i in range(1, k + 1)]
            bs = [Bond(x) for x in o]
            s = _Self()
            s._bonds = {0: {i + 1: bs[i] for i in range(k)}, **{i + 1: {0: bs[i]} for i in range(k)}}
            r = f(s)
            exp = {0: {i + 1 for i in range(k) if o[i] != 8}, **{i + 1: ({0} if o[i] != 8 else set()) for i in range(k)}}
            return dict(ok={n: set(m) for n, m in r.items()} == exp, orders=o, got={n: sorted(m) for n, m in r.items()}, expected={n: sorted(m) for n, m in exp.items()})
        out.append(Case(f'not_special_connectivity/drops-exactly-the-coordinate-bonds[degree={k}]', fn, dom, ens, (), native,
                        (RFILE, 'Rings.not_special_connectivity')))
    return out


def cases():
    out = _count_cases() + _nsc_cases()
    # vacuity guards: the postcondition `False` must be refuted on a feasible path (a contradictory `requires` would verify it); independent of
    # what the code computes, so a tree whose function is wrong for every input fails its obligation instead of tripping the canary
    for c in (out[0], next(c for c in out if c.name.startswith('not_special_connectivity'))):
        out.append(Case(c.name + '/CANARY-false-post', c.fn, c.requires, lambda v: z3.BoolVal(False), (), None, c.target, expect_fail=True))
    return out
