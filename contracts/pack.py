"""C10 contracts on the de-cythonised _pack_v2.pyx / _unpack_v0v2.pyx (engine X under engine P).

  W   whole-function symbolic round trip  unpack(pack(m)) == m, field by field, on enumerated shapes with symbolic attribute values
      (atom numbers, element, isotope, charge, hydrogens, radical, bond orders); the record bytes equal the published layout.
  L5  bond-order stream: period-8 induction on the real encoder / decoder regions + tails 1..7 with flush
  L4  connection table: period-2 induction on the real regions
  L6  section arithmetic in the declared C types (pack vs unpack vs published formula)
  F   reaction framing: role slices of ReactionContainer.unpack / pack_len for all role counts 0..255
"""
import ast
from vlib.env import Unanchored
import copy
import itertools
import types

import z3

from vlib import env
from pysym import SymInt, SymBool, sym_int, sym_bool, zbool, bv, W
from pysym.harness import Case
from pysym import regions
from cyx import symrt

PK = 'chython/containers/_pack_v2.pyx'
UP = 'chython/containers/_unpack_v0v2.pyx'
RX = 'chython/containers/reaction.py'

_MODS = {}


def mods():
    if 'p' not in _MODS:
        _MODS['p'], _MODS['pt'] = symrt.load(PK)
        _MODS['u'], _MODS['ut'] = symrt.load(UP)
    return _MODS['p'], _MODS['u']


def _c(v):
    return z3.BitVecVal(v, W)


ORDERS = (1, 2, 3, 4, 8)


def mk_atom(i, dom, iso, stereo, h, sym=True):
    """stub atom read by pack(): only the slots/attributes the packer touches"""
    if sym:
        Z = sym_int(f'Z{i}', 1, 118, dom)
        ch = sym_int(f'ch{i}', -4, 4, dom)
        rad = sym_bool(f'rad{i}')
        hv = None if h is None else sym_int(f'h{i}', 0, 6, dom)
        isov = None if iso is None else sym_int(f'iso{i}', 1, 400, dom)
    else:       # concrete attribute values, varied deterministically with the atom index
        Z = (6, 7, 8, 16, 26, 118, 1, 35)[i % 8]
        ch = (0, 1, -1, 4, -4, 2, 0, -3)[i % 8]
        rad = bool(i % 3 == 1)
        hv = None if h is None else (0, 3, 6, 1, 2, 4, 5, 0)[i % 8]
        isov = None if iso is None else {6: 13, 7: 15, 8: 18, 16: 34, 26: 57, 118: 295, 1: 2, 35: 81}[Z]
    return types.SimpleNamespace(atomic_number=Z, _isotope=isov, _stereo=stereo, _implicit_hydrogens=hv, _charge=ch, _is_radical=rad, x=0.0, y=0.0)


def build_shape(shape, dom, sym_numbers=False):
    """shape: dict(n=atom count, bonds=[(i, j)], attrs=[(iso, stereo, h)...], ct=[(i, j, sign)]) with atom indices 0..n-1.
    returns stub molecule + bookkeeping"""
    p, _ = mods()
    n = shape['n']
    nums = [sym_int(f'n{i}', 1, 4095, dom) for i in range(n)] if sym_numbers else list(shape.get('numbers') or range(1, n + 1))
    if sym_numbers and n > 1:
        dom.append(z3.Distinct(*[x.z for x in nums]))
    atoms = [mk_atom(i, dom, *shape['attrs'][i], sym=shape.get('sym_attrs', True)) for i in range(n)]
    common = p['common_isotopes']
    for i, a in enumerate(atoms):
        if a._isotope is not None and isinstance(a._isotope, SymInt):
            off = a._isotope.z - bv(common[a.atomic_number])
            dom += [off >= 1, off <= 31]
    bonds = {}
    ngb = [[] for _ in range(n)]
    ctd = {frozenset((c[0], c[1])): c[2] for c in shape.get('ct', ())}
    for k, (i, j) in enumerate(shape['bonds']):
        o = sym_int(f'o{k}', 1, 8, dom)
        dom.append(z3.Or(*[o.z == v for v in ORDERS]))
        b = types.SimpleNamespace(_order=o, _stereo=ctd.get(frozenset((i, j))))
        bonds[(i, j)] = bonds[(j, i)] = b
        ngb[i].append(j)
        ngb[j].append(i)
    mol = types.SimpleNamespace(
        _atoms=symrt.AList([(nums[i], atoms[i]) for i in range(n)]),
        _bonds=symrt.AList([(nums[i], symrt.AList([(nums[j], bonds[(i, j)]) for j in ngb[i]])) for i in range(n)]),
        # terminals of the double-bond chain: the bond's own atoms for an alkene, the chain ends for a cumulene (entry = (i, j, sign[, ti, tj]))
        _stereo_cis_trans_terminals=symrt.AList([(nums[c[0]], (nums[c[3] if len(c) > 3 else c[0]], nums[c[4] if len(c) > 3 else c[1]])) for c in shape.get('ct', ())] +
                                                [(nums[c[1]], (nums[c[3] if len(c) > 3 else c[0]], nums[c[4] if len(c) > 3 else c[1]])) for c in shape.get('ct', ())]),
        _cis_trans_count=len(shape.get('ct', ())))
    return mol, nums, atoms, ngb, bonds


def spec_size(n_atoms, n_bonds, n_ct):
    return 4 + 9 * n_atoms + 3 * n_bonds + (3 * n_bonds + 7) // 8 + 4 * n_ct


def spec_record(num, ngb_count, atom, common):
    """the 9 published bytes of one atom record (z3 expressions), from the format comment"""
    n = bv(num)
    st = atom._stereo
    tetra = 0 if st is None or ngb_count == 2 else (3 if st else 2)
    allene = 0 if st is None or ngb_count != 2 else (3 if st else 2)
    iso = _c(0) if atom._isotope is None else bv(atom._isotope) - bv(common[atom.atomic_number])
    h = _c(7) if atom._implicit_hydrogens is None else bv(atom._implicit_hydrogens)
    b = [z3.LShR(n, 4) & 0xff, ((n & 0xf) << 4) | ngb_count, _c((tetra << 6) | (allene << 4)) | z3.LShR(iso, 1), ((iso & 1) << 7) | bv(atom.atomic_number),
         _c(0), _c(0), _c(0), _c(0), (h << 5) | ((bv(atom._charge) + 4) << 1) | z3.If(zbool(atom._is_radical), _c(1), _c(0))]
    return b


def _round_trip_case(name, shape, sym_numbers=False, check_bytes=False):
    dom = []
    mol, nums, atoms, ngb, bonds = build_shape(shape, dom, sym_numbers)
    p, u = mods()
    n, nb, nct = shape['n'], len(shape['bonds']), len(shape.get('ct', ()))

    def fn():
        out = p['pack'](mol)
        py_mol, ct, size = u['unpack'](out)
        return out, py_mol, ct, size

    def ensures(val):
        out, py_mol, ct, size = val
        c = [z3.BoolVal(size == len(out) == spec_size(n, nb, nct))]
        c.append(z3.BoolVal(len(py_mol._atoms.p) == n))
        hdr = [2, n >> 4, ((n << 4) & 0xff) | (nct >> 8), nct & 0xff]
        c += [bv(out[i]) == _c(hdr[i]) for i in range(4)]
        if len(py_mol._atoms.p) != n:
            return z3.BoolVal(False)
        for i, ((n2, a2), (nbk, nbrs)) in enumerate(zip(py_mol._atoms.p, py_mol._bonds.p)):
            a = atoms[i]
            c.append(bv(n2) == bv(nums[i]))
            c.append(bv(nbk) == bv(nums[i]))
            z2 = getattr(type(a2), '_z', None)
            c.append(bv(z2 if z2 is not None else a2.atomic_number) == bv(a.atomic_number))
            c.append(z3.BoolVal(a2._isotope is None) if a._isotope is None else
                     (bv(a2._isotope) == bv(a._isotope) if a2._isotope is not None else z3.BoolVal(False)))
            c.append(z3.BoolVal(a2._stereo is a._stereo))
            c.append(z3.BoolVal(a2._implicit_hydrogens is None) if a._implicit_hydrogens is None else
                     (bv(a2._implicit_hydrogens) == bv(a._implicit_hydrogens) if a2._implicit_hydrogens is not None else z3.BoolVal(False)))
            c.append(bv(a2._charge) == bv(a._charge))
            c.append(zbool(a2._is_radical) == zbool(a._is_radical))
            c.append(z3.BoolVal(a2._xy.x == 0.0 and a2._xy.y == 0.0))
            c.append(z3.BoolVal(len(nbrs.p) == len(ngb[i])))
            for (m2, b2), j in zip(nbrs.p, ngb[i]):
                c.append(bv(m2) == bv(nums[j]))
                c.append(bv(b2._order) == bonds[(i, j)]._order.z)
                c.append(z3.BoolVal(b2._stereo is None))
        # one shared bond object for both directions
        for (i, j) in shape['bonds']:
            bi = [b for (m, b), jj in zip(py_mol._bonds.p[i][1].p, ngb[i]) if jj == j]
            bj = [b for (m, b), ii in zip(py_mol._bonds.p[j][1].p, ngb[j]) if ii == i]
            c.append(z3.BoolVal(bool(bi) and bool(bj) and bi[0] is bj[0]))
        # cis/trans block in emission order
        exp_ct = []
        seen = set()
        for i in range(n):
            seen.add(i)
            for j in ngb[i]:
                if j not in seen and bonds[(i, j)]._stereo is not None:
                    c_ = next(x for x in shape['ct'] if {x[0], x[1]} == {i, j})
                    ti, tj = (c_[3], c_[4]) if len(c_) > 3 else (c_[0], c_[1])
                    exp_ct.append((nums[ti], nums[tj], c_[2]))
        c.append(z3.BoolVal(len(ct) == len(exp_ct)))
        for (cn, cm, cs), (en, em, es) in zip(ct, exp_ct):
            c += [bv(cn) == bv(en), bv(cm) == bv(em), z3.BoolVal(cs is es)]
        if check_bytes:
            common = p['common_isotopes']
            for i in range(n):
                rec = spec_record(nums[i], len(ngb[i]), atoms[i], common)
                c += [bv(out[4 + 9 * i + k]) == (rec[k] & 0xff) for k in range(9)]
        return z3.And(*c)
    def native(model):
        return replay_round_trip(shape, sym_numbers, model)
    return Case(f'W:unpack(pack(m))==m/{name}', fn, dom, ensures, (), native, (PK, 'pack'), tactic='QF_BV', timeout_ms=120000)


def replay_round_trip(shape, sym_numbers, model):
    """replay a counter-model: the same stub molecule with the model's concrete values through the de-cythonised pack/unpack in the
    concrete C runtime (no compiled extension exists in this sandbox)"""
    from cyx import inject
    gp, _, _ = inject.load(PK)
    gu, _, _ = inject.load(UP)
    n = shape['n']
    g = model.get
    dom = []
    mol, nums, atoms, ngb, bonds = build_shape(shape, dom, sym_numbers)

    def conc(v, name_hint=None):
        if isinstance(v, SymInt):
            return z3.simplify(z3.substitute(v.z, *[(z3.BitVec(k, W), z3.BitVecVal(val, W)) for k, val in model.items() if isinstance(val, int) and not isinstance(val, bool)])).as_signed_long() \
                if not z3.is_bv_value(z3.simplify(v.z)) else z3.simplify(v.z).as_signed_long()
        if isinstance(v, SymBool):
            r = z3.simplify(z3.substitute(v.z, *[(z3.Bool(k), z3.BoolVal(val)) for k, val in model.items() if isinstance(val, bool)]))
            return z3.is_true(r)
        return v
    cn = [conc(x) for x in nums]
    cat = [types.SimpleNamespace(atomic_number=conc(a.atomic_number), _isotope=conc(a._isotope), _stereo=a._stereo,
                                 _implicit_hydrogens=conc(a._implicit_hydrogens), _charge=conc(a._charge), _is_radical=conc(a._is_radical), x=0.0, y=0.0) for a in atoms]
    cb = {}
    for (i, j), b in bonds.items():
        if (j, i) in cb:
            cb[(i, j)] = cb[(j, i)]
        else:
            cb[(i, j)] = types.SimpleNamespace(_order=conc(b._order), _stereo=b._stereo)
    cmol = types.SimpleNamespace(_atoms={cn[i]: cat[i] for i in range(n)}, _bonds={cn[i]: {cn[j]: cb[(i, j)] for j in ngb[i]} for i in range(n)},
                                 _stereo_cis_trans_terminals={**{cn[c[0]]: (cn[c[3] if len(c) > 3 else c[0]], cn[c[4] if len(c) > 3 else c[1]]) for c in shape.get('ct', ())},
                                                              **{cn[c[1]]: (cn[c[3] if len(c) > 3 else c[0]], cn[c[4] if len(c) > 3 else c[1]]) for c in shape.get('ct', ())}},
                                 _cis_trans_count=len(shape.get('ct', ())))
    try:
        out = gp['pack'](cmol)
        u, ct, size = gu['unpack'](out)
        got = ([(k, a.atomic_number, a._isotope, a._stereo, a._implicit_hydrogens, a._charge, a._is_radical) for k, a in u._atoms.items()],
               [(k, [(m, b._order) for m, b in v.items()]) for k, v in u._bonds.items()], ct)
    except Exception as e:
        return dict(ok=False, got=repr(e), args=dict(numbers=cn))
    exp = ([(cn[i], a.atomic_number, a._isotope, a._stereo, a._implicit_hydrogens, a._charge, a._is_radical) for i, a in enumerate(cat)],
           [(cn[i], [(cn[j], cb[(i, j)]._order) for j in ngb[i]]) for i in range(n)], got[2])
    return dict(ok=got[:2] == exp[:2], got=repr(got[:2])[:600], expected=repr(exp[:2])[:600], bytes=out.hex(),
                note='replayed on the de-cythonised pack/unpack with concrete values')


def _attr_cycle(n, start=0):
    combos = list(itertools.product((None, 'sym'), (None, True, False), (None, 'sym')))
    return [combos[(start + 5 * i) % len(combos)] for i in range(n)]


def _shapes():
    out = []
    # one atom: every option combination, symbolic atom number, record bytes == published layout
    for iso, st, h in itertools.product((None, 'sym'), (None, True, False), (None, 'sym')):
        out.append((f'1atom[iso={iso},stereo={st},h={h}]', dict(n=1, bonds=[], attrs=[(iso, st, h)]), True, True))
    # two atoms, symbolic numbers: the 12-bit pair stream for all values
    # multi-atom shapes: attribute values concrete (varied), bond orders symbolic; atom numbers symbolic in the 2-atom shape
    C = dict(sym_attrs=False)
    out.append(('2atoms-symbolic-numbers', dict(n=2, bonds=[(0, 1)], attrs=[('sym', None, 'sym'), (None, None, None)], **C), True, True))
    out.append(('3ring', dict(n=3, bonds=[(0, 1), (1, 2), (0, 2)], attrs=_attr_cycle(3, 1), numbers=[7, 4095, 256], **C), False, True))
    out.append(('4chain-cis-trans', dict(n=4, bonds=[(0, 1), (1, 2), (2, 3)], attrs=_attr_cycle(4, 2), ct=[(1, 2, True)], numbers=[3, 1, 2, 9], **C), False, True))
    out.append(('4chain-cis-trans-false', dict(n=4, bonds=[(0, 1), (1, 2), (2, 3)], attrs=_attr_cycle(4, 3), ct=[(1, 2, False)], numbers=[30, 10, 20, 90], **C), False, True))
    out.append(('6chain-cumulene-cis-trans', dict(n=6, bonds=[(0, 1), (1, 2), (2, 3), (3, 4), (4, 5)], attrs=_attr_cycle(6, 1), ct=[(2, 3, True, 1, 4)],
                                                  numbers=[11, 12, 13, 14, 15, 16], **C), False, True))
    out.append(('allene-3chain', dict(n=3, bonds=[(0, 1), (1, 2)], attrs=[(None, None, 'sym'), (None, True, 'sym'), (None, None, 'sym')], numbers=[1, 2, 3], **C), False, True))
    out.append(('allene-3chain-false', dict(n=3, bonds=[(0, 1), (1, 2)], attrs=[(None, None, 'sym'), (None, False, 'sym'), (None, None, 'sym')], numbers=[1, 2, 3], **C), False, True))
    # stars / chains that put 1..9 (and 16, 17) bonds into the 3-bit order stream: every tail residue of the period-8 packer
    for nb in list(range(4, 10)) + [16, 17]:
        if nb <= 9:
            bonds_ = [(0, k) for k in range(1, nb + 1)]
        else:
            bonds_ = [(k, k + 1) for k in range(nb)]
        n = max(max(b) for b in bonds_) + 1
        out.append((f'order-stream[{nb} bonds]', dict(n=n, bonds=bonds_, attrs=[(None, None, None)] * n, **C), False, False))
    return out


# ---- L5 / L4 inductions on regions --------------------------------------------------------------------------------------------

def _pack_regions():
    if 'pr' not in _MODS:
        _, _ = mods()
        f = regions.find_function(_MODS['pt'], 'pack')
        atoms_loop = regions.locate(f, 'for[1]')
        ngb_loop = regions.locate(atoms_loop, 'for[0]')
        conn_if = regions.locate(ngb_loop, 'if[0]')           # if b: ... else: ...   (12-bit pair stream)
        seen_if = regions.locate(ngb_loop, 'if[1]')           # if not seen[m]: order stream + cis/trans
        order_stmts = [s for s in seen_if.body if not (isinstance(s, ast.Assign) and isinstance(s.targets[0], ast.Name) and s.targets[0].id == 'py_nan_int')
                       and not (isinstance(s, ast.If) and 'py_nan_int' in ast.unparse(s.test))]
        flush_if = [s for s in f.body if isinstance(s, ast.If) and ast.unparse(s.test) == 's'][0]
        fu = regions.find_function(_MODS['ut'], 'unpack')
        bonds_if = [s for s in fu.body if isinstance(s, ast.If) and ast.unparse(s.test) == 'bonds_count'][0]
        conn_loop = regions.locate(bonds_if, 'for[0]')
        v2_if = [s for s in bonds_if.body if isinstance(s, ast.If) and 'version' in ast.unparse(s.test)][0]
        order_loop = regions.locate(v2_if, 'for[0]')
        fn_p, fn_u = env.repo_path(PK), env.repo_path(UP)
        _MODS['pr'] = dict(
            conn_w=regions.compile_region([conn_if], fn_p, loopcut=False), order_w=regions.compile_region(order_stmts, fn_p, loopcut=False),
            flush_w=regions.compile_region([flush_if], fn_p, loopcut=False),
            conn_r=regions.compile_region(conn_loop.body, fn_u, loopcut=False), order_r=regions.compile_region(order_loop.body, fn_u, loopcut=False),
            texts=dict(conn_w=ast.unparse(conn_if), order_w='\n'.join(ast.unparse(s) for s in order_stmts), flush_w=ast.unparse(flush_if),
                       conn_r='\n'.join(ast.unparse(s) for s in conn_loop.body), order_r='\n'.join(ast.unparse(s) for s in order_loop.body)))
    return _MODS['pr']


def region_texts():
    return _pack_regions()['texts']


def _l5_case(count):
    """count == 8: period induction (boundary s=0 -> 8 values -> 3 bytes -> boundary s=0, values recovered);
    count in 1..7: tail of `count` values followed by the flush byte"""
    R = _pack_regions()
    p, u = mods()
    dom = []
    vals = [sym_int(f'b{k}', 0, 7, dom) for k in range(count)]
    garbage = sym_int('stale_buffer', 0, 255, dom)

    def fn():
        data = symrt.SArr('unsigned char', 16)
        g = dict(p)
        st = dict(s=0, buffer_o=garbage, order_shift=2, data=data)
        for k in range(count):
            bond_obj = types.SimpleNamespace(_order=vals[k] + 1, _stereo=None)
            ns = regions.run_region(R['order_w'], g, py_bond=bond_obj, **st)
            st = {key: ns[key] for key in ('s', 'buffer_o', 'order_shift')}
            st['data'] = data
        ns = regions.run_region(R['flush_w'], g, **st)
        nbytes = (3 * count + 7) // 8
        # decoder: reads bytes order_shift0 .. order_shift0 + nbytes - 1
        orders = symrt.SArr('unsigned char', count + 4)
        gu = dict(u)
        rs = dict(s=0, i=0, buffer_b=sym_int('stale_reader', 0, 255, dom) if False else 0, orders=orders, data=data)
        for j in range(2, 2 + nbytes):
            ns2 = regions.run_region(R['order_r'], gu, j=j, **rs)
            rs = {key: ns2[key] for key in ('s', 'i', 'buffer_b')}
            rs.update(orders=orders, data=data)
        return st['s'], st['order_shift'], [orders[k] for k in range(count)], rs['s'], rs['i']

    def ensures(val):
        ws, wshift, got, r_s, r_i = val
        c = [bv(g_) == v.z for g_, v in zip(got, vals)]
        c.append(bv(ws) == _c(count % 8))
        c.append(bv(wshift) == _c(2 + 3 * count // 8 if count % 8 == 0 else 2 + (3 * count) // 8))
        if count == 8:
            c += [bv(r_s) == _c(0), bv(r_i) == _c(8)]        # reader back at the boundary state having produced exactly 8 values
        else:
            c.append(bv(r_i) >= _c(count))                  # reader produced at least the tail values (padding cells allowed: +4 allocation)
            c.append(bv(r_i) <= _c(count + 2))
        return z3.And(*c)
    name = 'L5:order-stream/period-8-induction' if count == 8 else f'L5:order-stream/tail[{count}]+flush'
    return Case(name, fn, dom, ensures, (), None, (PK, 'pack/order-stream'), tactic='QF_BV')


def _l4_case():
    """connection table: from the boundary state b=True two 12-bit numbers are written as 3 bytes, read back by one iteration of the
    reader loop, and the writer is back at b=True"""
    R = _pack_regions()
    p, u = mods()
    dom = []
    m1, m2 = sym_int('m1', 0, 4095, dom), sym_int('m2', 0, 4095, dom)

    def fn():
        data = symrt.SArr('unsigned char', 8)
        st = dict(b=1, buffer_b=sym_int('stale', 0, 255, dom), bonds_shift=1, data=data)
        for m in (m1, m2):
            ns = regions.run_region(R['conn_w'], dict(p), m=m, **st)
            st = {k: ns[k] for k in ('b', 'buffer_b', 'bonds_shift')}
            st['data'] = data
        conn = symrt.SArr('unsigned short', 4)
        ns2 = regions.run_region(R['conn_r'], dict(u), i=0, bonds_shift=1, connections=conn, data=data, a=0, b=0, c=0)
        return st['b'], st['bonds_shift'], conn[0], conn[1], ns2['bonds_shift']
    return Case('L4:connection-table/period-2-induction', fn, dom,
                lambda v: z3.And(bv(v[0]) == _c(1), bv(v[1]) == _c(4), bv(v[2]) == m1.z, bv(v[3]) == m2.z, bv(v[4]) == _c(4)), (), None,
                (PK, 'pack/connection-table'), tactic='QF_BV')


# ---- L6 section arithmetic in the declared C types ------------------------------------------------------------------------------

def _assign_span(fnode, name, stop_at=None):
    """top-level statements from the first to the last assignment of `name` (mechanical region: 'calculate pack blocks entries')"""
    idx = [i for i, s in enumerate(fnode.body) if isinstance(s, (ast.Assign, ast.If)) and name in
           [t.id for n_ in ast.walk(s) if isinstance(n_, ast.Assign) for t in n_.targets if isinstance(t, ast.Name)]]
    return fnode.body[idx[0]: idx[-1] + 1]


def _l6_cases():
    p, u = mods()
    fp = regions.find_function(_MODS['pt'], 'pack')
    fu = regions.find_function(_MODS['ut'], 'unpack')
    span_p = _assign_span(fp, 'size')
    # unpack: from `bonds_count = _wrap(.., _cdiv(bonds_count, 2))` to the last assignment of size
    idx0 = [i for i, s in enumerate(fu.body) if isinstance(s, ast.Assign) and isinstance(s.targets[0], ast.Name) and s.targets[0].id == 'bonds_count'
            and '_cdiv' in ast.unparse(s)][0]
    idx1 = [i for i, s in enumerate(fu.body) if isinstance(s, ast.Assign) and isinstance(s.targets[0], ast.Name) and s.targets[0].id == 'size'][-1]
    span_u = fu.body[idx0: idx1 + 1]
    code_p = regions.compile_region(span_p, env.repo_path(PK), loopcut=False)
    code_u = regions.compile_region(span_u, env.repo_path(UP), loopcut=False)
    _MODS['l6_texts'] = dict(pack='\n'.join(ast.unparse(s) for s in span_p), unpack='\n'.join(ast.unparse(s) for s in span_u))
    out = []
    for which, bmax in (('documented-limit-21845-bonds', 21845), ('format-limit-30712-bonds', 30712)):
      for r8 in range(8):          # bonds = 8k + r8: the low three bits are concrete, which keeps every query linear for the solver
        dom = []
        na = sym_int('atoms', 1, 4095, dom, bits=12)
        k8 = sym_int('bonds_div_8', 0, (bmax - r8) // 8, dom, bits=12)
        nb = SymInt(k8.z * 8 + r8)
        nct = sym_int('ct', 0, 4095, dom, bits=12)

        def fn(na=na, nb=nb, nct=nct):
            nsp = regions.run_region(code_p, dict(p), atoms_count=na, bonds_count=nb, cis_trans_count=nct, size=0, atoms_shift=4)
            nsu = regions.run_region(code_u, dict(u), bonds_count=symrt.s_wrap('unsigned short', nb * 2), atoms_shift=4 + 9 * na,
                                     cis_trans_count=nct, version=2, order_count=0)
            return nsp, nsu

        def ensures(val, na=na, nb=nb, nct=nct):
            nsp, nsu = val
            ob = z3.LShR(3 * nb.z + 7, 3)
            bs = 4 + 9 * na.z
            os_ = bs + 3 * nb.z
            cs = os_ + ob
            sz = cs + 4 * nct.z
            return z3.And(bv(nsp['bonds_shift']) == bs, bv(nsp['order_shift']) == os_, bv(nsp['cis_trans_shift']) == cs, bv(nsp['size']) == sz,
                          bv(nsu['bonds_shift']) == bs, bv(nsu['order_shift']) == os_, bv(nsu['cis_trans_shift']) == cs, bv(nsu['size']) == sz)

        def native(model, r8=r8):
            return replay_sections(model.get('atoms', 1), 8 * model.get('bonds_div_8', 0) + r8, model.get('ct', 0))
        out.append(Case(f'L6:section-offsets-in-C-types/{which}[bonds%8={r8}]', fn, dom, ensures, (), native, (UP, 'unpack/section arithmetic'), tactic='cvc5', timeout_ms=120000))
    return out


def replay_sections(na, nb, nct):
    """replay a counter-model of L6 on the translated code with concrete values (the compiled extension cannot be built here)"""
    from cyx import inject
    gp, tp, _ = inject.load(PK)
    gu, tu, _ = inject.load(UP)
    fp = regions.find_function(tp, 'pack')
    fu = regions.find_function(tu, 'unpack')
    span_p = _assign_span(fp, 'size')
    idx0 = [i for i, s in enumerate(fu.body) if isinstance(s, ast.Assign) and isinstance(s.targets[0], ast.Name) and s.targets[0].id == 'bonds_count'
            and '_cdiv' in ast.unparse(s)][0]
    idx1 = [i for i, s in enumerate(fu.body) if isinstance(s, ast.Assign) and isinstance(s.targets[0], ast.Name) and s.targets[0].id == 'size'][-1]
    nsp = regions.run_region(regions.compile_region(span_p, 'pack', loopcut=False), gp, atoms_count=na, bonds_count=nb, cis_trans_count=nct, size=0, atoms_shift=4)
    nsu = regions.run_region(regions.compile_region(fu.body[idx0: idx1 + 1], 'unpack', loopcut=False), gu, bonds_count=(2 * nb) & 0xffff,
                             atoms_shift=4 + 9 * na, cis_trans_count=nct, version=2, order_count=0)
    exp = 4 + 9 * na + 3 * nb + (3 * nb + 7) // 8 + 4 * nct
    return dict(ok=nsp['size'] == exp == nsu['size'], pack_size=nsp['size'], unpack_size=nsu['size'], published_formula=exp,
                args=dict(atoms=na, bonds=nb, cis_trans=nct), note='replayed on the de-cythonised code; no compiled binary exists in this sandbox')


# ---- reaction framing --------------------------------------------------------------------------------------------------------

class SymSeq:
    """sequence of known symbolic length; slicing returns normalised (lo, hi) bounds with Python's slice semantics"""

    def __init__(self, n):
        self.n = n

    def append(self, x):
        pass            # the length is fixed by the contract's assumption on the loop (see _framing_cases)

    def __getitem__(self, s):
        if not isinstance(s, slice) or s.step is not None:
            raise TypeError('SymSeq supports plain slices only')
        n = self.n.z

        def norm(v, default):
            if v is None:
                return default
            z = bv(v)
            z = z3.If(z < 0, z + n, z)
            return z3.If(z < 0, _c(0), z3.If(z > n, n, z))
        lo, hi = norm(s.start, _c(0)), norm(s.stop, n)
        return (lo, z3.If(hi < lo, lo, hi))


def _framing_cases():
    import chython.containers.reaction as rx
    src = env.read(RX)
    tree = ast.parse(src)
    out = []
    for fname, order in (('unpack', 'cls'), ('pack_len', 'tuple')):
        f = regions.find_function(tree, f'ReactionContainer.{fname}')
        # the tail of the function: every top-level statement after the loop that reads the molecules (locals introduced there included)
        fors = [i for i, s_ in enumerate(f.body) if isinstance(s_, ast.For)]
        if not fors or not isinstance(f.body[-1], ast.Return):
            raise Unanchored(f'ReactionContainer.{fname}: molecule loop followed by a return not found')
        tail = [copy.deepcopy(s_) for s_ in f.body[fors[-1] + 1:]]
        fd = ast.FunctionDef(name='_tail', args=ast.arguments(posonlyargs=[], args=[ast.arg(a_) for a_ in ('molecules', 'reactants', 'reagents', 'products', 'cls', 'data', 'shift')],
                                                              kwonlyargs=[], kw_defaults=[], defaults=[]), body=tail, decorator_list=[], type_params=[])
        m_ = ast.Module([fd], [])
        ast.fix_missing_locations(m_)
        g_ = dict(vars(rx))
        exec(compile(m_, env.repo_path(RX), 'exec'), g_)
        tail_fn = g_['_tail']
        dom = []
        r, g, pp = (sym_int(k, 0, 255, dom) for k in ('reactants', 'reagents', 'products'))
        total = SymInt(r.z + g.z + pp.z)

        def fn(tail_fn=tail_fn, r=r, g=g, pp=pp, total=total):
            # molecules: a sequence of exactly reactants + reagents + products items (what the loop, and pack_len's final append, produce)
            return tail_fn(SymSeq(total), r, g, pp, (lambda a, b, c: (a, c, b)), bytes(8), 0)

        def ensures(val, r=r, g=g, pp=pp):
            (rl, rh), (gl, gh), (pl, ph) = val        # normalised to (reactants, reagents, products) order
            return z3.And(rl == 0, rh == r.z, gl == r.z, gh == r.z + g.z, pl == r.z + g.z, ph == r.z + g.z + pp.z)
        out.append(Case(f'F:ReactionContainer.{fname}/role-slices-for-all-counts', fn, dom, ensures, (), None, (RX, f'ReactionContainer.{fname}'), tactic='QF_BV'))
    return out


def _canaries():
    shape = dict(n=1, bonds=[], attrs=[('sym', None, 'sym')])
    c = _round_trip_case('CANARY-isotope-offset-domain-lifted', shape, True, True)
    # lift the isotope-offset domain (1..31 -> 1..40): the 5-bit field overflows, the round trip must be refuted
    dom = []
    mol, nums, atoms, ngb, bonds = build_shape(shape, dom, True)
    p, u = mods()
    off = atoms[0]._isotope.z - bv(p['common_isotopes'][atoms[0].atomic_number])
    dom2 = [d for d in dom if 'iso0' not in str(d)] + [atoms[0]._isotope.z >= 1, off >= 1, off <= 40]

    def fn():
        out = p['pack'](mol)
        py_mol, ct, size = u['unpack'](out)
        return py_mol._atoms.p[0][1]._isotope
    return [Case('W:CANARY-isotope-offset-up-to-40-must-fail', fn, dom2,
                 lambda v: (bv(v) == atoms[0]._isotope.z) if v is not None else z3.BoolVal(False), (), None, (PK, 'pack'), expect_fail=True, tactic='QF_BV')]


_CACHE = None


def cases():
    global _CACHE
    if _CACHE is not None:
        return _CACHE
    cs = []
    for name, shape, symn, chk in _shapes():
        cs.append(_round_trip_case(name, shape, symn, chk))
    cs.append(_l4_case())
    for k in (8, 1, 2, 3, 4, 5, 6, 7):
        cs.append(_l5_case(k))
    cs += _l6_cases()
    cs += _framing_cases()
    cs += _canaries()
    _CACHE = cs
    return cs
