"""Engine T lemmas for C02, C04, C11, C15, C20: finite tables read from the current tree, enumerated completely."""
import itertools

from vlib import env
import tables
from checks.common import t_oblig


def C02(run):
    """writer tables and reader tables are mutually inverse; closure numbers 1..99 tokenise to the single closure token"""
    import chython.algorithms.smiles as sw
    import chython.files.daylight.tokenize as tk
    run.under_contract('chython/algorithms/smiles.py', 'charge_str, order_str, organic_set, _format_closure', repr((sw.charge_str, sw.order_str, sorted(sw.organic_set))))
    run.under_contract('chython/files/daylight/tokenize.py', 'charge_dict, replace_dict, atom_re', repr((tk.charge_dict, tk.replace_dict, tk.atom_re.pattern)))
    for c in range(-4, 5):
        if c == 0:
            continue
        s = sw.charge_str[c]
        t_oblig(run, f'charge_dict[charge_str[{c}]]=={c}', tk.charge_dict.get(s) == c and tk.atom_re.fullmatch('C' + s) is not None, key=f'charge-table:{c}',
                what=f'writer spells charge {c} as {s!r}, reader maps it to {tk.charge_dict.get(s)}')
        try:
            tok = tk._atom_parse('Fe' + s)
            ok = tok[1].get('charge') == c
        except Exception:
            ok = False
        t_oblig(run, f'_atom_parse(Fe{s}).charge=={c}', ok, key=f'charge-parse:{c}')
    for o in (1, 2, 3, 4, 8):
        t_oblig(run, f'replace_dict[order_str[{o}]]=={o}', tk.replace_dict.get(sw.order_str[o]) == o, key=f'order-table:{o}')
    for c in range(1, 100):
        text = sw.Smiles._format_closure(c)
        try:
            toks = tk._tokenize('C' + text)
            ok = toks == [(0, 'C'), (6, c)]
        except Exception:
            ok, toks = False, None
        t_oblig(run, f'_tokenize(_format_closure({c}))==closure {c}', ok, key=f'closure:{c}', what=f'ring closure number {c} is written as {text!r} and read as {toks}')
    from chython.periodictable import Element
    for cls in Element.__subclasses__():
        sym = cls.__name__
        if sym.startswith('Sym'):
            continue
        m = tk.atom_re.fullmatch(sym)
        ok = m is not None and m.group(2) == sym
        t_oblig(run, f'atom_re accepts [{sym}]', ok, key=f'atom_re:{sym}')
    for sym in sorted(sw.organic_set):
        try:
            toks = tk._tokenize(sym)
            ok = toks == [(0, sym)]
        except Exception:
            ok = False
        t_oblig(run, f'organic_set symbol {sym} is a bare atom token', ok, key=f'organic:{sym}')


def C11(run):
    import chython.files.mdl.mol as rd
    import chython.files.mdl.write as wr
    run.under_contract('chython/files/mdl/mol.py', '_charge_map', repr(rd._charge_map))
    run.under_contract('chython/files/mdl/write.py', 'charge_map', repr(wr.charge_map))
    for c in range(-3, 4):
        t_oblig(run, f'mol._charge_map[write.charge_map[{c}]]=={c}', rd._charge_map.get(wr.charge_map[c]) == c, key=f'mdl-charge:{c}',
                what=f'V2000 writer code {wr.charge_map[c]!r} for charge {c} is read as {rd._charge_map.get(wr.charge_map[c])}')
    for c in (-4, 4):
        t_oblig(run, f'write.charge_map[{c}] is the neutral code (charge goes to M  CHG)', wr.charge_map[c] == '  0', key=f'mdl-charge:{c}')
    t_oblig(run, 'V2000 reader charge codes are distinct fixed-width fields', all(len(k) == 3 for k in rd._charge_map))


def C15(run):
    import chython.algorithms.smiles as sw
    run.under_contract('chython/algorithms/smiles.py', 'dyn_order_str, dyn_charge_str, dyn_radical_str', repr((sw.dyn_order_str, sw.dyn_radical_str)))
    static = {v for k, v in sw.order_str.items()} | {''}
    vals = list(sw.dyn_order_str.values())
    t_oblig(run, 'dyn_order_str is injective', len(set(vals)) == len(vals), key='dyn-order-injective')
    for (o, p), v in sw.dyn_order_str.items():
        if o != p:
            t_oblig(run, f'dyn_order_str[{o},{p}] is a dynamic token distinct from every static bond token', v not in static and v.startswith('[') and '>' in v,
                    key=f'dyn-order:{o}:{p}')
        else:
            t_oblig(run, f'dyn_order_str[{o},{o}] is the static token', v == ('' if o == 1 else sw.order_str[o]), key=f'dyn-order:{o}:{p}')
    cvals = list(sw.dyn_charge_str.values())
    t_oblig(run, 'dyn_charge_str is injective', len(set(cvals)) == len(cvals), key='dyn-charge-injective')
    for (i, j), v in sw.dyn_charge_str.items():
        t_oblig(run, f'dyn_charge_str[{i},{j}] marks a change iff the charges differ', ('>' in v) == (i != j), key=f'dyn-charge:{i}:{j}')
    rvals = list(sw.dyn_radical_str.values())
    t_oblig(run, 'dyn_radical_str is injective with distinct tokens', len(set(rvals)) == len(rvals) == 3, key='dyn-radical-injective')


def C20(run):
    import chython.utils.rdkit as rk
    from rdkit.Chem import BondType
    run.under_contract('chython/utils/rdkit.py', '_bond_map, _rdkit_bond_map', repr((sorted((k, str(v)) for k, v in rk._bond_map.items()),
                                                                                   sorted((str(k), v) for k, v in rk._rdkit_bond_map.items()))))
    for o in (1, 2, 3, 4, 8):
        bt = rk._bond_map.get(o)
        t_oblig(run, f'_rdkit_bond_map[_bond_map[{o}]]=={o}', bt is not None and rk._rdkit_bond_map.get(bt) == o, key=f'rdkit-bond-map:{o}',
                what=f'bond order {o} is written as {bt} and read back as {rk._rdkit_bond_map.get(bt)}')
    exp = {1: BondType.SINGLE, 2: BondType.DOUBLE, 3: BondType.TRIPLE, 4: BondType.AROMATIC, 8: BondType.DATIVE}
    for o, bt in exp.items():
        t_oblig(run, f'_bond_map[{o}] is {bt}', rk._bond_map.get(o) == bt, key=f'rdkit-bond-type:{o}')
    t_oblig(run, 'chirality and double-bond tags are pairwise distinct', rk._chiral_cw != rk._chiral_ccw and rk._cis != rk._trans, key='rdkit-tags-distinct')


def C04(run):
    """rule compilation lemma: for every element class the compiled lookup table is exactly what the raw tables say (independent re-derivation)"""
    from collections import defaultdict
    from chython.periodictable import Element
    nums = {c.__name__: c.atomic_number.fget(None) for c in Element.__subclasses__() if not c.__name__.startswith('Sym')}
    for cls in sorted(Element.__subclasses__(), key=lambda c: c.__name__):
        if cls.__name__.startswith('Sym'):
            continue
        a = cls()
        spec = defaultdict(list)
        cv = a._common_valences
        if cv[0] and a.atomic_number != 1:
            for h in range(cv[0] + 1):
                spec[(0, False, cv[0] - h)].append((frozenset(), (), h))
            for v in cv[1:]:
                spec[(0, False, v)].append((frozenset(), (), 0))
        else:
            for v in cv:
                spec[(0, False, v)].append((frozenset(), (), 0))
        for charge, rad, implicit, envr in a._valences_exceptions:
            ex = sum(x for x, _ in envr)
            d = defaultdict(int)
            for b, e in envr:
                d[(b, nums[e])] += 1
            s, dd = frozenset(d), tuple(sorted(d.items()))
            if implicit:
                for h in range(implicit + 1):
                    spec[(charge, rad, ex + implicit - h)].append((s, dd, h))
            else:
                spec[(charge, rad, ex)].append((s, dd, 0))
        got = {k: [(frozenset(s), tuple(sorted(dict(d).items())), h) for s, d, h in v] for k, v in a._compiled_valence_rules.items()}
        ok = got == dict(spec)
        t_oblig(run, f'_compiled_valence_rules[{cls.__name__}]==re-derivation from _common_valences/_valences_exceptions', ok, key=f'valence-rules:{cls.__name__}',
                what=f'{cls.__name__}: compiled valence rules differ from the raw tables for keys '
                     f'{sorted(k for k in set(got) | set(spec) if got.get(k) != spec.get(k))[:4]}')
