"""C06 / C01 contracts (shape-bounded, symbolic members):
 * _canonic_ring(ring): the canonical form is the same for every rotation and reflection of the ring, is itself a rotation/reflection of
   it and starts with the smallest atom number  (ring length 3..7, pairwise distinct symbolic atom numbers);
 * one refinement step of _morgan: the value hashed for an atom does not depend on the enumeration order of its neighbours
   (degree <= 3, symbolic class values and bond codes, `hash` rebound to a recorder so the hashed tuple itself is compared)."""
import ast
import itertools

import z3

from vlib import env
from pysym import SymInt, sym_int, bv, zbool
from pysym.harness import Case
from pysym import regions

RFILE = 'chython/algorithms/rings.py'
MFILE = 'chython/algorithms/morgan.py'


def _seq_eq(a, b):
    if len(a) != len(b):
        return z3.BoolVal(False)
    return z3.And(*[bv(x) == bv(y) for x, y in zip(a, b)])


def _symmetries(n):
    idx = list(range(n))
    out = []
    for k in range(n):
        rot = idx[k:] + idx[:k]
        out.append(rot)
        out.append(rot[::-1])
    return out


def _ring_cases():
    import chython.algorithms.rings as rg
    out = []
    for n in range(3, 7):
        dom = []
        ring = [sym_int(f'r{i}', 1, 4095, dom) for i in range(n)]
        dom.append(z3.Distinct(*[x.z for x in ring]))
        syms = _symmetries(n)
        for k, perm in enumerate(syms[1:], 1):
            other = tuple(ring[i] for i in perm)

            def fn(other=other, ring=ring):
                return tuple(rg._canonic_ring(tuple(ring))), tuple(rg._canonic_ring(other))
            def native(model, n=n, perm=perm):
                vals = tuple(model.get(f'r{i}', i + 1) for i in range(n))
                a, b = rg._canonic_ring(vals), rg._canonic_ring(tuple(vals[i] for i in perm))
                return dict(ok=a == b, ring=vals, canonical=a, same_ring_other_start=tuple(vals[i] for i in perm), canonical_of_that=b)
            out.append(Case(f'_canonic_ring/invariant-under-symmetry[len={n},sym={k}]', fn, dom, lambda v: _seq_eq(v[0], v[1]), (), native, (RFILE, '_canonic_ring'),
                            tier='quick' if n <= 4 else 'thorough'))

        def fn0(ring=ring):
            return tuple(rg._canonic_ring(tuple(ring)))

        def ens0(v, n=n, syms=syms, ring=ring):
            is_sym = z3.Or(*[z3.And(*[bv(v[i]) == ring[p[i]].z for i in range(n)]) for p in syms]) if len(v) == n else z3.BoolVal(False)
            first_min = z3.And(*[bv(v[0]) <= x.z for x in ring]) if len(v) == n else z3.BoolVal(False)
            return z3.And(is_sym, first_min)
        out.append(Case(f'_canonic_ring/is-a-rotation-or-reflection-starting-at-min[len={n}]', fn0, dom, ens0, (), None, (RFILE, '_canonic_ring'),
                        tier='quick' if n <= 4 else 'thorough'))
    return out


class _Rec:
    """stands for builtin hash inside _morgan: records every argument, answers with the call index (all distinct: the loop stops after round one)"""
    def __init__(self):
        self.calls = []

    def __call__(self, t):
        self.calls.append(t)
        return len(self.calls)


def _opaque(x):
    """symbolic invariant whose __hash__ is its identity: `len(set(atoms.values()))` before the first round must not concretise it.
    Comparisons (sorted) stay symbolic.  Only the hashed tuples of round one are observed."""
    from pysym.core import SymInt

    class W(SymInt):
        __slots__ = ()

        def __hash__(s):
            return id(s) >> 4
    return W(x.z)


def _morgan_cases():
    """the whole REAL function _morgan runs (code object of the current source, `hash` bound to a recorder): the tuple hashed for an atom in
    round one is the same for every enumeration order of its neighbour dict.  No statement of the body is addressed, so edits inside the
    function that keep the behaviour keep the obligation."""
    import types
    import chython.algorithms.morgan as mg
    out = []
    for k in range(1, 4):
        dom = []
        w0 = sym_int('w0', -(1 << 62), 1 << 62, dom)
        ws = [sym_int(f'w{i + 1}', -(1 << 62), 1 << 62, dom) for i in range(k)]
        bs = [sym_int(f'b{i + 1}', 1, 8, dom) for i in range(k)]
        for perm in list(itertools.permutations(range(k)))[1:] or [tuple(range(k))]:
            def fn(perm=perm, k=k, w0=w0, ws=ws, bs=bs):
                res = []
                for order in (tuple(range(k)), perm):
                    rec = _Rec()
                    f = types.FunctionType(mg._morgan.__code__, {**vars(mg), 'hash': rec}, '_morgan', mg._morgan.__defaults__, mg._morgan.__closure__)
                    c = _opaque(w0)
                    atoms = {0: c, **{i + 1: _opaque(ws[i]) for i in range(k)}}
                    bonds = {0: {i + 1: bs[i] for i in order}, **{i + 1: {0: bs[i]} for i in range(k)}}   # neighbour dict of atom 0 in the given order
                    f(atoms, bonds)
                    mine = [t for t in rec.calls if isinstance(t, tuple) and t and t[0] is c]
                    if len(mine) != 1:
                        raise AssertionError(f'expected exactly one hashed tuple led by the invariant of atom 0 in round one, found {len(mine)}')
                    res.append(tuple(mine[0]))
                return res
            def native(model, perm=perm, k=k):
                # the counter-model on the real function (builtin hash observed, not replaced by a symbolic stand-in): hashed tuples of atom 0
                import types
                tuples, results = [], []
                for order in (tuple(range(k)), perm):
                    seen = []

                    def obs(t, seen=seen):
                        seen.append(t)
                        return hash(t)
                    f = types.FunctionType(mg._morgan.__code__, {**vars(mg), 'hash': obs}, '_morgan', mg._morgan.__defaults__, mg._morgan.__closure__)
                    w = [model.get(f'w{i}', 0) for i in range(k + 1)]
                    b = [model.get(f'b{i + 1}', 1) for i in range(k)]
                    atoms = {i: w[i] for i in range(k + 1)}
                    bonds = {0: {i + 1: b[i] for i in order}, **{i + 1: {0: b[i]} for i in range(k)}}
                    results.append(f(atoms, bonds))
                    tuples.append(seen[0] if seen else None)
                return dict(ok=tuples[0] == tuples[1], atom_invariants=w, bond_invariants=b, neighbour_orders=[list(range(k)), list(perm)],
                            hashed_tuple_of_atom_0=tuples, morgan_result=results)
            out.append(Case(f'_morgan/refinement-step-independent-of-neighbour-order[degree={k},perm={perm}]', fn, dom,
                            lambda v: _seq_eq(v[0], v[1]), (), native, (MFILE, '_morgan')))
    return out


def cases():
    out = _ring_cases() + _morgan_cases()
    c = out[-1]
    good = c.ensures
    out.append(Case(c.name + '/CANARY-negated', c.fn, c.requires, lambda v: z3.Not(good(v)), (), None, c.target, expect_fail=True))
    return out
