"""C17 contract on the folding loops of linear_bit_set / morgan_bit_set (regions: the body of `for tpl in ...`): for every hash value
(signed 64 bit), every length 2^j (j = 1..20) and number_active_bits 1..8 the indices added are exactly the `number_active_bits`
lowest j-bit windows of the hash, each in [0, length)."""
import ast

import z3

from vlib import env
from pysym import SymInt, sym_int, bv, W
from pysym.harness import Case
from pysym import regions

FILES = {'linear': ('chython/algorithms/fingerprints/linear.py', 'LinearFingerprint.linear_bit_set'),
         'morgan': ('chython/algorithms/fingerprints/morgan.py', 'MorganFingerprint.morgan_bit_set')}


class Recorder:
    def __init__(self):
        self.items = []

    def add(self, x):
        self.items.append(x)


def _body(kind):
    rel, qual = FILES[kind]
    tree = ast.parse(env.read(rel))
    f = regions.find_function(tree, qual)
    loop = regions.locate(f, 'for[0]')
    return regions.compile_region(loop.body, env.repo_path(rel), loopcut=False), ast.unparse(f)


def cases():
    out = []
    for kind in ('linear', 'morgan'):
        code, text = _body(kind)
        for j in (1, 2, 5, 10, 11, 16, 20):
            for nab in range(1, 9):
                dom = []
                tpl = sym_int('tpl', -(1 << 63), (1 << 63) - 1, dom)
                length = 1 << j

                def fn(code=code, j=j, nab=nab, length=length, tpl=tpl):
                    rec = Recorder()
                    regions.run_region(code, {}, tpl=tpl, mask=length - 1, log=j, number_active_bits=nab, active_bits=rec, range=range)
                    return rec.items

                def ensures(items, j=j, nab=nab, length=length, tpl=tpl):
                    if len(items) != nab:
                        return z3.BoolVal(False)
                    c = []
                    for i, x in enumerate(items):
                        want = (tpl.z >> (i * j)) & (length - 1)
                        c += [bv(x) == want, bv(x) >= 0, bv(x) < length]
                    return z3.And(*c)
                out.append(Case(f'{kind}_bit_set/fold[length=2^{j},active_bits={nab}]', fn, dom, ensures, (), None, FILES[kind], tactic='QF_BV'))
    c = out[0]
    good = c.ensures
    out.append(Case(c.name + '/CANARY-negated', c.fn, c.requires, lambda v: z3.Not(good(v)), (), None, c.target, expect_fail=True))
    return out


def texts():
    return {k: _body(k)[1] for k in FILES}
