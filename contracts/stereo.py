"""Contracts on chython/algorithms/stereo.py (C12; reused by C02 and C20).

Postconditions are taken from the property statement: the reported configuration changes exactly when the neighbour ordering is an
odd permutation (tetrahedra) or a substituent at exactly one end is exchanged (double bonds, allenes), wherever a hydrogen stands.
Atom numbers are SYMBOLIC (pairwise distinct), so one run covers every numbering; the shapes (3 or 4 substituents, hydrogen
slots) are enumerated.
"""
import itertools
import types

import z3

from pysym import SymBool, SymInt, SymReal, sym_int, sym_bool, sym_real, zbool, bv, W
from pysym.harness import Case

FILE = 'chython/algorithms/stereo.py'


def _mod():
    import chython.algorithms.stereo as st
    return st


class AtomStub:
    """molecule atom as seen by the sign translators: only `== H` and `.stereo` may be used (anything else is a frame violation)"""
    __slots__ = ('_h', 'stereo')

    def __init__(self, is_h, stereo=None):
        self._h = is_h
        self.stereo = stereo

    def __eq__(self, o):
        if isinstance(o, int) and not isinstance(o, bool) and o == 1:
            return self._h if isinstance(self._h, (bool, SymBool)) else SymBool(self._h)
        raise AssertionError(f'frame violation: atom compared with {o!r}')

    def __ne__(self, o):
        r = self.__eq__(o)
        return SymBool(z3.Not(r.z)) if isinstance(r, SymBool) else not r

    __hash__ = None


class AtomsStub:
    def __init__(self, is_h, stereo=None):
        self.is_h, self.st = is_h, stereo or {}

    def __getitem__(self, x):
        if isinstance(x, int) and x in self.st:
            return AtomStub(self.is_h(x), self.st[x])
        return AtomStub(self.is_h(x))


def _ids(names, dom, lo=1, hi=4095):
    xs = [sym_int(n, lo, hi, dom) for n in names]
    dom.append(z3.Distinct(*[x.z for x in xs]) if len(xs) > 1 else z3.BoolVal(True))
    return xs


def _perm_constraint(env, order):
    """env is a permutation of order"""
    c = [z3.Or(*[e.z == o.z for o in order]) for e in env]
    if len(env) > 1:
        c.append(z3.Distinct(*[e.z for e in env]))
    return c


def _index_of(e, order):
    r = z3.IntVal(len(order) - 1)
    for i in range(len(order) - 2, -1, -1):
        r = z3.If(e.z == order[i].z, z3.IntVal(i), r)
    return r


def _parity(env, order):
    """odd permutation? (inversion count mod 2) - independent of the library's table"""
    p = [_index_of(e, order) for e in env]
    inv = [p[i] > p[j] for i in range(len(p)) for j in range(i + 1, len(p))]
    r = z3.BoolVal(False)
    for x in inv:
        r = z3.Xor(r, x)
    return r


def _py_parity(env, order):
    p = [order.index(x) for x in env]
    return sum(1 for i in range(len(p)) for j in range(i + 1, len(p)) if p[i] > p[j]) % 2 == 1


# ---- tetrahedron ------------------------------------------------------------------------------------------------------

def _tetra_case(n_order, n_env, with_h, twice=False):
    """n_order stereogenic neighbours (3|4); env of n_env atoms; with_h: env contains the explicit hydrogen (order 3, env 4)"""
    st = _mod()
    dom = []
    order = _ids([f'o{i}' for i in range(n_order)] + (['h'] if with_h else []), dom)
    hid = order[-1] if with_h else None
    full = list(order)                               # reference order: hydrogen always last
    if n_order == 3 and not with_h:
        full_ref = order                              # implicit H is the (absent) last element: parity of 3 elements
    env = [sym_int(f'e{i}', 1, 4095, dom) for i in range(n_env)]
    src = full if n_env == len(full) else full
    if n_env == len(full):
        dom += _perm_constraint(env, full)
    else:                                             # env lists 3 of the 4 neighbours: the 4th is implied
        dom += [z3.Or(*[e.z == o.z for o in full]) for e in env] + [z3.Distinct(*[e.z for e in env])]
    s = sym_bool('s')

    def is_h(x):
        if hid is None:
            return False
        return SymBool(bv(x) == hid.z) if isinstance(x, (SymInt, int)) else False

    def fn():
        stub = types.SimpleNamespace(stereogenic_tetrahedrons={1: tuple(order[:n_order])}, _atoms=AtomsStub(is_h))
        r = st.MoleculeStereo._translate_tetrahedron_sign(stub, 1, tuple(env), s)
        if twice:
            r = st.MoleculeStereo._translate_tetrahedron_sign(stub, 1, tuple(env), r)
        return r

    def spec():
        if n_env == len(full):
            return _parity(env, full)
        # 3 of 4 given: append the missing one
        missing_idx = z3.IntVal(0)
        # parity of (e0,e1,e2,missing): compute with explicit indices
        p = [_index_of(e, full) for e in env]
        miss = z3.IntVal(6) - p[0] - p[1] - p[2]
        q = p + [miss]
        r = z3.BoolVal(False)
        for i in range(4):
            for j in range(i + 1, 4):
                r = z3.Xor(r, q[i] > q[j])
        return r

    def ensures(val):
        return zbool(val) == (s.z if twice else z3.Xor(s.z, spec()))

    def native(model):
        o = [model.get(f'o{i}', 0) for i in range(n_order)] + ([model.get('h', 0)] if with_h else [])
        e = [model.get(f'e{i}', 0) for i in range(n_env)]
        sv = bool(model.get('s', False))
        stub = types.SimpleNamespace(stereogenic_tetrahedrons={1: tuple(o[:n_order])},
                                     _atoms=AtomsStub(lambda x: with_h and x == o[-1]))
        try:
            got = st.MoleculeStereo._translate_tetrahedron_sign(stub, 1, tuple(e), sv)
            if twice:
                got = st.MoleculeStereo._translate_tetrahedron_sign(stub, 1, tuple(e), got)
        except Exception as ex:
            return dict(ok=False, got=repr(ex), args=dict(order=o, env=e, s=sv))
        ee = e if len(e) == len(o) else e + [x for x in o if x not in e]
        exp = sv if twice else sv ^ _py_parity(ee, o)
        return dict(ok=got == exp, got=got, expected=exp, args=dict(order=o, env=e, s=sv))
    tag = f'tetrahedron[{n_order}{"+H" if with_h else ""},env{n_env}]' + ('-involution' if twice else '')
    return Case(f'translate_tetrahedron_sign/{tag}', fn, dom, ensures, (), native,
                (FILE, 'MoleculeStereo._translate_tetrahedron_sign'))


def _tetra_error_cases():
    st = _mod()
    out = []
    for n_order, n_env in [(3, 2), (3, 5), (4, 2), (4, 5), (3, 0)]:
        def fn(n_order=n_order, n_env=n_env):
            stub = types.SimpleNamespace(stereogenic_tetrahedrons={1: tuple(range(10, 10 + n_order))}, _atoms=AtomsStub(lambda x: False))
            return st.MoleculeStereo._translate_tetrahedron_sign(stub, 1, tuple(range(10, 10 + n_env)), True)
        out.append(Case(f'translate_tetrahedron_sign/wrong-length[{n_order},{n_env}]-raises-ValueError', fn, (),
                        lambda v: z3.BoolVal(False), (ValueError,), None, (FILE, 'MoleculeStereo._translate_tetrahedron_sign')))

    def fn_none():
        stub = types.SimpleNamespace(stereogenic_tetrahedrons={1: (10, 11, 12)}, _atoms=AtomsStub(lambda x: False, {1: None}))
        return st.MoleculeStereo._translate_tetrahedron_sign(stub, 1, (10, 11, 12))
    out.append(Case('translate_tetrahedron_sign/stored-None-raises-KeyError', fn_none, (), lambda v: z3.BoolVal(False), (KeyError,),
                    None, (FILE, 'MoleculeStereo._translate_tetrahedron_sign')))

    def fn_noh():     # 4 atoms passed for a 3-substituent centre but none is hydrogen
        stub = types.SimpleNamespace(stereogenic_tetrahedrons={1: (10, 11, 12)}, _atoms=AtomsStub(lambda x: False))
        return st.MoleculeStereo._translate_tetrahedron_sign(stub, 1, (10, 11, 12, 13), True)
    out.append(Case('translate_tetrahedron_sign/no-hydrogen-in-4-env-raises-KeyError', fn_noh, (), lambda v: z3.BoolVal(False),
                    (KeyError,), None, (FILE, 'MoleculeStereo._translate_tetrahedron_sign')))

    s = sym_bool('s')

    def fn_stored():
        stub = types.SimpleNamespace(stereogenic_tetrahedrons={1: (10, 11, 12, 13)}, _atoms=AtomsStub(lambda x: False, {1: s}))
        return st.MoleculeStereo._translate_tetrahedron_sign(stub, 1, (11, 10, 12, 13))
    out.append(Case('translate_tetrahedron_sign/stored-sign-used', fn_stored, (), lambda v: zbool(v) == z3.Not(s.z), (),
                    None, (FILE, 'MoleculeStereo._translate_tetrahedron_sign')))
    return out


# ---- cis/trans and allenes --------------------------------------------------------------------------------------------

def _alkene_case(kind, has2, has3, swapped_key, roles_swapped, twice=False):
    """kind 'cis_trans'|'allene'; has2/has3: second substituent present at end n / end m (else a hydrogen stands there);
    swapped_key: called with (m, n); roles_swapped: nn names an m-end substituent and nm an n-end one"""
    st = _mod()
    dom = []
    names = ['n0', 'n1'] + (['n2'] if has2 else ['hn']) + (['n3'] if has3 else ['hm'])
    n0, n1, a2, a3 = _ids(names, dom)
    A, B = [n0, a2], [n1, a3]
    nn, nm = sym_int('nn', 1, 4095, dom), sym_int('nm', 1, 4095, dom)
    s = sym_bool('s')
    first, second = (B, A) if roles_swapped else (A, B)
    dom.append(z3.Or(nn.z == first[0].z, nn.z == first[1].z))
    dom.append(z3.Or(nm.z == second[0].z, nm.z == second[1].z))
    tup = (n0, n1, a2 if has2 else None, a3 if has3 else None)
    hs = [x for x, present in ((a2, has2), (a3, has3)) if not present]

    def is_h(x):
        if not hs:
            return False
        return SymBool(z3.Or(*[bv(x) == h.z for h in hs]))

    def call(stub, sv):
        if kind == 'cis_trans':
            if swapped_key:      # library contract: (m, n, neighbour of m, neighbour of n)
                return st.MoleculeStereo._translate_cis_trans_sign(stub, 21, 20, nm, nn, sv)
            return st.MoleculeStereo._translate_cis_trans_sign(stub, 20, 21, nn, nm, sv)
        return st.MoleculeStereo._translate_allene_sign(stub, 30, nn, nm, sv)

    def mkstub(tup_, is_h_):
        return types.SimpleNamespace(stereogenic_cis_trans={(20, 21): tup_}, stereogenic_allenes={30: tup_},
                                     _atoms=AtomsStub(is_h_))

    def fn():
        stub = mkstub(tup, is_h)
        r = call(stub, s)
        if twice:
            r = call(stub, r)
        return r

    a_el = nm if roles_swapped else nn
    b_el = nn if roles_swapped else nm
    flip = z3.Xor(a_el.z == a2.z, b_el.z == a3.z)

    def ensures(val):
        return zbool(val) == (s.z if twice else z3.Xor(s.z, flip))

    def native(model):
        g = lambda k: model.get(k, 0)
        c0, c1 = g('n0'), g('n1')
        c2 = g('n2') if has2 else g('hn')
        c3 = g('n3') if has3 else g('hm')
        hh = [c for c, p in ((c2, has2), (c3, has3)) if not p]
        tup_ = (c0, c1, c2 if has2 else None, c3 if has3 else None)
        cnn, cnm, sv = g('nn'), g('nm'), bool(model.get('s', False))
        stub = mkstub(tup_, lambda x: x in hh)
        try:
            if kind == 'cis_trans':
                got = st.MoleculeStereo._translate_cis_trans_sign(stub, *((21, 20, cnm, cnn) if swapped_key else (20, 21, cnn, cnm)), sv)
            else:
                got = st.MoleculeStereo._translate_allene_sign(stub, 30, cnn, cnm, sv)
        except Exception as ex:
            return dict(ok=False, got=repr(ex), args=dict(env=tup_, nn=cnn, nm=cnm, s=sv))
        ca, cb = (cnm, cnn) if roles_swapped else (cnn, cnm)
        exp = sv ^ ((ca == c2) ^ (cb == c3))
        if twice:
            return dict(ok=None)
        return dict(ok=got == exp, got=got, expected=exp, args=dict(env=tup_, nn=cnn, nm=cnm, s=sv))
    fname = '_translate_cis_trans_sign' if kind == 'cis_trans' else '_translate_allene_sign'
    tag = f'{"2" if has2 else "H"}{"3" if has3 else "H"}{",key-swapped" if swapped_key else ""}{",roles-swapped" if roles_swapped else ""}'
    return Case(f'{fname[1:]}/[{tag}]' + ('-involution' if twice else ''), fn, dom, ensures, (), native, (FILE, 'MoleculeStereo.' + fname))


def _alkene_error_cases():
    st = _mod()
    out = []
    for kind in ('cis_trans', 'allene'):
        for bad_first in (True, False):
            dom = []
            n0, n1, n2, n3, x = _ids(['n0', 'n1', 'n2', 'n3', 'x'], dom)
            good = sym_int('g', 1, 4095, dom)
            dom.append(z3.Or(*[good.z == k.z for k in (n0, n1, n2, n3)]))

            def fn(kind=kind, bad_first=bad_first, n0=n0, n1=n1, n2=n2, n3=n3, x=x, good=good):
                stub = types.SimpleNamespace(stereogenic_cis_trans={(20, 21): (n0, n1, n2, n3)}, stereogenic_allenes={30: (n0, n1, n2, n3)},
                                             _atoms=AtomsStub(lambda q: False))
                a, b = (x, good) if bad_first else (good, x)
                if kind == 'cis_trans':
                    return st.MoleculeStereo._translate_cis_trans_sign(stub, 20, 21, a, b, True)
                return st.MoleculeStereo._translate_allene_sign(stub, 30, a, b, True)
            fname = '_translate_cis_trans_sign' if kind == 'cis_trans' else '_translate_allene_sign'
            out.append(Case(f'{fname[1:]}/foreign-atom-{"first" if bad_first else "second"}-raises-KeyError', fn, dom,
                            lambda v: z3.BoolVal(False), (KeyError,), None, (FILE, 'MoleculeStereo.' + fname)))
        # two substituents of the same end -> KeyError
        dom = []
        n0, n1, n2, n3 = _ids(['n0', 'n1', 'n2', 'n3'], dom)

        def fn2(kind=kind, n0=n0, n1=n1, n2=n2, n3=n3):
            stub = types.SimpleNamespace(stereogenic_cis_trans={(20, 21): (n0, n1, n2, n3)}, stereogenic_allenes={30: (n0, n1, n2, n3)},
                                         _atoms=AtomsStub(lambda q: False))
            if kind == 'cis_trans':
                return st.MoleculeStereo._translate_cis_trans_sign(stub, 20, 21, n0, n2, True)
            return st.MoleculeStereo._translate_allene_sign(stub, 30, n0, n2, True)
        fname = '_translate_cis_trans_sign' if kind == 'cis_trans' else '_translate_allene_sign'
        out.append(Case(f'{fname[1:]}/same-end-pair-raises-KeyError', fn2, dom, lambda v: z3.BoolVal(False), (KeyError,), None,
                        (FILE, 'MoleculeStereo.' + fname)))
    return out


# ---- geometric sign functions (NRA; floats treated as reals) ------------------------------------------------------------

def _pt(name, dims=3):
    return tuple(sym_real(f'{name}{c}') for c in 'xyz'[:dims])


def _geo_cases():
    st = _mod()
    T = (FILE, '_pyramid_sign')
    out = []
    n, u, v, w = _pt('n'), _pt('u'), _pt('v'), _pt('w')
    for nm_, args2, rel in [('swap-uv', (n, v, u, w), -1), ('swap-vw', (n, u, w, v), -1), ('swap-uw', (n, w, v, u), -1),
                            ('cycle-uvw', (n, v, w, u), 1), ('cycle-wuv', (n, w, u, v), 1)]:
        def fn(args2=args2):
            return st._pyramid_sign(n, u, v, w), st._pyramid_sign(*args2)
        out.append(Case(f'pyramid_sign/{nm_}', fn, (), (lambda val, rel=rel: z3.BoolVal(val[0] == rel * val[1])), (), None, T, tactic='qfnra-nlsat'))

    def mirror(p):
        return (p[0], p[1], -p[2])

    def fn_m():
        return st._pyramid_sign(n, u, v, w), st._pyramid_sign(mirror(n), mirror(u), mirror(v), mirror(w))
    out.append(Case('pyramid_sign/mirror-z', fn_m, (), lambda val: z3.BoolVal(val[0] == -val[1]), (), None, T, tactic='qfnra-nlsat'))
    # translation invariance
    d = _pt('d')

    def sh(p):
        return tuple(a + b for a, b in zip(p, d))

    def fn_t():
        return st._pyramid_sign(n, u, v, w), st._pyramid_sign(sh(n), sh(u), sh(v), sh(w))
    out.append(Case('pyramid_sign/translation', fn_t, (), lambda val: z3.BoolVal(val[0] == val[1]), (), None, T, tactic='qfnra-nlsat'))
    # sign is exactly the sign of the oriented volume det[u-n, v-n, w-n] (independent spec)

    def det3(a, b, c):
        return (a[0] * (b[1] * c[2] - b[2] * c[1]) - a[1] * (b[0] * c[2] - b[2] * c[0]) + a[2] * (b[0] * c[1] - b[1] * c[0]))

    def fn_d():
        return st._pyramid_sign(n, u, v, w)

    def ens_d(val):
        q = [tuple((a - b).z for a, b in zip(p, n)) for p in (u, v, w)]
        dd = det3(*q)
        return z3.And(z3.Implies(dd > 0, z3.BoolVal(val == 1)), z3.Implies(dd < 0, z3.BoolVal(val == -1)),
                      z3.Implies(dd == 0, z3.BoolVal(val == 0)))
    out.append(Case('pyramid_sign/equals-sign-of-determinant', fn_d, (), ens_d, (), None, T, tactic='qfnra-nlsat'))

    T2 = (FILE, '_cis_trans_sign')
    n2, u2, v2, w2 = _pt('n', 2), _pt('u', 2), _pt('v', 2), _pt('w', 2)

    def fn_r():
        return st._cis_trans_sign(n2, u2, v2, w2), st._cis_trans_sign(w2, v2, u2, n2)
    out.append(Case('cis_trans_sign/reversal', fn_r, (), lambda val: z3.BoolVal(val[0] == val[1]), (), None, T2, tactic='qfnra-nlsat'))
    # reflecting n through the line uv flips the sign: n' = n reflected; characterised by cross(u-n', v-u) = -cross(u-n, v-u)
    n3 = _pt('m', 2)

    def cross(a, b):
        return a[0] * b[1] - a[1] * b[0]
    q1 = tuple(a - b for a, b in zip(u2, n2))
    q1r = tuple(a - b for a, b in zip(u2, n3))
    q2 = tuple(a - b for a, b in zip(v2, u2))
    refl = [(cross(q1r, q2) == -cross(q1, q2)).z]

    def fn_f():
        return st._cis_trans_sign(n2, u2, v2, w2), st._cis_trans_sign(n3, u2, v2, w2)
    out.append(Case('cis_trans_sign/other-side-of-the-double-bond-flips', fn_f, refl, lambda val: z3.BoolVal(val[0] == -val[1]), (), None,
                    T2, tactic='qfnra-nlsat'))
    # spec: sign = sign(cross(u-n, v-u) * cross(v-u, w-v))  -> +1 when n and w lie on the same side of the line uv
    def fn_s():
        return st._cis_trans_sign(n2, u2, v2, w2)

    def ens_s(val):
        q3 = tuple(a - b for a, b in zip(w2, v2))
        dd = (cross(q1, q2) * cross(q2, q3)).z
        return z3.And(z3.Implies(dd > 0, z3.BoolVal(val == 1)), z3.Implies(dd < 0, z3.BoolVal(val == -1)), z3.Implies(dd == 0, z3.BoolVal(val == 0)))
    out.append(Case('cis_trans_sign/equals-sign-of-cross-product', fn_s, (), ens_s, (), None, T2, tactic='qfnra-nlsat'))

    T3 = (FILE, '_allene_sign')
    for mk in (1, -1):
        def fn_a(mk=mk):
            return st._allene_sign(mk, u2, v2, w2), st._allene_sign(-mk, u2, v2, w2)
        out.append(Case(f'allene_sign/odd-in-mark[{mk}]', fn_a, (), lambda val: z3.BoolVal(val[0] == -val[1]), (), None, T3, tactic='qfnra-nlsat'))
    w3 = _pt('k', 2)
    q3a = tuple(a - b for a, b in zip(w2, v2))
    q3b = tuple(a - b for a, b in zip(w3, v2))
    refl2 = [(cross(q2, q3b) == -cross(q2, q3a)).z]

    def fn_a2():
        return st._allene_sign(1, u2, v2, w2), st._allene_sign(1, u2, v2, w3)
    out.append(Case('allene_sign/w-on-the-other-side-flips', fn_a2, refl2, lambda val: z3.BoolVal(val[0] == -val[1]), (), None, T3,
                    tactic='qfnra-nlsat'))
    return out


def _canaries():
    """deliberately wrong postconditions: must be refuted (vacuity guard)"""
    c = _tetra_case(4, 4, False)
    good = c.ensures
    c.name += '/CANARY-negated'
    c.ensures = lambda v: z3.Not(good(v))
    c.expect_fail = True
    c.native = None
    d = _alkene_case('cis_trans', True, True, False, False)
    gd = d.ensures
    d.name += '/CANARY-negated'
    d.ensures = lambda v: z3.Not(gd(v))
    d.expect_fail = True
    d.native = None
    return [c, d]


_CACHE = None


def cases():
    global _CACHE
    if _CACHE is not None:
        return _CACHE
    cs = []
    for n_order, n_env, with_h in [(4, 4, False), (4, 3, False), (3, 3, False), (3, 4, True)]:
        cs.append(_tetra_case(n_order, n_env, with_h))
        cs.append(_tetra_case(n_order, n_env, with_h, twice=True))
    cs += _tetra_error_cases()
    for kind in ('cis_trans', 'allene'):
        for has2, has3 in itertools.product((True, False), repeat=2):
            for roles in (False, True):
                for key_sw in ((False, True) if kind == 'cis_trans' else (False,)):
                    cs.append(_alkene_case(kind, has2, has3, key_sw, roles))
            cs.append(_alkene_case(kind, has2, has3, False, False, twice=True))
    cs += _alkene_error_cases()
    cs += _geo_cases()
    cs += _canaries()
    _CACHE = cs
    return cs
