"""C13 - edits keep derived views coherent; transactions atomic; copies independent (DESIGN §1.6, §2 C13).
F: cache-coherence typestate with ghost write-sets over the AST of every covered mutator (read-sets derived from the AST, declared
read-sets for the keys flush_cache may keep); P: the fix_stereo retry-loop lemma F relies on; T: transaction rollback restores every
state slot, constructors bind every slot; B (checks/b13.py): exhaustive edit histories against an independently rebuilt molecule."""
import ast

from vlib import env
import tables
from checks.common import anchored, bounded_part, want, contract_sources, make_replay, t_oblig
from pysym.harness import run_cases

LEVEL = 'other'
replay = make_replay('C13')
from checks.fpart import NOT_COVERED_BY_F  # noqa
FINISH = dict(
    rule='F: one obligation per (mutator, cache key) "not stale at exit", per read site "read key is fresh", per flush site, per declared read-set; '
         'P: one per path of the fix_stereo loop body; B: operation histories, non-trivial = history that changes the structure',
    explanation='Coherence of the memoised views is proved by frames: every write to a location makes the cached keys whose derived read-set contains '
                'it stale; flushes clear them; every read inside a mutator and every exit must see no stale key. The analysis is flow-sensitive over the '
                'real AST, inlines self-calls with constant arguments and evaluates simple guards. Assumed frame facts are listed under assumptions; '
                'mutators the analysis cannot discharge are listed under not_covered and are left to the bounded histories.',
    trusted_base=['CPython ast', 'frames/engine.py (abstract interpreter, reviewed not verified)', 'attribute-name based read/write classification',
                  'z3 via pysym for the loop lemma'])


def main(run):
    env.setup()
    from contracts import cache, cachelemmas
    if want(run, 'F'):
      with anchored(run, 'C13/F'):
        from checks.fpart import run_F
        run_F(run)
    if want(run, 'T'):
      with anchored(run, 'C13/T'):
        # transaction rollback restores every state slot of the class
        from chython.containers import MoleculeContainer
        slots = set()
        for c in MoleculeContainer.__mro__:
            s = getattr(c, '__slots__', ())
            slots |= set((s,) if isinstance(s, str) else s)
        need = slots - {'_conformers', '_backup'}
        # the REAL __exit__ runs on an instance whose slots (and those of its backup) hold distinct opaque sentinels: the rollback path cannot
        # depend on their values, so one run decides it for every state.  No statement of the method is addressed.
        from vlib.env import Unanchored

        class _S:
            def __init__(self, tag):
                self.tag = tag

            def __repr__(self):
                return f'<{self.tag}>'
        live, backup = object.__new__(MoleculeContainer), object.__new__(MoleculeContainer)
        for sl in sorted(slots - {'_backup'}):
            if sl == '__dict__':
                continue
            object.__setattr__(live, sl, _S(f'live.{sl}'))
            object.__setattr__(backup, sl, _S(f'backup.{sl}'))
        live.__dict__.update(stale_cache=_S('live.cache'))
        backup.__dict__.update(saved_cache=_S('backup.cache'))
        object.__setattr__(live, '_backup', backup)
        exc = ValueError('edit failed')
        try:
            swallowed = MoleculeContainer.__exit__(live, ValueError, exc, None)
        except Exception as e:
            raise Unanchored(f'MoleculeContainer.__exit__ on an instance with opaque slot values raised {type(e).__name__}: {e}')
        got = {}
        for sl in sorted(need):
            if sl == '__dict__':
                got[sl] = (live.__dict__ == backup.__dict__ or live.__dict__ is backup.__dict__) and 'stale_cache' not in live.__dict__
            else:
                got[sl] = getattr(live, sl, None) is getattr(backup, sl)
        for sl in sorted(need):
            t_oblig(run, f'__exit__/rollback-restores-slot[{sl}]', got[sl], key=f'rollback-slot:{sl}',
                    what=f'a failed transaction does not restore slot {sl}',
                    witness={'slot': sl, 'after_rollback': repr(live.__dict__ if sl == '__dict__' else getattr(live, sl, None)), 'backup': repr(getattr(backup, sl, None))})
        t_oblig(run, '__exit__/clears-backup', getattr(live, '_backup', 0) is None)
        t_oblig(run, '__exit__/does-not-swallow-the-exception', not swallowed)
        # constructors bind every slot (the mutators read _changed / _backup unconditionally)
        from chython import smiles
        m = smiles('C[C@H](N)C(=O)O.Cl')
        for label, obj in (('copy', m.copy()), ('substructure', m.substructure([1, 2, 3])), ('union', m | smiles('CC')), ('split', m.split()[0]),
                           ('__init__', MoleculeContainer())):
            for sl in sorted(need):
                try:
                    getattr(obj, sl)
                    ok = True
                except AttributeError:
                    ok = False
                t_oblig(run, f'well-formed[{label}]/slot-bound[{sl}]', ok, key=f'slot-unbound:{label}:{sl}', what=f'{label}() result has slot {sl} unbound')
    if want(run, 'P'):
      with anchored(run, 'C13/P'):
        run.under_contract('chython/algorithms/stereo.py', 'MoleculeStereo.fix_stereo/while[0]', cachelemmas.region_text())
        run_cases(run, 'contracts.cachelemmas')
    bounded_part(run, 'C13')
    run.assume('attribute names identify locations (charge, _order, _stereo, ... are not reused for unrelated data)',
               'atoms and bonds are reached only through the container (no external alias is mutated outside a transaction)',
               'assumed frame facts listed in coverage.notes.assumed_frame_facts (aromatisation/resonance never move a bond across the order-8 class; '
               'renaming, union of disjoint coherent graphs and deletion of bond-free atoms preserve labels; terminal hydrogens lie on no ring; '
               'changed-set guards are falsy only if nothing was written)',
               'implicit-hydrogen recalculation (calc_implicit per changed atom) is not modelled by F; the bounded histories cover it')
    return FINISH
