"""C19 bounded stand-in (engine B): results are identical across processes, hash seeds and repeated calls.

Parent: starts fresh interpreter processes `python -m checks.b19 --worker <N> <start> <n>` with PYTHONHASHSEED in
{0, 0 again, 1, two seeded random values} (the second seed-0 process exposes dependence on object addresses / process state that a
fixed hash seed does not remove) and compares, molecule by molecule, the sha256 of every observable.
Worker: for each corpus molecule (fresh parse)
  * `first`  = every observable on the freshly parsed molecule (nothing cached),
  * `second` = the same observables again on the same object (cached; the three expensive transformations that work on their own
    copy - canonicalize, standardize, tautomers - are evaluated on `first` and on every 4th `copy-before` only),
  * `copy-before` = on a copy made BEFORE any cache was filled, evaluated in REVERSE order (a pure function of the molecule does not
    care about evaluation order; a cache written as a side effect of another observable does),
  * `copy-after`  = on a copy made AFTER all caches were filled,
  * `isolated`    = each observable alone on its own pristine copy (nothing evaluated before it),
  and reports every in-process difference.  Pack bytes are included whenever the de-cythonised modules can be injected.

Coverage audit extension (bounded/d19_extra.py, oracles/o19_obs.py; worker mode `--extra`): a wider catalogue of observables (every
public cached property, every format spec, fingerprint / matcher keywords, compiled matcher, derived containers, pack round trip) on
special input classes and numbering variants, observed after every IN-PLACE operation with warm caches and compared with a cold
independent rebuild, with copies under every keep_* flag and with a fresh parse of the canonical string; reactions with their CGRs and
query containers through the same scheme; one more process with PYTHONHASHSEED=random."""
import hashlib
import itertools
import json
import os
import subprocess
import sys

RULE = ('non-trivial = every molecule (all observables are non-constant functions of the structure); keys are (SMILES, observable); '
        'evaluations = molecule x observable x process (+ 4 in-process re-evaluations per process)')

QUERIES = ('[C;r6]-[N,O]', 'c:c-[N,O]', '[C;z2]=O', '[N,O;h1,h2]')
TAUT_MAX_ATOMS = 45


def _observables(pack):
    """ordered list of (name, function(molecule) -> repr-able value); none of them may change the molecule passed in"""
    from chython import smarts
    qs = [smarts(q) for q in QUERIES]

    def mutated(op):
        def f(m):
            c = m.copy()
            res = op(c)
            return res, str(c), format(c, 'h'), tuple(c._atoms)
        return f

    def tautomers(m):
        if len(m) > TAUT_MAX_ATOMS:
            return 'skipped'
        return [str(t) for t in itertools.islice(m.copy().enumerate_tautomers(), 5)]

    obs = [
        ('str', str),
        ('format:A', lambda m: format(m, 'A')),
        ('format:h', lambda m: format(m, 'h')),
        ('format:m', lambda m: format(m, 'm')),
        ('atoms_order', lambda m: list(m.atoms_order.items())),
        ('smiles_atoms_order', lambda m: m.smiles_atoms_order),
        ('sssr', lambda m: m.sssr),
        ('atoms_rings', lambda m: list(m.atoms_rings.items())),
        ('connected_components', lambda m: [sorted(c) for c in m.connected_components]),
        ('connected_components:iteration', lambda m: [list(c) for c in m.connected_components]),
        ('aromatic_rings', lambda m: m.aromatic_rings),
        ('linear_hash_set', lambda m: sorted(m.linear_hash_set())),
        ('linear_hash_set:iteration', lambda m: list(m.linear_hash_set())),
        ('morgan_hash_set', lambda m: sorted(m.morgan_hash_set())),
        ('morgan_hash_set:iteration', lambda m: list(m.morgan_hash_set())),
        ('linear_fingerprint', lambda m: m.linear_fingerprint().tobytes()),
        ('morgan_fingerprint', lambda m: m.morgan_fingerprint().tobytes()),
        ('chiral_sets', lambda m: (sorted(m.chiral_tetrahedrons), sorted(m.chiral_cis_trans), sorted(m.chiral_allenes))),
        ('stereo_labels', lambda m: ([(n, a.stereo) for n, a in m.atoms() if a.stereo is not None],
                                     [(n, k, b.stereo) for n, k, b in m.bonds() if b.stereo is not None])),
    ]
    for q, qq in zip(QUERIES, qs):
        obs.append((f'get_mapping:{q}', (lambda qq: lambda m: [list(x.items()) for x in qq.get_mapping(m, _cython=False)])(qq)))
        obs.append((f'get_mapping:no-filter:{q}',
                    (lambda qq: lambda m: [list(x.items()) for x in itertools.islice(qq.get_mapping(m, automorphism_filter=False, _cython=False), 50)])(qq)))
    obs += [
        ('canonicalize', mutated(lambda c: c.canonicalize())),
        ('standardize', mutated(lambda c: c.standardize())),
        ('neutralize', mutated(lambda c: c.neutralize())),
        ('kekule', mutated(lambda c: c.kekule())),
        ('kekule+thiele', mutated(lambda c: (c.kekule(), c.thiele()))),
        ('tautomers:first5', tautomers),
    ]
    if pack:
        obs.append(('pack', lambda m: m.pack()))
        obs.append(('pack:uncompressed', lambda m: m.pack(compressed=False)))
    return obs


def _digest(v):
    r = v if isinstance(v, bytes) else repr(v).encode()
    short = (v.hex() if isinstance(v, bytes) else repr(v))
    return hashlib.sha256(r).hexdigest()[:24], short[:160]


EXPENSIVE = ('canonicalize', 'standardize', 'tautomers:first5')   # work on their own copy: evaluated on `first` and `copy-before` only


def _evaluate(m, obs, reverse=False, cheap_only=False):
    out = {}
    for name, f in (reversed(obs) if reverse else obs):
        if cheap_only and name in EXPENSIVE:
            continue
        try:
            out[name] = _digest(f(m))
        except Exception as e:      # a library exception is a value of the observable: it must be the same everywhere too
            out[name] = _digest(f'EXC {type(e).__name__}: {e}')
    return out


# fixed, seed-independent inputs: symmetric ring stereocentres (stereo refinement that cannot split a class), atom-mapped SMILES whose
# storage order is not ascending (copy / pack / match order), equivalent E/Z double bonds, salts, cages
ANCHORS = ['C[C@H]1CC[C@@H](C)CC1', 'O[C@H]1C[C@@H](O)C1', 'C[C@H]1C[C@@H](C)C1', 'C[C@@H]1CC[C@@H](C)CC1', '[CH3:5][CH2:3][OH:1]',
           '[cH:9]1[cH:3][cH:7][cH:2][cH:8][c:1]1[OH:4]', '[CH3:7][C@H:2]([NH2:9])[C:4](=[O:1])[OH:3]', 'OC(=O)/C=C/C=C\\C(O)=O', 'C/C=C/CC/C=C\\C',
           '[Na+].[Cl-]', 'CC(=O)[O-].[Na+]', 'C12C3C4C1C5C2C3C45', 'C1CC2CCC1C2', 'c1ccc2ccccc2c1', '[O:3]=[C:1]([OH:2])[CH2:10][CH2:4][NH2:6]']


def worker(total, start, n):
    from vlib import env
    env.setup()
    try:
        env.setup(pyx=True)
        pack = True
    except Exception:
        pack = False
    from chython import smiles
    from bounded import domains as D
    mols = (ANCHORS + D.corpus_sample(max(0, total - len(ANCHORS)), 'c19'))[start:start + n]
    obs = _observables(pack)
    w = sys.stdout
    w.write(json.dumps({'meta': {'pack': pack, 'hashseed': os.environ.get('PYTHONHASHSEED'), 'observables': [x for x, _ in obs]}}) + '\n')
    for i, s in enumerate(mols, start):
        try:
            m = smiles(s)
        except Exception as e:
            w.write(json.dumps({'i': i, 's': s, 'd': {'parse': _digest(f'EXC {type(e).__name__}')}, 'internal': []}) + '\n')
            continue
        before = m.copy()
        first = _evaluate(m, obs)
        second = _evaluate(m, obs, cheap_only=True)
        after = m.copy()
        cb = _evaluate(before, obs, reverse=True, cheap_only=bool(i % 4))   # expensive transformations on every 4th copy
        ca = _evaluate(after, obs, cheap_only=True)
        iso = {}
        for ob in obs:           # every cheap observable alone on its own pristine copy: nothing else has been evaluated before it
            if ob[0] not in EXPENSIVE:
                iso.update(_evaluate(before.copy(), [ob]))
        internal = []
        for kind, other in (('cached', second), ('copy-before', cb), ('copy-after', ca), ('isolated', iso)):
            for name in other:
                if first[name][0] != other[name][0]:
                    internal.append([kind, name, first[name][1], other[name][1]])
        w.write(json.dumps({'i': i, 's': s, 'd': first, 'internal': internal}) + '\n')
    w.flush()


def extra_worker(tier, part, index, stride):
    """records of every `stride`-th item of part M / R / Q starting at `index` (bounded/d19_extra.py)"""
    from vlib import env
    env.setup()
    try:
        env.setup(pyx=True)
        pack = True
    except Exception:
        pack = False
    from bounded import d19_extra as X
    from oracles import o19_obs as O
    w = sys.stdout
    if part == 'M':
        obs = O.molecule_observables(pack)
        items = X.molecule_items(tier, total=int(os.environ['VERIF_B19_EXTRA']) if os.environ.get('VERIF_B19_EXTRA') else None)
        run1 = lambda it, i: X.run_molecule(*it, obs, oi_item=i)
    elif part == 'R':
        obs = O.reaction_observables(pack)
        items = X.reaction_items(tier)
        run1 = lambda it, i: X.run_reaction(*it, obs)
    else:
        from chython import smiles
        obs = O.query_observables(pack, [(t, smiles(t)) for t in X.Q_TARGETS])
        items = X.Q_SMARTS
        run1 = lambda it, i: X.run_query(it, obs)
    w.write(json.dumps({'meta': {'pack': pack, 'hashseed': os.environ.get('PYTHONHASHSEED'), 'items': len(items), 'observables': len(obs),
                                 'local': [o.name for o in obs if o.local]}}) + '\n')
    for i in range(index, len(items), stride):
        for rec in run1(items[i], i):
            rec['i'] = i
            w.write(json.dumps(rec) + '\n')
    w.flush()


# storage-order dependent observables of a reaction (roles as stored): what a hash-seed dependent re-sorting of a role shows up in
_R_STORED = ('format:!c', 'format:m!c', 'roles', 'molecules:', 'pack', 'check_valence', 'cgr:')   # the CGR unites the roles in stored order (`|` renumbers collisions)


def _family(part, rec, kind, name):
    """known-finding family of a difference, decided by predicates on the INPUT (container kind, operation, observable, role counts) - never by
    the difference itself; None = no recorded family, the key names the specific input"""
    if part == 'Q' and name == 'str' and kind.startswith('copy'):
        return 'copy:str:QueryContainer'            # str() of a copied query container
    if part == 'M' and kind == 'process' and name in ('morgan_hash_smiles', 'morgan_smiles_hash') and (rec.get('flags') or {}).get('morgan-hash-shared-by-fragment-strings'):
        return 'process:morgan_hash_smiles:hash-shared-by-two-or-more-fragment-strings'
    if part == 'M' and kind == 'fresh-parse-of-canonical-string' and (rec.get('flags') or {}).get('labelled-double-bond-at-atom-with-two-double-bonds') \
            and name in ('str', 'format:A', 'format:!s', 'format:A!s!z', 'format:a', 'split:sorted-strings'):
        # the edited molecule keeps a cis/trans label on a double bond at an atom that now has two double bonds and a third neighbour (valence
        # invalid; the same structural situation as C10's recorded finding): written as half a direction mark, dropped by a fresh parse
        return 'fresh-parse:stale-cis-trans-label-at-atom-with-two-double-bonds'
    if part == 'R' and kind == 'process' and rec['op'] in ('remove_reagents:keep', 'remove_reagents:rules,keep') and name.startswith(_R_STORED) \
            and 'roles' in rec and rec['roles'][1] - rec['roles0'][1] >= 2:
        return 'process:stored-reagents-order@remove_reagents(keep_reagents=True):two-or-more-new-reagents'
    return None


def bounded(run):
    from vlib import env
    from bounded import domains as D
    quick = run.tier == 'quick'
    total = 200 if quick else 2000
    if os.environ.get('VERIF_B19_TOTAL'):    # self-test knob (mutation runs): smaller domain, stated in the bound below
        total = int(os.environ['VERIF_B19_TOTAL'])
    r = D.rnd('c19-seeds')
    seeds = ['0', '0', '1', str(r.randrange(2, 2 ** 32 - 1)), str(r.randrange(2, 2 ** 32 - 1))]
    if not quick:
        seeds.append('random')
    xseeds = ['0', seeds[3], 'random']    # processes of the extra part (bounded/d19_extra.py)
    size = 25 if quick else 100          # molecules per worker process; the semaphore below balances the load over NPROC slots
    nchunks = -(-total // size)
    jobs = []
    base = dict(os.environ, VERIF_REPO=env.REPO, VERIF_SEED=str(env.SEED), PYTHONPATH=env.VERIF)
    run.assume('third-party code (numpy, lazy_object_proxy, CachedMethods shim) is deterministic',
               'a second process with the same hash seed stands for "another interpreter process" (address-space layout, import order)',
               'pack bytes come from the mechanically de-cythonised .pyx modules (cyx) when they can be injected')
    run.bound(f'{total} corpus molecules (seeded sample) x {len(seeds)} fresh processes with PYTHONHASHSEED {seeds} (random: first 600 molecules) x '
              f'5 evaluations (first, cached, copy made before caching evaluated in reverse order, copy made after caching, every observable '
              f'alone on a pristine copy; canonicalize / '
              f'standardize / tautomers on the first evaluation and on every 4th copy); '
              f'tautomer enumeration: first 5, molecules <= {TAUT_MAX_ATOMS} atoms; unfiltered mappings: first 50')
    # at most NPROC workers at a time
    rnd_total = min(total, 600)      # the PYTHONHASHSEED=random process (thorough tier) covers the first 600 molecules
    queue = [(si, seed, c * size, min(size, total - c * size)) for si, seed in enumerate(seeds) for c in range(nchunks)
             if c * size < (rnd_total if seed == 'random' else total)]
    results = {si: {} for si in range(len(seeds))}
    meta = {}
    running = []

    def launch(job):
        if job[0] == 'X':
            _, part, si, seed, index, stride = job
            argv = ['--extra', run.tier, part, str(index), str(stride)]
        else:
            si, seed, start, n = job
            argv = ['--worker', str(total), str(start), str(n)]
        e = dict(base, PYTHONHASHSEED=seed)
        p = subprocess.Popen([sys.executable, '-X', 'faulthandler', '-m', 'checks.b19'] + argv,
                             cwd=env.VERIF, env=e, stdout=subprocess.PIPE, stderr=subprocess.PIPE, text=True)
        return job, p

    # extra part: every `stride`-th item per worker (interleaved: items of one kind are spread over the workers)
    strides = {'M': 10 if quick else 48, 'R': 3 if quick else 12, 'Q': 1 if quick else 2}
    xqueue = [('X', part, si, seed, index, strides[part]) for part in 'MRQ' for si, seed in enumerate(xseeds) for index in range(strides[part])]
    parts = os.environ.get('VERIF_B19_PARTS', 'corpus,extra')     # self-test / timing knob: run one part only (stated in the bounds)
    if 'extra' not in parts:
        xqueue = []
        run.bound('VERIF_B19_PARTS: extra part skipped')
    if 'corpus' not in parts:
        queue, total = [], 0
        run.bound('VERIF_B19_PARTS: corpus part skipped')
    pending = xqueue + list(queue)
    limit = max(1, env.NPROC)
    import threading
    outs = {}

    def reader(job, p):
        o, err = p.communicate()
        outs[job] = (p.returncode, o, err)
    threads = []
    sem = threading.Semaphore(limit)

    def runjob(job):
        with sem:
            j, p = launch(job)
            reader(j, p)
    for job in pending:
        t = threading.Thread(target=runjob, args=(job,))
        t.start()
        threads.append(t)
    for t in threads:
        t.join()
    for job in queue:
        rc, o, err = outs[job]
        if rc != 0:
            raise RuntimeError(f'worker {job} failed with exit code {rc}:\n{err[-2000:]}')   # checker problem, never a violation
        si = job[0]
        for line in o.splitlines():
            if not line.startswith('{'):
                continue
            rec = json.loads(line)
            if 'meta' in rec:
                meta[si] = rec['meta']
                continue
            results[si][rec['i']] = rec
    packs = {m['pack'] for m in meta.values()}
    run.notes['c19_pack_included'] = sorted(packs) == [True]
    if len(packs) > 1:
        raise RuntimeError('pack availability differs between workers')
    names = meta[0]['observables'] if meta else []
    run.notes['c19_observables'] = names
    ref = results[0]
    if sorted(ref) != list(range(total)):
        raise RuntimeError(f'worker output incomplete: {len(ref)} of {total} molecules')
    for i in range(total):
        a = ref[i]
        s = a['s']
        for si in range(len(seeds)):
            b = results[si].get(i)
            if b is None and seeds[si] == 'random' and i >= rnd_total:
                continue
            if b is None or b['s'] != s:
                raise RuntimeError(f'worker {si} disagrees on molecule {i}')
            for kind, name, x, y in b['internal']:
                run.violation(f'nondeterminism:{kind}:{name}:{s}', f'{name} of {s} differs between the first evaluation and the {kind} one '
                              f'(PYTHONHASHSEED={seeds[si]}): {x} vs {y}', witness={'smiles': s, 'observable': name, 'kind': kind, 'hashseed': seeds[si]},
                              native={'first': x, kind: y})
            for name in names:
                run.case(5, key=(s, name) if si == 0 else None)
                if si and a['d'][name][0] != b['d'][name][0]:
                    run.violation(f'nondeterminism:{name}:{s}', f'{name} of {s} differs between processes: PYTHONHASHSEED={seeds[0]} gives '
                                  f'{a["d"][name][1]}, PYTHONHASHSEED={seeds[si]} (process {si}) gives {b["d"][name][1]}',
                                  witness={'smiles': s, 'observable': name, 'hashseeds': [seeds[0], seeds[si]], 'process': si},
                                  native={seeds[0]: a['d'][name][1], f'{seeds[si]}#{si}': b['d'][name][1]})
        if i < 3:
            run.case(0, sample={'smiles': s, 'digests': {k: v[0] for k, v in list(a['d'].items())[:6]}, 'processes': len(seeds)})
    if xqueue:
        _extra_verdicts(run, xqueue, outs, xseeds)


def _extra_verdicts(run, xqueue, outs, xseeds):
    from bounded import d19_extra as X
    res = {part: {si: {} for si in range(len(xseeds))} for part in 'MRQ'}
    meta = {}
    for job in xqueue:
        rc, o, err = outs[job]
        if rc != 0:
            raise RuntimeError(f'worker {job} failed with exit code {rc}:\n{err[-2000:]}')   # checker problem, never a violation
        _, part, si = job[:3]
        for line in o.splitlines():
            if not line.startswith('{'):
                continue
            rec = json.loads(line)
            if 'meta' in rec:
                meta[part, si] = rec['meta']
                continue
            res[part][si][rec['i'], rec['k'], rec['op']] = rec
    what = {'M': 'molecule', 'R': 'reaction', 'Q': 'query'}
    counts = {}
    for part in 'MRQ':
        ref = res[part][0]
        local = set(meta[part, 0]['local'])
        nitems = meta[part, 0]['items']
        if {k[0] for k in ref} != set(range(nitems)):
            raise RuntimeError(f'extra worker output incomplete for part {part}: {len({k[0] for k in ref})} of {nitems} items')
        counts[part] = (nitems, len(ref), meta[part, 0]['observables'])
        fresh = 0
        for key in sorted(ref):
            a = ref[key]
            _, k, op = key
            fresh += a['fresh']
            for si in range(len(xseeds)):
                b = res[part][si].get(key)
                if b is None:
                    raise RuntimeError(f'extra worker {si} disagrees on item {key} of part {part}')
                for kind, name, x, y in b['internal']:
                    fam = _family(part, b, kind, name)
                    run.violation(f'nondeterminism:{fam}' if fam else f'nondeterminism:{part}:{kind}:{op}:{name}:{k}',
                                  f'{name} of the {what[part]} {k} after `{op}` differs between the warm in-place evaluation and the {kind} one '
                                  f'(PYTHONHASHSEED={xseeds[si]}): {x} vs {y}',
                                  witness={'part': part, 'input': k, 'operation': op, 'observable': name, 'kind': kind, 'hashseed': xseeds[si]},
                                  native={'warm': x, kind: y})
                run.case(b['n'], key=(part, k, op) if si == 0 else None)
                if si:
                    for name in a['d']:     # an operation that raised in one process only shows up as `result` (the state is not observed then)
                        if name not in local and name in b['d'] and a['d'][name][0] != b['d'][name][0]:
                            fam = _family(part, b, 'process', name)
                            run.violation(f'nondeterminism:{fam}' if fam else f'nondeterminism:{part}:process:{op}:{name}:{k}',
                                          f'{name} of the {what[part]} {k} after `{op}` differs between processes: PYTHONHASHSEED={xseeds[0]} gives '
                                          f'{a["d"][name][1]}, PYTHONHASHSEED={xseeds[si]} (process {si}) gives {b["d"][name][1]}',
                                          witness={'part': part, 'input': k, 'operation': op, 'observable': name, 'hashseeds': [xseeds[0], xseeds[si]]},
                                          native={xseeds[0]: a['d'][name][1], f'{xseeds[si]}#{si}': b['d'][name][1]})
        if part == 'M':
            run.notes['c19_extra_fresh_parse_judged'] = fresh
    run.notes['c19_extra'] = {p: {'items': c[0], 'item x operation': c[1], 'observables': c[2]} for p, c in counts.items()}
    run.bound(f'extra part (bounded/d19_extra.py) x {len(xseeds)} fresh processes with PYTHONHASHSEED {xseeds}: '
              f'M {counts["M"][0]} (molecule, numbering variant) items = {len(X.SPECIAL)} special-class molecules + corpus sample under the variants {list(X.VARIANTS)}, '
              f'{counts["M"][1]} (item, in-place operation) pairs out of {len(X.OPS)} operations (targeted + rotating), {counts["M"][2]} observables, '
              f'4-7 evaluations each (warm in place, cold rebuild in reverse order, copy with rotating keep_* flags, cached again, fresh parse of the '
              f'canonical string outside the recorded C01 gaps; `noop`: two keep_* combinations (rotating), copy.copy or copy of copy, rebuild, isolated); '
              f'R {counts["R"][0]} reactions x {counts["R"][1]} (reaction, operation) pairs of {len(X.R_OPS)} operations, {counts["R"][2]} observables incl. the CGR; '
              f'Q {counts["Q"][0]} queries x {len(X.Q_TARGETS)} targets, {counts["Q"][2]} observables; match lists: first 50, automorphisms: first 20, '
              f'self-mappings only up to 4 components')


def replay(rec):
    """re-evaluate the observable of the witness in fresh processes with the recorded seeds; True = identical"""
    from vlib import env
    w = rec.get('witness') or {}
    if w.get('part'):
        return _replay_extra(w)
    s, name = w.get('smiles'), w.get('observable')
    seeds = w.get('hashseeds') or [w.get('hashseed', '0'), '1']
    code = ('import sys, json\nfrom vlib import env; env.setup()\n'
            'try:\n    env.setup(pyx=True); pk = True\nexcept Exception:\n    pk = False\n'
            'from checks import b19\nfrom chython import smiles\n'
            'm = smiles(sys.argv[1]); b = m.copy(); obs = b19._observables(pk)\n'
            'f = b19._evaluate(m, obs); s2 = b19._evaluate(m, obs); cb = b19._evaluate(b, obs, reverse=True); ca = b19._evaluate(m.copy(), obs)\n'
            'print(json.dumps([x[sys.argv[2]] for x in (f, s2, cb, ca)]))\n')
    vals = []
    for seed in seeds + seeds[:1]:
        e = dict(os.environ, PYTHONHASHSEED=str(seed), VERIF_REPO=env.REPO, PYTHONPATH=env.VERIF)
        o = subprocess.run([sys.executable, '-c', code, s, name], cwd=env.VERIF, env=e, capture_output=True, text=True)
        print('PYTHONHASHSEED', seed, o.stdout.strip()[:600], o.stderr[-300:])
        vals.append(o.stdout.strip())
    try:
        flat = {tuple(x) for v in vals for x in json.loads(v)}
    except Exception:
        return False
    return len({x[0] for x in flat}) == 1


def _replay_extra(w):
    """witness of the extra part: the (input, operation) pair again in fresh processes under the recorded seeds (+ 0, 1); True = the
    observable is identical everywhere and no in-process difference is reported for it"""
    from vlib import env
    code = ('import sys, json\nfrom vlib import env; env.setup()\n'
            'try:\n    env.setup(pyx=True); pk = True\nexcept Exception:\n    pk = False\n'
            'from bounded import d19_extra as X\nfrom oracles import o19_obs as O\nfrom chython import smiles\n'
            'part, k, op, name = sys.argv[1:5]\n'
            'if part == "M":\n    text, variant = k.rsplit("|", 1); recs = X.run_molecule(text, variant, (op,), O.molecule_observables(pk))\n'
            'elif part == "R":\n    recs = X.run_reaction(k, (op,), O.reaction_observables(pk))\n'
            'else:\n    recs = X.run_query(k, O.query_observables(pk, [(t, smiles(t)) for t in X.Q_TARGETS]))\n'
            'r = recs[0]\nprint(json.dumps([r["d"].get(name), [x for x in r["internal"] if x[1] == name]]))\n')
    seeds = [str(x) for x in (w.get('hashseeds') or [w.get('hashseed', '0')])] + ['0', '1']
    vals = []
    for seed in seeds:
        e = dict(os.environ, PYTHONHASHSEED=seed, VERIF_REPO=env.REPO, PYTHONPATH=env.VERIF)
        o = subprocess.run([sys.executable, '-c', code, w['part'], w['input'], w['operation'], w['observable']], cwd=env.VERIF, env=e,
                           capture_output=True, text=True)
        print('PYTHONHASHSEED', seed, o.stdout.strip()[:600], o.stderr[-300:])
        vals.append(o.stdout.strip())
    try:
        parsed = [json.loads(v) for v in vals]
    except Exception:
        return False
    local = w['observable'] == 'hash' or w['observable'].endswith(':hash')
    return all(not p[1] for p in parsed) and (local or len({(p[0] or [None])[0] for p in parsed}) == 1)


if __name__ == '__main__':
    if len(sys.argv) >= 5 and sys.argv[1] == '--worker':
        worker(int(sys.argv[2]), int(sys.argv[3]), int(sys.argv[4]))
    elif len(sys.argv) >= 6 and sys.argv[1] == '--extra':
        extra_worker(sys.argv[2], sys.argv[3], int(sys.argv[4]), int(sys.argv[5]))
    else:
        print(__doc__)
