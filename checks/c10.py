"""C10 - binary pack format: lossless round trip, stable published layout (DESIGN §2 C10).
X/P: symbolic round trips unpack(pack(m)) == m through the de-cythonised .pyx on enumerated shapes (all attribute values), period
inductions for the two bit streams, section arithmetic in C types, reaction framing for all role counts; T: float16 exhaustive over
the 2^16 half patterns, limit checks, pack_len formula; B: the 4200 published packs decode to the published structures, concrete
round trips of corpus molecules and reactions through the real wrappers."""
import math
import struct
import zipfile

from vlib import env
from vlib.report import pmap
import tables
from checks.common import anchored, make_replay, t_oblig, bounded_part, want, contract_sources
from pysym.harness import run_cases

LEVEL = 'proof'
replay = make_replay('C10')
FINISH = dict(
    rule='X/P: one obligation per path of the translated pack/unpack (whole function or region) per shape; T: one per half-float '
         'pattern / table entry; B: published packs and corpus round trips, non-trivial = molecule with a ring or stereo label',
    explanation='F: no memoised value read by this property\'s observables survives an edit it depends on (one obligation per covered mutator x cached key); The two codec sources are translated mechanically on every run and executed on proxies: field-by-field round trip and '
                'published byte layout for all attribute values on enumerated shapes, inductive lemmas for the 12-bit pair stream (period 2) '
                'and the 3-bit order stream (period 8 + tails), section offsets in the declared C types, role slices of reactions for all '
                'counts 0..255. Whole molecules are covered by composition of these lemmas (traversal agreement is shape-bounded).',
    trusted_base=['CPython 3.12', 'z3 5.1 / cvc5', 'pysym', 'cyx translation and C runtime (DESIGN §1.4: Cython lowering, C integer conversions)',
                  'zlib round trip', 'IEEE-754 doubles of the host for the float16 lemma'])


def _f16_chunk(rng):
    from cyx import inject, runtime
    gp, _, _ = inject.load('chython/containers/_pack_v2.pyx')
    gu, _, _ = inject.load('chython/containers/_unpack_v0v2.pyx')
    enc, dec = gp['double_to_float16'], gu['double_from_bytes']
    bad = []
    n = 0
    for h in range(*rng):
        a, b = h >> 8, h & 0xff
        e = (a >> 2) & 0x1f
        if e == 0x1f:
            continue                      # inf / nan patterns are never written by the encoder
        x = dec(a, b)
        ref = struct.unpack('>e', bytes((a, b)))[0]
        buf = runtime.CArray('unsigned char', 2)
        enc(x, runtime.TypedPtr(buf, 0, 'unsigned char'))
        n += 1
        exp = (0, 0) if x == 0 else (a, b)       # -0.0 is written as +0.0
        if x != ref or (buf.d[0], buf.d[1]) != exp:
            bad.append((h, x, ref, tuple(buf.d)))
    return n, bad[:5]


def main(run):
    env.setup(pyx=True)
    from contracts import pack as cp
    with anchored(run, 'C10/regions'):
        for k, t in cp.region_texts().items():
            run.under_contract('chython/containers/_pack_v2.pyx' if k.endswith('_w') else 'chython/containers/_unpack_v0v2.pyx', k, t)
    contract_sources(run, [('chython/containers/reaction.py', q) for q in ('ReactionContainer.pack', 'ReactionContainer.unpack', 'ReactionContainer.pack_len')] +
                     [('chython/containers/molecule.py', q) for q in ('MoleculeContainer.pack', 'MoleculeContainer.unpack', 'MoleculeContainer.pack_len')])
    run.under_contract('chython/containers/_pack_v2.pyx', 'pack, double_to_float16', env.read('chython/containers/_pack_v2.pyx'))
    run.under_contract('chython/containers/_unpack_v0v2.pyx', 'unpack, double_from_bytes', env.read('chython/containers/_unpack_v0v2.pyx'))
    if want(run, 'T'):
      with anchored(run, 'C10/T'):
        # L3 float16: decode(h) == IEEE half value and encode(decode(h)) == h for every finite half pattern (complete, by execution)
        chunks = [(i, min(i + 4096, 65536)) for i in range(0, 65536, 4096)]
        tot, bad = 0, []
        for n, b in pmap(_f16_chunk, chunks):
            tot += n
            bad += b
        t_oblig(run, f'L3:float16/decode==IEEE-half-and-encode(decode(h))==h[{tot} finite patterns]', not bad and tot == 63488, key='float16-roundtrip',
                what=f'float16 codec disagrees with IEEE half on pattern(s) {bad[:3]}', witness=bad[:3])
        # truncation toward zero / out of range -> 0 on a grid of doubles
        from cyx import inject, runtime
        gp, _, _ = inject.load('chython/containers/_pack_v2.pyx')
        gu, _, _ = inject.load('chython/containers/_unpack_v0v2.pyx')
        import random
        r = random.Random(env.SEED)
        badd = []
        for _ in range(20000):
            x = r.choice((1, -1)) * math.ldexp(r.random() + .5, r.randint(-30, 20))
            buf = runtime.CArray('unsigned char', 2)
            gp['double_to_float16'](x, runtime.TypedPtr(buf, 0, 'unsigned char'))
            y = gu['double_from_bytes'](buf.d[0], buf.d[1])
            ax = abs(x)
            if ax >= 65536. or ax < 2 ** -25:
                ok = y == 0
            else:
                ok = abs(y) <= ax and (y == 0 or math.copysign(1, y) == math.copysign(1, x)) and ax - abs(y) < max(2 ** -24, ax * 2 ** -10)
            if not ok:
                badd.append((x, y))
        t_oblig(run, 'L3:float16/truncation-toward-zero-to-nearest-half[20000 seeded doubles, bounded]', not badd, key='float16-truncation',
                what=f'double_to_float16 is not truncation to half precision: {badd[:3]}', witness=badd[:3])
        # pack_len's ceil(3n/8) float formula == integer formula for every bond count of the format
        t_oblig(run, 'L6:pack_len-ceil-formula[0..30712 bonds]', all(math.ceil(n * 3 / 8) == (3 * n + 7) // 8 for n in range(0, 30713)))
        # limit checks of MoleculeContainer.pack imply the requires of the lemmas
        src = tables.source_of('chython/containers/molecule.py', 'MoleculeContainer.pack')
        t_oblig(run, 'limits:pack-checks-atom-number<=4095-and-neighbours<=15', 'max(bonds) > 4095' in src and 'len(x) > 15' in src and 'not bonds' in src)
    if want(run, 'P'):
      with anchored(run, 'C10/P'):
        run_cases(run, 'contracts.pack', engine='X/P')
    if want(run, 'F'):
      with anchored(run, 'C10/F'):
        # the observables of this property are (or read) memoised values: no covered mutator leaves one of them stale (engine F restricted to the keys these observables read)
        from checks.fpart import run_F
        run_F(run, entry_points=['pack', '_cis_trans_count', '_stereo_cis_trans_centers', '_stereo_cis_trans_counterpart', '_stereo_allenes_terminals', '_stereo_cis_trans_terminals'])
    bounded_part(run, 'C10')
    run.assume('Cython lowers the constructs as described in DESIGN §1.4; C integer conversions wrap at stores; intermediate values stay inside C int '
               '(checked by the L6 obligations for the section arithmetic)',
               'coordinates: float16 conversion proved on all half patterns; for arbitrary doubles only the seeded truncation check (bounded)',
               'unguarded preconditions of pack: implicit hydrogens <= 6 and isotope offset 1..31 are not checked by MoleculeContainer.pack (C18 shows '
               'every tabulated isotope satisfies the offset bound)',
               'replay of counter-models on .pyx code runs the de-cythonised function (no compiled extension can be built in this sandbox)')
    return FINISH
