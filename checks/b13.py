"""C13 bounded stand-in (engine B): histories of edits keep every derived view coherent, transactions are atomic, copies independent.

The property's own quantifier is *histories*.  Two domains:

* exhaustive tree: every sequence of operation KINDS of length <= 3 on 7 seed molecules, the parameters of each kind (which atom,
  which pair, which permutation ...) being a seeded choice per history prefix (3 instances per kind for the first operation, 2 for
  the second, 1 afterwards); thorough tier adds every sequence of kinds of length <= 4 with (2, 1, 1, 1) instances;
* 200 / 5000 seeded random histories of length 30 on corpus molecules (alphabet + the remaining public mutators of DESIGN 1.6).

Options and input classes of the alphabet (coverage audit): add_atom by symbol / atomic number / Element object with charge, isotope or
radical, with and without an explicit atom number (gap above the maximum, > 999, lowest unused); add_bond with orders 1, 2, 3, 8 and a Bond
object; charges -2..2; isotope labels (inside a transaction); remap by full permutations, shifts by 10 and 1000, descending renumbering and
partial mappings; union by `|`, `|=`, union(remap=True / disjoint numbers with remap=False, copy=True / False); substructure with both
recalculate_hydrogens values (False only for bond-closed atom sets, what split() does), `&`, `-`, augmented_substructure; every public
keyword of explicify / implicify / kekule / thiele and of the further mutators (X_VARIANTS).  Before the hydrogen / aromaticity kinds and
the further mutators EVERY memoised member of the class is read (oracles/o13_allkeys: the list is taken from the class) and compared
afterwards (tree: half of these steps, random histories: 70 %).  Half of the corpus molecules carry seeded 2D coordinates (so that
calculate_cis_trans_from_2d and the depiction cache take part).  Further domains: bounded/d13_extra.py (parts X, T, K).

Between operations a seeded subset of the derived views is read (sometimes none, sometimes all) so that a stale cache entry is
observable; after every operation ALL views are compared with a molecule rebuilt from scratch through add_atom/add_bond with the
same atoms, bonds, hydrogen counts, stereo labels and insertion order (`oracles/o13_views.rebuilt`).

Contracts (from the statement):
  coherent      every view of `o13_views.VIEWS`, every label written by calc_labels, on the edited molecule == on the rebuilt one;
                the stereo labels are a fixed point of fix_stereo() on the rebuilt one (no label on a non-stereogenic centre);
                `_changed is None and _backup is None` outside a transaction
  adjacency     same key sets in _atoms/_bonds, `_bonds[a][b] is _bonds[b][a]`
  frame         the operation changed exactly the atoms/bonds it names (expected graph computed independently from the pre-state);
                stereo labels survive operations that leave every centre's environment alone (add_atom, remap, union, copy,
                whole-component substructure, explicify/implicify, failed transaction)
  hydrogens     atoms named by the operation get the count a fresh molecule computes; every other atom keeps its count or gets the
                fresh one; explicify/implicify/thiele keep the per-atom / total hydrogen count
  atomic        a `with` block that raises restores the exact raw state (atoms, adjacency incl. insertion order, meta, name,
                pending-change set), `_backup is None`, and the molecule stays usable
  independent   copy / substructure / `a | b` share no atom, bond, neighbour dict, coordinate vector or meta dict with the
                source; the source is unchanged by anything done later to the result; the result is editable
                (add_atom, add_bond, `with`)
  exceptions    only the documented ones, only when their precondition holds (see `DOC_EXC`), molecule unchanged and coherent

Violation key: the root-cause family `stale:<view>@<mutator>`, `exc:<Class>@<mutator>`, `frame:<what>@<mutator>` ... ; the witness
is the shortest failing history `history:<seed>:<op1;op2;...>` of that family (many histories share one root cause).
"""
import hashlib
import random
import time

from vlib import env
from vlib.report import pmap

RULE = ('bounded: operation-kind sequences <= 3/4 on 7 seed molecules (exhaustive in kinds, seeded parameters) + seeded random '
        'histories of length 30 on corpus molecules; all derived views vs an independent rebuild after every operation; '
        'every (mutator outside engine F, keyword combination) with the whole cache warm; transaction blocks (flat, nested, exception sources) '
        'vs a model; copies / substructures / unions from warm and cold sources with every keep_* flag')

SEEDS = [('ethanol', 'CCO'), ('benzene', 'c1ccccc1'), ('pyridine', 'c1ccncc1'), ('cpca', 'OC(=O)C1CC1'),
         ('stereocentre', 'C[C@H](N)O'), ('alkene', 'C/C=C/C'), ('salt', '[Na+].[O-]C')]
OTHERS = ['O', 'CO', '[Na+]', 'C=C', 'C[C@H](N)O']
KINDS = ('add_atom', 'add_bond', 'delete_atom', 'delete_bond', 'charge', 'radical', 'fail', 'remap', 'union_or', 'union_inplace',
         'sub', 'copy', 'explicify', 'implicify', 'kekule', 'thiele')
FAIL_VARIANTS = ('add', 'del_atom', 'del_bond', 'charge', 'meta', 'mix')
# remaining public mutators of DESIGN 1.6 (engine F's list) - random histories only, only on valence-valid molecules
EXT_KINDS = ('x_standardize', 'x_canonicalize', 'x_fix_resonance', 'x_neutralize', 'x_standardize_charges', 'x_clean_stereo',
             'x_clean_isotopes', 'x_remove_metals', 'x_remove_acids', 'x_split_metal_salts', 'x_remove_coordinate_bonds',
             'x_calculate_cis_trans_from_2d', 'x_flush_cache', 'x_fix_structure', 'x_calc_labels', 'x_fix_stereo')
_TF = (True, False)
# every public keyword of the mutators above (the histories choose one combination by seed; bounded/d13_extra.py runs all of them)
X_VARIANTS = {
    'x_canonicalize': [dict(fix_tautomers=a, keep_kekule=b, logging=c) for a in _TF for b in _TF for c in _TF],
    'x_standardize': [dict(fix_tautomers=a, logging=c) for a in _TF for c in _TF],
    'x_standardize_charges': [dict(prepare_molecule=a, logging=c) for a in _TF for c in _TF],
    'x_neutralize': [dict(keep_charge=a, logging=c) for a in _TF for c in _TF],
    'x_fix_resonance': [dict(logging=c) for c in _TF],
    'x_remove_metals': [dict(logging=c) for c in _TF],
    'x_remove_acids': [dict(logging=c) for c in _TF],
    'x_split_metal_salts': [dict(logging=c) for c in _TF],
    'x_remove_coordinate_bonds': [dict(keep_to_terminal=c) for c in _TF],
    'x_calculate_cis_trans_from_2d': [dict(), dict(clean_cache=True)],
    'x_flush_cache': [dict(keep_sssr=a, keep_components=b) for a in _TF for b in _TF],  # without an edit: must change nothing observable
    'x_fix_structure': [dict(), dict(recalculate_hydrogens=False)],  # public; named by the property among the mutators that must invalidate
    'implicify': [dict(), dict(logging=True)],
    'explicify': [dict(), dict(start_map='max+1'), dict(start_map='max+40')],
    'thiele': [dict(), dict(fix_tautomers=False)],
    'kekule': [dict(), dict(buffer_size=2)],
}
ALLKEY_KINDS = ('implicify', 'explicify', 'kekule', 'thiele')  # + every x_ kind: histories warm EVERY cached member before them

# documented exceptions: op kind -> [(class name, precondition key, text)]; legitimate only when the precondition holds on the pre-state
_AROM = ('InvalidAromaticRing', 'aromatic', 'the molecule has aromatic (order 4) bonds - raised when no Kekule form exists')
_HVAL = ('ValenceError', 'bad-hydrogen', 'some hydrogen atom has more than one bond or a non-single bond ("Hydrogen atom n has invalid valence")')
DOC_EXC = {
    'kekule': [_AROM],
    'explicify': [('ValenceError', 'undefined-h', 'some atom has an undefined hydrogen count ("atom n has valence error")')],
    'implicify': [_HVAL],
    'x_canonicalize': [_AROM, _HVAL],  # canonicalize = kekule + standardize + implicify_hydrogens + thiele
}


class _Boom(Exception):
    pass


def _imports():
    global V, K, parse, smiles, MoleculeContainer
    from oracles import o13_views as V
    from oracles import o13_allkeys as K
    from bounded.domains import parse
    from chython import smiles, MoleculeContainer


# ---------------------------------------------------------------------------------------------------------------------------
# plain graph state, independent expectations
# ---------------------------------------------------------------------------------------------------------------------------
def gstate(m):
    return ({n: (a.atomic_number, a.isotope, a.charge, a.is_radical) for n, a in m._atoms.items()},
            {frozenset((n, k)): b.order for n, k, b in m.bonds()})


def hstate(m):
    return {n: a.implicit_hydrogens for n, a in m._atoms.items()}


def total_h(m):
    """per heavy atom: implicit + explicit hydrogens (None when undefined)"""
    out = {}
    for n, a in m._atoms.items():
        if a.atomic_number == 1:
            continue
        h = a.implicit_hydrogens
        out[n] = None if h is None else h + sum(1 for k in m._bonds[n] if m._atoms[k].atomic_number == 1)
    return out


def op_text(op):
    k = op[0]
    if k == 'remap':
        return 'remap(' + ','.join(f'{a}>{b}' for a, b in op[1]) + ')'
    if k == 'sub':
        return 'sub(' + ','.join(map(str, op[1])) + ''.join(f';{x}' for x in op[2:]) + ')'
    if len(op) == 2 and isinstance(op[1], tuple) and (k.startswith('x_') or k in X_VARIANTS):
        return k + '(' + ','.join(f'{a}={b}' for a, b in op[1]) + ')'
    return k + ('(' + ','.join(str(x) for x in op[1:]) + ')' if len(op) > 1 else '')


def history_key(seed, ops):
    return f'history:{seed}:' + ';'.join(op_text(o) for o in ops)


# ---------------------------------------------------------------------------------------------------------------------------
# parameter candidates of every kind on the current molecule
# ---------------------------------------------------------------------------------------------------------------------------
ADD_SPECS = ('C', 'N', 'O', 'N+', 'O-', '13C', 'C.', 8, 16)  # symbol, Element object (charge / isotope / radical), atomic number


def _element(spec):
    """(argument for add_atom, expected (Z, isotope, charge, radical))"""
    from chython.periodictable import Element
    if isinstance(spec, int):
        return spec, (spec, None, 0, False)
    z = {'C': 6, 'N': 7, 'O': 8}
    if spec in z:
        return spec, (z[spec], None, 0, False)
    if spec == 'N+':
        return Element.from_symbol('N')(charge=1), (7, None, 1, False)
    if spec == 'O-':
        return Element.from_symbol('O')(charge=-1), (8, None, -1, False)
    if spec == '13C':
        return Element.from_symbol('C')(13), (6, 13, 0, False)
    if spec == 'C.':
        return Element.from_symbol('C')(is_radical=True), (6, None, 0, True)
    raise AssertionError(spec)


def _free_numbers(atoms):
    """explicit atom numbers for add_atom: a gap above the maximum, a number > 999, the lowest unused number (below the maximum if any)"""
    mx = max(atoms, default=0)
    low = next(i for i in range(1, mx + 2) if i not in atoms)
    return sorted({mx + 7, mx + 1000, low})


def _ball(m, core, deep):
    """independent expectation of augmented_substructure: atoms within `deep` bonds of the core"""
    cur = set(core)
    for _ in range(deep):
        cur |= {k for n in cur for k in m._bonds[n]}
    return cur


def candidates(m, kind, rng):
    atoms = list(m._atoms)
    if kind == 'add_atom':
        return [('add_atom', e) for e in ADD_SPECS] + [('add_atom', e, n) for e in ('C', 'N+') for n in _free_numbers(m._atoms)]
    if kind == 'add_bond':
        return [('add_bond', a, b, o) for i, a in enumerate(atoms) for b in atoms[i + 1:] if b not in m._bonds[a]
                for o in (1, 2, 1, 2, 3, 8, 'B1', 'B2')]
    if kind == 'delete_atom':
        return [('delete_atom', n) for n in atoms] if len(atoms) > 1 else []
    if kind == 'delete_bond':
        return [('delete_bond', a, b) for a, b, _ in m.bonds()]
    if kind == 'charge':
        return [('charge', n, c) for n in atoms for c in (-1, 0, 1, -1, 0, 1, -2, 2) if c != m._atoms[n].charge]
    if kind == 'radical':
        out = [('radical', n) for n in atoms] * 2
        for n in atoms:
            a = m._atoms[n]
            iso = sorted(a.isotopes_distribution)
            out.append(('isotope', n, None if a.isotope is not None else iso[-1]))
        return out
    if kind == 'fail':
        return [('fail', v, rng.choice(atoms)) for v in FAIL_VARIANTS]
    if kind == 'remap':
        out = []
        for shift in (0, 10, 1000):
            t = [n + shift for n in atoms]
            rng.shuffle(t)
            out.append(('remap', tuple(zip(atoms, t))))
        mx = max(atoms)
        out.append(('remap', tuple((n, 2 * mx + 1 - n) for n in atoms)))  # descending: insertion order != numeric order
        part = rng.sample(atoms, max(1, len(atoms) // 2))  # partial mapping: the other atoms keep their numbers
        out.append(('remap', tuple((n, mx + 3 + 2 * i) for i, n in enumerate(part))))
        return out
    if kind in ('union_or', 'union_inplace'):
        return [(kind, s) for s in OTHERS] + [(kind, s, 'disjoint') for s in OTHERS] + [(kind, s, 'operator') for s in OTHERS]
    if kind == 'sub':
        out = set()
        for _ in range(6):
            k = rng.randint(1, max(1, len(atoms) - 1))
            out.add(tuple(sorted(rng.sample(atoms, k))))
        for c in m.copy().connected_components:  # whole components too (split() does that)
            out.add(tuple(sorted(c)))
        out = sorted(out)
        # recalculate_hydrogens=False carries the stored counts over: meaningful only when no bond is cut (what split() does)
        closed = [s for s in out if all(set(m._bonds[n]) <= set(s) for n in s)]
        res = [('sub', s) for s in out] + [('sub', s, 'keep-h') for s in closed] + [('sub', s, 'and') for s in out[:2]]
        res += [('sub', s, 'minus') for s in out[:2] if len(s) < len(atoms)]
        res += [('sub', s, 'aug', d) for s in out[:2] for d in (1, 2)]
        return res
    if kind in X_VARIANTS:
        return [(kind, tuple(sorted(v.items()))) if v else (kind,) for v in X_VARIANTS[kind]]
    return [(kind,)]


def choose(m, kind, rng, width):
    c = candidates(m, kind, rng)
    rng.shuffle(c)
    if kind in X_VARIANTS:  # keyword variants of one parameterless mutator: one seeded variant per node (all of them: part X)
        width = 1
    return c[:width]


# ---------------------------------------------------------------------------------------------------------------------------
# one operation with its own contract
# ---------------------------------------------------------------------------------------------------------------------------
class Outcome:
    __slots__ = ('obj', 'expect', 'hmap', 'must', 'hmode', 'fresh', 'sources', 'problems', 'raised', 'note', 'stereo')

    def __init__(self, obj):
        self.obj = obj          # molecule the history continues on
        self.expect = None      # expected (atoms, bonds) graph state of obj, or None
        self.hmap = None        # post atom -> pre atom (None: new atom); None = identity on common atoms
        self.must = set()       # atoms whose hydrogen count must be the freshly computed one
        self.hmode = 'default'  # default | total | sum | skip
        self.fresh = []         # (label, source molecules) : obj is a new object that must be independent of these
        self.sources = []       # (label, molecule) to watch from now on
        self.problems = []
        self.raised = None
        self.note = None
        self.stereo = None      # expected stereo labels ({atom: sign}, {pair: sign}) where the operation must keep them


def fix_structure_changes_hydrogens(m, kw):
    """predicate on the input of fix_structure(): some stored hydrogen count differs from the one calc_implicit computes (aromatic
    heteroatoms of a Thiele form, atoms of a substructure made with recalculate_hydrogens=False): the call then CHANGES the molecule"""
    if kw.get('recalculate_hydrogens') is False:
        return False
    c = m.copy()
    for n in c._atoms:
        c.calc_implicit(n)
    return any(a.implicit_hydrogens != m._atoms[n].implicit_hydrogens for n, a in c._atoms.items())


def collapse(probs, tag):
    """one family for one root cause that many views notice (the family is decided by a predicate on the input, see the callers)"""
    st = [(f, d) for f, d in probs if f.startswith('stale:')]
    if not st:
        return probs
    rest = [(f, d) for f, d in probs if not f.startswith('stale:')]
    return rest + [('stale:views', f'{len(st)} derived values out of date ({", ".join(f[6:] for f, _ in st)[:200]}): {st[0][1]}')]


def _has_aromatic(m):
    return any(b.order == 4 for _, _, b in m.bonds())


def _doc_precondition(key, m):
    if key == 'aromatic':
        return _has_aromatic(m)
    if key == 'undefined-h':
        return any(a.implicit_hydrogens is None for a in m._atoms.values())
    if key == 'bad-hydrogen':
        for n, a in m._atoms.items():
            if a.atomic_number == 1 and (len(m._bonds[n]) > 1 or any(b.order not in (1, 8) for b in m._bonds[n].values())):
                return True
        return False
    raise AssertionError(key)


def apply_op(m, op):
    """run one operation on m (in place or producing a new object); returns Outcome"""
    kind = op[0]
    atoms0, bonds0 = gstate(m)
    out = Outcome(m)
    raw0 = V.raw_snapshot(m)
    st_a, st_b = V.stereo_labels(m)
    try:
        if kind == 'add_atom':
            arg, rec = _element(op[1])
            n = m.add_atom(arg, op[2]) if len(op) > 2 else m.add_atom(arg)
            if n != (op[2] if len(op) > 2 else max(atoms0, default=0) + 1):
                out.problems.append(('frame:new-atom-number', f'add_atom returned {n}'))
            atoms0[n] = rec
            out.expect = (atoms0, bonds0)
            out.must = {n}
            out.stereo = (st_a, st_b)  # an isolated new atom changes no centre
        elif kind == 'add_bond':
            _, a, b, o = op
            if isinstance(o, str):  # a Bond object instead of an order
                from chython.containers.bonds import Bond
                o = int(o[1:])
                m.add_bond(a, b, Bond(o))
            else:
                m.add_bond(a, b, o)
            bonds0[frozenset((a, b))] = o
            out.expect = (atoms0, bonds0)
            out.must = {a, b} if o != 8 else set()  # a coordinate bond changes no hydrogen count
            if o == 8:
                out.hmode = 'same'
                out.stereo = (st_a, st_b)  # "any bond doesn't change hydrogens and stereo" (add_bond)
        elif kind == 'delete_atom':
            n = op[1]
            nb = {k for k, b in m._bonds[n].items() if b.order != 8}  # a coordinate bond carries no hydrogen bookkeeping
            m.delete_atom(n)
            del atoms0[n]
            out.expect = (atoms0, {k: v for k, v in bonds0.items() if n not in k})
            out.must = nb
        elif kind == 'delete_bond':
            _, a, b = op
            m.delete_bond(a, b)
            out.must = {a, b} if bonds0[frozenset((a, b))] != 8 else set()
            del bonds0[frozenset((a, b))]
            out.expect = (atoms0, bonds0)
        elif kind == 'charge':
            _, n, c = op
            with m:
                m.atom(n).charge = c
            z, i, _, r = atoms0[n]
            atoms0[n] = (z, i, c, r)
            out.expect = (atoms0, bonds0)
            out.must = {n}
        elif kind == 'radical':
            n = op[1]
            with m:
                m.atom(n).is_radical = not m.atom(n).is_radical
            z, i, c, r = atoms0[n]
            atoms0[n] = (z, i, c, not r)
            out.expect = (atoms0, bonds0)
            out.must = {n}
        elif kind == 'isotope':
            _, n, iso = op
            with m:
                m.atom(n).isotope = iso
            z, _, c, r = atoms0[n]
            atoms0[n] = (z, iso, c, r)
            out.expect = (atoms0, bonds0)  # hydrogens: default contract (every atom keeps its count or gets the fresh one)
        elif kind == 'fail':
            _, variant, a = op
            try:
                with m:
                    if variant in ('add', 'mix'):
                        x = m.add_atom('N')
                        m.add_bond(x, a, 1)
                    if variant in ('charge', 'mix'):
                        m.atom(a).charge = 1 if m.atom(a).charge != 1 else 0
                        m.atom(a).is_radical = not m.atom(a).is_radical
                    if variant in ('meta', 'mix'):
                        m.meta['edited'] = 'inside'
                        m.name = 'edited'
                    if variant in ('del_bond', 'mix') and m._bonds[a]:
                        m.delete_bond(a, next(iter(m._bonds[a])))
                    if variant in ('del_atom', 'mix'):
                        m.delete_atom(a)
                    raise _Boom
            except _Boom:
                pass
            raw1 = V.raw_snapshot(m)
            for f in V.snapshot_diff(raw0, raw1):
                out.problems.append((f'atomic:{f}-not-restored', f'{f}: before {raw0[f]!r} after {raw1[f]!r}'))
            if m._backup is not None:
                out.problems.append(('atomic:backup-kept', '_backup is not None after a failed transaction'))
            out.expect = (atoms0, bonds0)
            out.hmode = 'same'
            out.stereo = (st_a, st_b)
        elif kind == 'remap':
            mp = dict(op[1])
            m.remap(mp)
            mp = {n: mp.get(n, n) for n in atoms0}  # atoms not named keep their number
            out.expect = ({mp[n]: v for n, v in atoms0.items()}, {frozenset(mp[x] for x in k): v for k, v in bonds0.items()})
            out.hmap = {v: k for k, v in mp.items()}
            out.hmode = 'same'
            out.stereo = ({mp[n]: v for n, v in st_a.items()}, {frozenset(mp[x] for x in k): v for k, v in st_b.items()})
        elif kind in ('union_or', 'union_inplace'):
            other = parse(op[1])
            oraw = V.raw_snapshot(other)
            oa, ob = gstate(other)
            oh = hstate(other)
            how = op[2] if len(op) > 2 else 'remap'
            if how == 'disjoint':  # numbers made disjoint beforehand, remap=False
                base = max(max(atoms0), max(oa)) + 50
                other.remap({n: base + 3 * i for i, n in enumerate(reversed(list(oa)))})
                oraw = V.raw_snapshot(other)
                oa, ob = gstate(other)
                oh = hstate(other)
                u = m.union(other, remap=False, copy=kind == 'union_or')
            elif how == 'operator' and kind == 'union_inplace':
                u = m
                u |= other
            elif how == 'operator':
                u = m.union(other, remap=True)  # copy=True is the default
            else:
                u = (m | other) if kind == 'union_or' else m.union(other, remap=True, copy=False)
            if kind == 'union_inplace' and u is not m:
                out.problems.append(('frame:union-inplace-returns-other-object', 'union(copy=False) did not return self'))
            if kind == 'union_or' and u is m:
                out.problems.append(('independent:union-returns-self', 'a | b returned a'))
            if set(atoms0) & set(oa):
                mp = {n: i for i, n in enumerate(oa, start=max(atoms0) + 1)}
            else:
                mp = {n: n for n in oa}
            ea = dict(atoms0)
            ea.update({mp[n]: v for n, v in oa.items()})
            eb = dict(bonds0)
            eb.update({frozenset(mp[x] for x in k): v for k, v in ob.items()})
            out.obj = u
            out.expect = (ea, eb)
            out.hmode = 'same'
            osa, osb = V.stereo_labels(other)
            out.stereo = ({**st_a, **{mp[n]: v for n, v in osa.items()}}, {**st_b, **{frozenset(mp[x] for x in k): v for k, v in osb.items()}})
            out.note = ('union', {mp[n]: h for n, h in oh.items()})
            if V.snapshot_diff(oraw, V.raw_snapshot(other)):
                out.problems.append(('independent:union-changed-argument', f'other {op[1]} changed by union'))
            out.fresh = [('argument', other)] + ([('source', m)] if u is not m else [])
            if u is not m:
                out.sources = [('union-source', m)]
        elif kind == 'sub':
            keep = set(op[1])
            how = op[2] if len(op) > 2 else 'default'
            if how == 'keep-h':
                s = m.substructure(list(op[1]), recalculate_hydrogens=False)
                out.hmode = 'same'  # the stored counts are carried over
            elif how == 'and':
                s = m & set(op[1])
            elif how == 'minus':
                s = m - [n for n in atoms0 if n not in keep]
            elif how == 'aug':
                keep = _ball(m, op[1], op[3])
                s = m.augmented_substructure(op[1], deep=op[3])
            else:
                s = m.substructure(list(op[1]))
            out.obj = s
            out.expect = ({n: v for n, v in atoms0.items() if n in keep}, {k: v for k, v in bonds0.items() if k <= keep})
            if how != 'keep-h':
                out.must = set(keep)  # recalculate_hydrogens=True (default): "calculate implicit H count in substructure"
            if all(set(m._bonds[n]) <= keep for n in keep):  # whole components (what split() does): every centre keeps its environment
                out.stereo = ({n: v for n, v in st_a.items() if n in keep}, {k: v for k, v in st_b.items() if k <= keep})
            out.fresh = [('source', m)]
            out.sources = [('substructure-source', m)]
        elif kind == 'copy':
            c = m.copy()
            out.obj = c
            out.expect = (atoms0, bonds0)
            out.hmode = 'same'
            out.stereo = (st_a, st_b)
            d = V.snapshot_diff(raw0, V.raw_snapshot(c))
            for f in d:
                out.problems.append((f'independent:copy-differs-{f}', f'copy differs from source in {f}'))
            if V.labels_snapshot(c) != V.labels_snapshot(m):
                out.problems.append(('independent:copy-differs-labels', 'labels of the copy differ'))
            out.fresh = [('source', m)]
            out.sources = [('copy-source', m)]
        elif kind == 'explicify':
            th = total_h(m)
            h0 = hstate(m)
            kw = dict(op[1]) if len(op) > 1 else {}
            nxt = max(atoms0, default=0) + 1
            if 'start_map' in kw:
                nxt = kw['start_map'] = max(atoms0, default=0) + int(kw['start_map'][3:])
            k = m.explicify_hydrogens(**kw)
            for n, h in h0.items():
                for _ in range(h):
                    atoms0[nxt] = (1, None, 0, False)
                    bonds0[frozenset((n, nxt))] = 1
                    nxt += 1
            out.expect = (atoms0, bonds0)
            out.hmode = 'total'
            out.note = ('total', th)
            out.stereo = (st_a, st_b)  # signs refer to the heavy neighbours, which do not change
            if k != sum(h0.values()):
                out.problems.append(('frame:explicify-count', f'returned {k}, hydrogens {sum(h0.values())}'))
            for n, h in hstate(m).items():
                if h != 0:
                    out.problems.append(('frame:explicify-left-implicit', f'atom {n} still has {h} implicit hydrogens'))
                    break
        elif kind == 'implicify':
            th = total_h(m)
            kw = dict(op[1]) if len(op) > 1 else {}
            k = m.implicify_hydrogens(**kw)
            if kw.get('logging'):
                k = k[0]
            a1, b1 = gstate(m)
            gone = set(atoms0) - set(a1)
            bad = [n for n in gone if atoms0[n][0] != 1 or atoms0[n][1] not in (None, 1)
                   or sum(1 for e in bonds0 if n in e) != 1]
            if bad or k != len(gone) or set(a1) - set(atoms0):
                out.problems.append(('frame:implicify-removed-non-hydrogen', f'removed {sorted(gone)} returned {k}'))
            out.expect = ({n: v for n, v in atoms0.items() if n not in gone},
                          {e: v for e, v in bonds0.items() if not (e & gone)})
            out.hmode = 'total'
            out.note = ('total', th)
            if not any(atoms0[n][2] or atoms0[n][3] for n in gone):  # a removed charged / radical hydrogen changes its centre's environment
                # the signs refer to the heavy neighbours, which do not change; a centre whose arms differed only in explicit vs implicit
                # hydrogens stops being stereogenic: expected = the old labels that fix_stereo() keeps on a fresh rebuild of the result
                r = V.rebuild_ordered(m)
                for n, sg in st_a.items():
                    if n in r._atoms:
                        r._atoms[n]._stereo = sg
                for e, sg in st_b.items():
                    x, y = tuple(e)
                    if x in r._bonds and y in r._bonds[x]:
                        r._bonds[x][y]._stereo = sg
                r.flush_cache()
                r.fix_stereo()
                out.stereo = V.stereo_labels(r)
        elif kind == 'kekule':
            arom = {n for e, o in bonds0.items() if o == 4 for n in e}
            m.kekule(**(dict(op[1]) if len(op) > 1 else {}))
            a1, b1 = gstate(m)
            if set(b1) != set(bonds0) or {n: v[:2] + v[3:] for n, v in a1.items()} != {n: v[:2] + v[3:] for n, v in atoms0.items()}:
                out.problems.append(('frame:kekule-changed-graph', 'kekule changed atoms or the set of bonded pairs'))
            if any(o == 4 for o in b1.values()):
                out.problems.append(('frame:kekule-left-aromatic', 'aromatic bonds remain after kekule() returned'))
            if any(b1[e] != o for e, o in bonds0.items() if o != 4 and not (e & arom)):
                out.problems.append(('frame:kekule-changed-other-bond', 'a bond away from aromatic atoms changed order'))
            out.must = arom
        elif kind == 'thiele':
            h0 = hstate(m)
            m.thiele(**(dict(op[1]) if len(op) > 1 else {}))
            a1, b1 = gstate(m)
            if set(b1) != set(bonds0) or a1 != atoms0:
                out.problems.append(('frame:thiele-changed-graph', 'thiele changed atoms or the set of bonded pairs'))
            out.hmode = 'sum'
            out.note = ('sum', h0)
        elif kind.startswith('x_'):
            kw = dict(op[1]) if len(op) > 1 else {}
            if kind == 'x_fix_structure' and fix_structure_changes_hydrogens(m, kw):
                out.note = ('collapse', 'fix_structure:changes-hydrogens')
            getattr(m, kind[2:])(**kw)
            out.hmode = 'skip'
            if kind == 'x_flush_cache':  # no edit in between: nothing observable may change
                out.expect = (atoms0, bonds0)
                out.hmode = 'same'
                out.stereo = (st_a, st_b)
        else:
            raise AssertionError(kind)
    except _Boom:
        raise
    except Exception as e:
        out.raised = type(e).__name__
        pre = _Pre(atoms0, bonds0, raw0)
        if any(c == out.raised and _doc_precondition(k, pre) for c, k, _ in DOC_EXC.get(kind, ())):
            out.note = ('documented-exception', out.raised)
            out.hmode = 'skip'
            if kind in ('explicify', 'implicify'):  # raised before any change
                out.expect = (atoms0, bonds0)
        else:
            import traceback
            tb = traceback.extract_tb(e.__traceback__)
            where = next((f'{f.filename.split("/chython/")[-1]}:{f.name}' for f in reversed(tb) if '/chython/' in f.filename), '?')
            out.problems.append((f'exc:{out.raised}', f'{out.raised}: {e} at {where}'))
            out.hmode = 'skip'
    return out


class _Pre:
    """pre-state view good enough for _doc_precondition (the molecule itself may have been changed before the raise)"""

    def __init__(self, atoms, bonds, raw):
        class A:
            __slots__ = ('atomic_number', 'implicit_hydrogens')
        self._atoms = {}
        for rec in raw['atoms']:
            a = A()
            a.atomic_number, a.implicit_hydrogens = rec[1], rec[5]
            self._atoms[rec[0]] = a

        class B:
            __slots__ = ('order',)
        self._bonds = {n: {} for n in self._atoms}
        self._blist = []
        for e, o in bonds.items():
            x, y = tuple(e)
            b = B()
            b.order = o
            self._bonds[x][y] = self._bonds[y][x] = b
            self._blist.append((x, y, b))

    def bonds(self):
        return iter(self._blist)


# ---------------------------------------------------------------------------------------------------------------------------
# generic post-conditions
# ---------------------------------------------------------------------------------------------------------------------------
def coherence(m, names=None, allkeys=False):
    """compare views / labels / stereo of m with the independent rebuild; returns (problems, calc hydrogens, views read)
    allkeys: additionally EVERY memoised member of the class (oracles/o13_allkeys) is read on both and compared"""
    probs = []
    for d in V.adjacency_defects(m):
        probs.append(('adjacency', d))
    if probs:
        return probs, None, None  # the rebuild needs a well-formed adjacency
    if m._changed is not None:
        probs.append(('state:_changed-pending', f'_changed = {m._changed!r} outside a transaction'))
    if m._backup is not None:
        probs.append(('state:_backup-kept', '_backup is not None outside a transaction'))
    r, calc = V.rebuilt(m)
    names = V.VIEW_NAMES if names is None else names
    mine = V.read_views(m, names)
    ref = V.read_views(r, names)
    for k in names:
        if mine[k] != ref[k]:
            probs.append((f'stale:{k}', f'{k}: molecule {_short(mine[k])} rebuilt {_short(ref[k])}'))
    if allkeys:
        stale = {f for f, _ in probs}
        alias = {'__str__()': 'str', '__hash__()': 'str', 'smiles_atoms_order': 'str'}  # one memo family: reported once, as the view
        for k, a, b in K.compare(m, r):
            if f'stale:{alias.get(k, k)}' not in stale:  # a member that is also a view is reported once, under the view's family
                probs.append((f'stale:{k}' if k in V.VIEWS else f'stale:key.{k}', f'{k}: molecule {_short(a)} rebuilt {_short(b)}'))
    (la, lb), (ra, rb) = V.labels_snapshot(m), V.labels_snapshot(r)
    fields = ('hybridization', 'in_ring', 'ring_sizes', 'neighbors', 'heteroatoms', 'explicit_hydrogens')
    for i, f in enumerate(fields):
        bad = [n for n in la if la[n][i] != ra[n][i]]
        if bad:
            probs.append((f'stale:label.{f}', f'{f} of atoms {bad[:4]}: {[la[n][i] for n in bad[:4]]} rebuilt {[ra[n][i] for n in bad[:4]]}'))
    bad = [sorted(e) for e in lb if lb[e] != rb[e]]
    if bad:
        probs.append(('stale:label.bond_in_ring', f'bond in_ring of {bad[:4]}'))
    s0 = V.stereo_labels(r)
    r.fix_stereo()
    s1 = V.stereo_labels(r)
    if s0 != s1:
        lost = sorted(set(s0[0]) - set(s1[0])) + [sorted(e) for e in set(s0[1]) - set(s1[1])]
        probs.append(('stale:stereo-label-on-non-stereogenic', f'labels {lost} are dropped by fix_stereo() on the rebuilt molecule'))
    return probs, calc, mine


def _short(v):
    s = repr(v)
    return s if len(s) < 160 else s[:157] + '...'


def hydrogens(out, h_pre, m, calc):
    """hydrogen contract of one operation"""
    if out.hmode == 'skip' or calc is None:
        return []
    post = hstate(m)
    if out.hmode == 'total':
        th0 = out.note[1]
        th1 = total_h(m)
        bad = [n for n in th1 if n in th0 and th0[n] is not None and th0[n] != th1[n]]
        return [('stale:implicit_hydrogens', f'implicit+explicit hydrogens of atoms {bad[:4]} changed '
                                               f'{[th0[n] for n in bad[:4]]} -> {[th1[n] for n in bad[:4]]}')] if bad else []
    if out.hmode == 'sum':
        h0 = out.note[1]
        if None in h0.values() or None in post.values():
            return []
        return [('stale:implicit_hydrogens', f'total hydrogens {sum(h0.values())} -> {sum(post.values())}')] \
            if sum(h0.values()) != sum(post.values()) else []
    pre = dict(h_pre)
    if out.note and out.note[0] == 'union':
        pre.update(out.note[1])
    bad = []
    for n, h in post.items():
        p = out.hmap.get(n, None) if out.hmap is not None else n
        if out.hmode == 'same':
            allowed = {pre[p]} if p in pre else {calc[n]}
        elif n in out.must:
            allowed = {calc[n]}
        else:
            allowed = {calc[n]} | ({pre[p]} if p in pre else set())
        if h not in allowed:
            bad.append((n, h, sorted(allowed, key=repr)))
    return [('stale:implicit_hydrogens', f'(atom, count, allowed): {bad[:4]}')] if bad else []


def independence(obj, sources):
    probs = []
    ids = V.object_ids(obj)
    for label, s in sources:
        if s is obj:
            continue
        sh = ids & V.object_ids(s)
        if sh:
            kinds = sorted({_kind_of(s, i) for i in sh})
            probs.append((f'shared:{"+".join(kinds)}', f'{len(sh)} objects shared with the {label}: {kinds}'))
        xy = {id(a._xy) for a in obj._atoms.values()} & {id(a._xy) for a in s._atoms.values()}
        if xy:
            probs.append(('shared:xy', f'{len(xy)} coordinate vectors shared with the {label}'))
        rs = {id(a._ring_sizes) for a in obj._atoms.values()} & {id(a._ring_sizes) for a in s._atoms.values()}
        if rs:
            probs.append(('shared:ring_sizes', f'{len(rs)} ring_sizes sets shared with the {label}'))
    return probs


def _kind_of(m, i):
    if i == id(m._atoms) or i == id(m._bonds):
        return 'dict'
    if m._meta is not None and i == id(m._meta):
        return 'meta'
    if any(id(a) == i for a in m._atoms.values()):
        return 'atom'
    if any(id(mb) == i for mb in m._bonds.values()):
        return 'neighbour-dict'
    return 'bond'


def probe_transaction(obj):
    """editable: `with`, add_atom, add_bond, attribute change work on obj; the failing block restores it exactly"""
    raw0 = V.raw_snapshot(obj)
    a = next(iter(obj._atoms))
    try:
        with obj:
            x = obj.add_atom('C')
            obj.add_bond(x, a, 1)
            obj.atom(a).charge = 1 if obj.atom(a).charge != 1 else 0
            raise _Boom
    except _Boom:
        pass
    except Exception as e:
        return [(f'editable:{type(e).__name__}', f'transaction probe raised {type(e).__name__}: {e}')]
    d = V.snapshot_diff(raw0, V.raw_snapshot(obj))
    out = [(f'atomic:{f}-not-restored', f'probe transaction: {f} not restored') for f in d]
    if obj._backup is not None:
        out.append(('atomic:backup-kept', 'probe transaction: _backup kept'))
    return out


def probe_destructive(obj, full=True):
    """usable: edits outside a transaction and a committed transaction work (obj is not needed afterwards)"""
    try:
        a = next(iter(obj._atoms))
        x = obj.add_atom('C')
        obj.add_bond(x, a, 1)
        with obj:
            obj.atom(x).charge = -1
        y = obj.add_atom('O')
        obj.delete_bond(x, a)
        obj.delete_atom(y)
    except Exception as e:
        return [(f'editable:{type(e).__name__}', f'edit probe raised {type(e).__name__}: {e}')], None
    if not full:  # cheap invariants only (the probe's own operations are members of the alphabet and fully checked there)
        p = [('adjacency', d) for d in V.adjacency_defects(obj)]
        if obj._changed is not None or obj._backup is not None:
            p.append(('state:_changed-pending', 'pending change set or backup left after the edit probe'))
        return p, None
    p, calc, _ = coherence(obj)
    return p, calc


# ---------------------------------------------------------------------------------------------------------------------------
# one step of a history
# ---------------------------------------------------------------------------------------------------------------------------
class State:
    __slots__ = ('cur', 'watch', 'views', 'last')

    def __init__(self, cur, watch=(), views=None, last='seed'):
        self.cur, self.watch, self.views, self.last = cur, list(watch), views, last


def pick_reads(rng):
    x = rng.random()
    if x < .12:
        return ()
    if x < .35:
        return V.VIEW_NAMES
    names = [v for v in V.VIEW_NAMES if rng.random() < .3]
    rng.shuffle(names)
    return tuple(names)


def step(st, op, reads, on_copy, full=True, check_names=None, allkeys=False):
    """returns (new State, problems [(family, detail)], changed?)
    allkeys: every memoised member is read before the operation (whole cache warm) and compared with the rebuild afterwards"""
    probs = []
    m = st.cur
    if on_copy:
        src = m
        m = src.copy()
        probs += [(f + '@copy', d) for f, d in independence(m, [('source', src)])]
    for v in reads:  # read-before-mutate
        val = V.read_view(m, v)
        if st.views is not None and v in st.views and val != st.views[v]:
            probs.append((f'stale:{v}@{"copy" if on_copy else st.last}', f'{v} read before {op_text(op)}: {_short(val)} expected {_short(st.views[v])}'))
    kind = op[0]
    if allkeys:
        K.warm(m)
    h_pre = hstate(m)
    g_pre = gstate(m)
    has_radical = any(v[3] for v in g_pre[0].values())
    out = apply_op(m, op)
    obj = out.obj
    tag = kind[2:] if kind.startswith('x_') else kind
    if kind == 'add_bond' and op[3] == 8:
        tag = 'add_bond:coordinate'  # own family: add_bond leaves early for order 8 (no fix_structure / fix_stereo)
    if kind == 'thiele' and has_radical:
        tag = 'thiele:radical'  # own family: aromatisation of radicals (the tautomer repair of condensed pyrroles counts hydrogens it does not have)
    probs += [(f'{f}@{tag}', d) for f, d in out.problems]
    if out.expect is not None:
        g = gstate(obj)
        if g[0] != out.expect[0]:
            diff = sorted(n for n in set(g[0]) | set(out.expect[0]) if g[0].get(n) != out.expect[0].get(n))
            probs.append((f'frame:atoms@{tag}', f'atoms {diff[:5]} differ from the expected result of {op_text(op)}'))
        if g[1] != out.expect[1]:
            diff = [sorted(e) for e in set(g[1]) | set(out.expect[1]) if g[1].get(e) != out.expect[1].get(e)]
            probs.append((f'frame:bonds@{tag}', f'bonds {diff[:5]} differ from the expected result of {op_text(op)}'))
    if out.stereo is not None and not out.raised:
        got = V.stereo_labels(obj)
        if got != out.stereo:
            lost = sorted(set(out.stereo[0]) - set(got[0])) + [sorted(e) for e in set(out.stereo[1]) - set(got[1])]
            probs.append((f'frame:stereo@{tag}', f'stereo labels changed by {op_text(op)}: lost {lost[:4]}, expected {_short(out.stereo)} got {_short(got)}'))
    names = None if full else check_names
    p, calc, views = coherence(obj, names, allkeys=allkeys)
    if out.note and out.note[0] == 'collapse':
        tag = out.note[1]
        p = collapse(p, tag)
    if p and out.raised and out.note and out.note[0] == 'documented-exception':
        # one root cause: the documented exception left the molecule half edited
        p = [(f'partial:{out.raised}', f'{out.raised} raised by {op_text(op)} left the molecule incoherent: ' +
              '; '.join(f for f, _ in p)[:300] + ' | ' + p[0][1])]
    probs += [(f'{f}@{tag}', d) for f, d in p]
    probs += [(f'{f}@{tag}', d) for f, d in hydrogens(out, h_pre, obj, calc)]
    if out.fresh:
        probs += [(f'{f}@{tag}', d) for f, d in independence(obj, out.fresh)]
    if out.fresh or kind == 'fail':
        probs += [(f'{f}@{tag}', d) for f, d in probe_transaction(obj)]
    watch = list(st.watch)
    for label, s in out.sources:
        watch.append((label, s, V.raw_snapshot(s)))
    for label, s, raw in watch:
        d = V.snapshot_diff(raw, V.raw_snapshot(s))
        if d:
            probs.append((f'independent:{label}-changed@{tag}', f'{label} changed in {d} after {op_text(op)} on the result'))
    changed = gstate(obj) != g_pre or obj is not m
    return State(obj, watch, views if full else None, tag), probs, changed


# ---------------------------------------------------------------------------------------------------------------------------
# exhaustive tree
# ---------------------------------------------------------------------------------------------------------------------------
def _seed_molecule(name, smi):
    m = parse(smi)
    m.name = name
    m.meta['seed'] = name
    m.flush_cache()
    return m


def _digest(s):
    return hashlib.blake2b(s.encode(), digest_size=6).digest()


def lay_out(m, key, always=False):
    """seeded 2D coordinates (a function of the text `key` only, so that a replay reproduces them): distinct points in general position.
    With coordinates calculate_cis_trans_from_2d has something to compute and the depiction is a pure reader (no clean2d call)."""
    d = _digest('layout:' + key)
    if not always and d[0] % 2:
        return False
    r = random.Random(d)
    for i, a in enumerate(m._atoms.values()):
        a.x = round(1.3 * (i % 7) + r.uniform(-.4, .4), 4)
        a.y = round(1.1 * (i // 7) + r.uniform(-.4, .4), 4)
    m.flush_cache()
    return True


def _tree_worker(item):
    _imports()
    seed_i, first_i, depth, widths = item
    name, smi = SEEDS[seed_i]
    res = {'n': 0, 'keys': set(), 'samples': [], 'fail': {}, 'exc_ok': {}}
    root = _seed_molecule(name, smi)
    p, _, views = coherence(root)
    if p:
        for f, d in p:
            _record(res, f + '@seed', d, name, smi, [], [], [])
    st0 = State(root, [], views)
    rng0 = random.Random(f'{env.SEED}:{name}:')
    firsts = [op for k in KINDS for op in choose(root, k, rng0, widths[0])]
    if first_i >= len(firsts):
        return _pack(res)
    _descend(res, name, smi, st0, [firsts[first_i]], [], [], depth, widths, on_copy_first=True)
    return _pack(res)


def _pack(res):
    return res['n'], res['keys'], res['samples'], list(res['fail'].values()), res['exc_ok']


def _record(res, family, detail, name, smi, ops, reads, copies):
    old = res['fail'].get(family)
    if old is None or len(ops) < len(old['ops']):
        res['fail'][family] = {'family': family, 'detail': detail, 'seed': name, 'smiles': smi, 'ops': [list(o) for o in ops],
                               'reads': [list(r) for r in reads], 'copies': list(copies), 'count': (old or {}).get('count', 0) + 1}
    else:
        old['count'] += 1


def _descend(res, name, smi, st, ops, reads, copies, depth, widths, on_copy_first):
    """apply ops[-1] to st (on a copy or in place), check, recurse"""
    op = ops[-1]
    rng = random.Random(f'{env.SEED}:{name}:' + ';'.join(op_text(o) for o in ops))
    rd = pick_reads(rng)
    ak = op[0] in ALLKEY_KINDS and rng.random() < .5
    if ak:
        rd = ('ALL-MEMBERS',) + tuple(rd)  # recorded in the witness: replay warms the whole cache too
    st1, probs, changed = step(st, op, rd[1:] if ak else rd, on_copy_first, allkeys=ak)
    reads = reads + [rd]
    copies = copies + [on_copy_first]
    res['n'] += 1
    hk = history_key(name, ops)
    if rd and changed:
        res['keys'].add(_digest(hk))
        if len(res['samples']) < 2 and len(ops) == depth:
            res['samples'].append({'history': hk, 'reads_before_last_op': list(rd)[:6], 'result': V.read_view(st1.cur, 'str')})
    for f, d in probs:
        _record(res, f, d, name, smi, ops, reads, copies)
    if probs:
        return  # shortest failing prefix: do not extend a failing history
    if len(ops) >= depth:
        p, _ = probe_destructive(st1.cur, full=rng.random() < .125)
        for f, d in p:
            _record(res, f + '@edit-probe-after-' + (op[0][2:] if op[0].startswith('x_') else op[0]), d, name, smi, ops, reads, copies)
        return
    w = widths[len(ops)]
    nxt = [o for k in KINDS for o in choose(st1.cur, k, rng, w)]
    rng.shuffle(nxt)
    for i, o in enumerate(nxt):
        last = i == len(nxt) - 1  # the last child continues on the object itself (no copy in between)
        _descend(res, name, smi, st1, ops + [o], reads, copies, depth, widths, on_copy_first=not last)


# ---------------------------------------------------------------------------------------------------------------------------
# random long histories
# ---------------------------------------------------------------------------------------------------------------------------
def _linear_worker(item):
    _imports()
    idx, smi, length = item
    res = {'n': 0, 'keys': set(), 'samples': [], 'fail': {}, 'exc_ok': {}}
    name = f'corpus[{idx}]'
    rng = random.Random(f'{env.SEED}:linear:{idx}:{smi}')
    try:
        m = parse(smi)
    except Exception:
        return _pack(res)
    lay_out(m, smi)
    p, _, views = coherence(m)
    for f, d in p:
        _record(res, f + '@seed', d, name, smi, [], [], [])
    if p:
        return _pack(res)
    st = State(m, [], views)
    ops, reads = [], []
    for i in range(length):
        valid = not st.cur.check_valence()
        kinds = list(KINDS) * 2 + (list(EXT_KINDS) if valid else [])
        if len(st.cur) > 90:  # keep molecules small: prefer shrinking operations
            kinds = ['delete_atom', 'sub', 'implicify', 'delete_bond']
        for _ in range(20):
            k = rng.choice(kinds)
            c = candidates(st.cur, k, rng)
            if c:
                break
        op = rng.choice(c)
        rd = pick_reads(rng)
        ak = (op[0].startswith('x_') or op[0] in ALLKEY_KINDS) and rng.random() < .7
        if op[0] == 'x_fix_structure':
            ak = True  # a known stale-cache family: always checked in full at its own step, never left to a later operation
        full = i % 5 == 4 or i == length - 1 or rng.random() < .3 or ak
        names = tuple(rd) if rd else ('str', 'atoms_order', 'sssr')
        st1, probs, changed = step(st, op, rd, False, full=full, check_names=names, allkeys=ak)
        ops.append(op)
        reads.append((('ALL-MEMBERS',) if ak else ()) + tuple(rd))
        res['n'] += 1
        if rd and changed:
            res['keys'].add(_digest(f'{smi}:{i}:{op_text(op)}'))
        for f, d in probs:
            _record(res, f, d, name, smi, ops, reads, [False] * len(ops))
        if probs:
            return _pack(res)
        st = st1
        if not st.cur._atoms:
            break
    if len(res['samples']) < 1:
        res['samples'].append({'history': history_key(smi, ops)[:300], 'result': str(V.read_view(st.cur, 'str'))[:120]})
    p, _ = probe_destructive(st.cur)
    for f, d in p:
        _record(res, f + '@edit-probe', d, name, smi, ops, reads, [False] * len(ops))
    return _pack(res)


# ---------------------------------------------------------------------------------------------------------------------------
# replay of one witness
# ---------------------------------------------------------------------------------------------------------------------------
def run_history(smi, ops, reads, copies, name=None, corpus=False):
    _imports()
    m = parse(smi) if corpus else _seed_molecule(name or smi, smi)
    if corpus:
        lay_out(m, smi)
    p, _, views = coherence(m)
    fams = [f + '@seed' for f, _ in p]
    st = State(m, [], views)
    for i, op in enumerate(ops):
        op = tuple(tuple(tuple(y) if isinstance(y, list) else y for y in x) if isinstance(x, list) else x for x in op)
        rd = tuple(reads[i]) if i < len(reads) else ()
        ak = bool(rd) and rd[0] == 'ALL-MEMBERS'
        st, probs, _ = step(st, op, rd[1:] if ak else rd, bool(copies[i]) if i < len(copies) else False, allkeys=ak)
        fams += [f for f, _ in probs]
        if probs:
            return fams
    p, _ = probe_destructive(st.cur)
    fams += [f + '@edit-probe' for f, _ in p]
    return fams


def replay(rec):
    w = rec['witness']
    if 'part' in w:  # bounded/d13_extra.py
        from bounded import d13_extra
        return rec['key'] not in d13_extra.replay(w)
    fams = run_history(w['smiles'], w['ops'], w['reads'], w['copies'], name=w.get('seed'), corpus=w.get('seed', '').startswith('corpus['))
    fam = rec['key']
    return not any(f == fam or f.split('@edit-probe')[0] == fam.split('@edit-probe')[0] for f in fams)


# ---------------------------------------------------------------------------------------------------------------------------
def bounded(run):
    _imports()
    from bounded.domains import corpus_smiles, rnd
    quick = run.tier == 'quick'
    trees = [(3, (3, 2, 1))] if quick else [(3, (3, 2, 1)), (4, (2, 1, 1, 1))]
    n_lin = 200 if quick else 5000
    length = 30
    t0 = time.time()
    import os

    def cpu():
        t = os.times()
        return t.user + t.children_user
    c0 = cpu()

    # --- exhaustive trees: one work item per (tree, seed, first operation)
    items = []
    for depth, widths in trees:
        for si, (name, smi) in enumerate(SEEDS):
            root = _seed_molecule(name, smi)
            rng0 = random.Random(f'{env.SEED}:{name}:')
            firsts = [op for k in KINDS for op in choose(root, k, rng0, widths[0])]
            items += [(si, fi, depth, widths) for fi in range(len(firsts))]
    rnd('b13-order').shuffle(items)
    tree = pmap(_tree_worker, items)
    t1 = time.time()
    c1 = cpu()

    # --- random histories
    cs = corpus_smiles()
    r = rnd('b13-linear')
    pick = [(i, cs[i], length) for i in (r.randrange(len(cs)) for _ in range(n_lin))]
    lin = pmap(_linear_worker, pick, chunksize=4)
    t2 = time.time()
    c2 = cpu()

    fails = {}
    n_tree = n_lin_steps = 0
    for part, results in (('tree', tree), ('linear', lin)):
        for n, keys, samples, fl, _ in results:
            if part == 'tree':
                n_tree += n
            else:
                n_lin_steps += n
            run.case(n)
            run.nontrivial.update(keys)
            for s in samples:
                run.case(0, sample=s)
            for f in fl:
                old = fails.get(f['family'])
                if old is None or len(f['ops']) < len(old['ops']) or (len(f['ops']) == len(old['ops']) and part == 'tree' and old['part'] != 'tree'):
                    f['part'] = part
                    f['count'] += (old or {}).get('count', 0)
                    fails[f['family']] = f
                else:
                    old['count'] += f['count']
    # --- extra domains of the coverage audit (bounded/d13_extra.py): mutators outside engine F x keywords x warm cache, transactions, copies
    from bounded import d13_extra as D
    D._imports()
    every = not quick
    xs = list(D.X_SMILES)
    n_corpus = 8 if quick else 100
    cx = [cs[i] for i in (rnd('b13-x').randrange(len(cs)) for _ in range(n_corpus))]
    x_items = [(smi, form, every, env.SEED) for smi in xs + cx for form in ('A', 'B')]
    t_items = [(si, env.SEED, quick) for si in range(len(D.T_SEEDS) + len(D.T_ONLY))]
    k_items = [(si, env.SEED, quick) for si in range(len(D.T_SEEDS) + len(D.K_EXTRA))]
    extra = {}
    counts = {}
    cpus = {'tree': round(c1 - c0), 'linear': round(c2 - c1)}
    t3 = time.time()
    for part, worker, items in (('X', D.x_worker, x_items), ('T', D.t_worker, t_items), ('K', D.k_worker, k_items)):
        c3 = cpu()
        res = pmap(worker, items)
        cpus[part] = round(cpu() - c3)
        counts[part] = sum(r[0] for r in res)
        for n, keys, fl in res:
            run.case(n)
            run.nontrivial.update(_digest(f'{part}:{k}') for k in keys)
            for fam, detail, wit in fl:
                old = extra.get(fam)
                if old is None:
                    extra[fam] = [detail, wit, 1]
                else:
                    old[2] += 1
                    if len(repr(wit)) < len(repr(old[1])):  # the smallest witness (pmap keeps the order of the items: deterministic)
                        old[0], old[1] = detail, wit
    t4 = time.time()
    for fam, (detail, wit, cnt) in sorted(extra.items()):
        if fam in fails:  # the same family was met by a history: one report, the history is the witness
            fails[fam]['count'] += cnt
            continue
        where = wit.get('op_text') or wit.get('text') or wit.get('producer')
        run.violation(fam, f'{fam}: {detail} [part {wit["part"]}: {wit.get("smiles") or wit.get("seed")} {where}; {cnt} cases of this family]',
                      witness=wit, native=detail)
    for fam, f in sorted(fails.items()):
        hk = history_key(f['seed'] if f['part'] == 'tree' else f['smiles'], [tuple(o) for o in f['ops']])
        run.violation(fam, f'{fam}: {f["detail"]} [{hk}; {f["count"]} histories of this family]',
                      witness={'seed': f['seed'], 'smiles': f['smiles'], 'ops': f['ops'], 'reads': f['reads'], 'copies': f['copies'],
                               'history': hk},
                      native=f['detail'])

    run.bound(f'tree: all sequences of operation kinds of length <= d over {len(KINDS)} kinds {KINDS} on {len(SEEDS)} seed molecules '
              f'{[s for _, s in SEEDS]}; (d, instances of a kind chosen by seed at depth 1..d) = {trees}; '
              f'{n_tree} histories (prefixes) evaluated; a failing history is not extended; every leaf gets an edit probe '
              f'(add_atom, add_bond, committed transaction, delete_bond, delete_atom), fully re-checked for 1 leaf in 8')
    run.bound(f'linear: {n_lin} seeded random histories of length {length} on corpus molecules (pach/lipophilicity.csv), alphabet + '
              f'{len(EXT_KINDS)} further public mutators on valence-valid states; {n_lin_steps} steps; all views compared every 5th step, at the end '
              f'and at random (30 %), the views just read otherwise')
    nx = len(D.x_ops())
    run.bound(f'part X: {nx} (mutator, keyword combination) pairs {sorted({o[0] for o in D.x_ops()})} on {len(xs)} designed + {n_corpus} corpus molecules x 2 forms '
              f'(A aromatic form, B Kekule + explicit hydrogens + atom numbers with gaps in descending order; both with seeded 2D coordinates), all '
              f'{len(K.members())} memoised members of the class warm before the call and compared with the rebuild afterwards; on a warm '
              f'copy(keep_sssr=True, keep_components=True) (form A) / with a cold cache (form B) for {"every pair" if every else "a seeded 15 % of the pairs"}; '
              f'{counts["X"]} calls; calculate_cis_trans_from_2d(clean_cache=False) and the stereo adders followed by flush_cache with every keep_* combination')
    run.bound(f'part T: {len(D.T_SEEDS)} seed molecules + a single atom + the empty molecule x (one edit of each of {len(D.EDIT_KINDS)} kinds x commit / exception before / after x {len(D.EXC_KINDS)} '
              f'exception sources {D.EXC_KINDS} x reads inside; {"24+12" if quick else "121+60"} seeded 2-/3-edit blocks with an exception at every later '
              f'position; {3 if quick else 12} x 5 nested shapes) x (warm, cold) = {counts["T"]} blocks, expected state from an independent model')
    run.bound(f'part K: {len(k_items)} molecules x producers (copy x 4 keep_* combinations, copy.copy, split, augmented_substructures, substructure '
              f'default / recalculate_hydrogens=False / & / - / augmented, union x (remap, disjoint numbers, operator) x (copy, in place), flush_cache x 4 keep_* '
              f'combinations without an edit and on the documented manual route after a charge / radical / isotope edit) x (warm, cold source) x '
              f'{2 if quick else 6} following edits of the result or the source = {counts["K"]} cases')
    run.bound(f'views compared: {len(V.VIEW_NAMES)} derived values {V.VIEW_NAMES} + 7 calc_labels labels + stereo labels + hydrogen counts')
    run.assume('the rebuilt molecule (bounded.domains.rebuild through add_atom/add_bond + calc_labels) reports the reference value of every '
               'view: coherence is relative to the library\'s own functions on a fresh object, not to chemistry (C04/C06/C12 speak for that)',
               'stereo labels are carried to the rebuilt molecule by permutation parity of the heavy-neighbour insertion order '
               '(oracles/o13_views.carry_stereo), the reference the signs are stored against',
               'documented exceptions accepted under their precondition only: ' + '; '.join(f'{k}: {c} when {w}' for k, v in DOC_EXC.items() for c, _, w in v),
               'branching in the tree copies the node molecule (copy() is itself under contract at every branch); the last child of every '
               'node and all random histories continue on the object itself',
               'non-trivial history = a non-empty set of views was read before an operation that changed the molecule (read-mutate-read)',
               'every memoised member = what oracles/o13_allkeys.members() finds in the MRO of MoleculeContainer (functools / CachedMethods '
               'cached_property objects, cached_method / cached_args_method wrappers; adjacency_matrix with (), (False,), (True,)); the depiction '
               'cache is read only on molecules with 2D coordinates (otherwise depict() itself calls clean2d(), a mutator)',
               'part T: the expected state of a block is computed by an independent model of the edits (bounded/d13_extra.Model); nested blocks: '
               'an inner block that raises restores the state at ITS entry, an outer block that raises restores the state at the OUTER entry',
               'part K: flush_cache(keep_sssr, keep_components) after an attribute edit outside a transaction followed by fix_structure() and '
               'fix_stereo() is the documented manual route (Element.charge docstring); both flags are legitimate there (no bond changes)',
               'fix_structure() whose recalculation changes a stored hydrogen count is its own family (predicate on the input, '
               'fix_structure_changes_hydrogens); add_bond with order 8 is its own family (add_bond:coordinate)')
    run.notes['b13'] = {'tree_histories': n_tree, 'linear_steps': n_lin_steps, 'tree_s': round(t1 - t0, 1), 'linear_s': round(t2 - t1, 1),
                        'extra_s': round(t4 - t3, 1), 'extra_cases': counts, 'cpu_s': cpus, 'families_failed': sorted(set(fails) | set(extra))}
    if os.environ.get('B13_TIMES'):
        import sys
        print('b13 times', run.notes['b13'], file=sys.stderr)
