"""C14 - see DESIGN.md §2 C14.  Deductive parts (contracts/) are added to this module as they are built; the bounded stand-in is checks/b14.py."""
from vlib import env
from checks.common import anchored, bounded_part, want, contract_sources, make_replay, t_oblig
from pysym.harness import run_cases

LEVEL = 'exploration'
DEDUCTIVE = []          # contract modules run by engine P for this property
FINISH = dict(rule='see checks/b14.py RULE / run.bound entries', explanation='F: no memoised value read by this property\'s observables survives an edit it depends on (one obligation per covered mutator x cached key); bounded stand-in (engine B) of the contracts of DESIGN §2 C14; '
              'labelled bounded, never counted as proved', trusted_base=['CPython 3.12', 'oracles/*', 'RDKit where stated'])
replay = make_replay('C14')


def deductive(run):
    for mod in DEDUCTIVE:
        run_cases(run, mod)


def main(run):
    env.setup()
    if want(run, 'P') or want(run, 'T'):
      with anchored(run, 'C14/P'):
        deductive(run)
    if want(run, 'F'):
      with anchored(run, 'C14/F'):
        # the observables of this property are (or read) memoised values: no covered mutator leaves one of them stale (engine F restricted to the keys these observables read)
        from checks.fpart import run_F
        run_F(run, entry_points=['standardize', 'canonicalize', 'neutralize', 'fix_resonance', 'explicify_hydrogens', 'implicify_hydrogens', 'enumerate_tautomers', 'standardize_charges', 'check_valence'])
    bounded_part(run, 'C14')
    return FINISH
