"""Bounded stand-in for C09: the de-cythonised _isomorphism.pyx generator is injected as chython.algorithms._isomorphism; for every
(query, molecule) pair of the domain the mappings of query.get_mapping(mol) (compiled path through the real import switch) and of
query.get_mapping(mol, _cython=False) must be equal as multisets (and, as recorded, in the same order)."""
import random

from vlib import env
from vlib.report import pmap

RULE = '(query, molecule) pairs; non-trivial = the query has at least one mapping on the molecule'

SMARTS = ['[C;D2]', '[N,O]', '[A]', '[C;r5,r6]', 'C-,=C', 'C-;!@C', 'C-;@C', 'C=;!@[A]', '[C;z2]', '[C;z1;x1]', '[C;h1,h2]', '[C;h0]', '[C;a]',
          '[N;a]', 'C:C', 'C=,:C', '[O;D1]=C', '[C;!R]', '[A;D3]', '[N;+]', '[O;-]', '[C;x2]', '[C,N;D2;r6]', 'C=[A]', '[C;z2]=[O,N]', 'C#N',
          '[C;r3]', '[C;r4]', '[C;z3]', '[C;z4]', 'C!-C', 'C!=C', '[C;D3]([A])([A])[A]', '[A]-[A]-[A]', '[A]=[A]-[A]', '[N,O;D1]-[C;D2,D3]',
          '[C;D2][C;D2][C;D2]', '[O,N;x0;z1]C', '[C;D1;h3]C', 'C1CC1', 'C1CCC1', 'C1CCCC1', 'C1CCCCC1', 'C1CCCCCC1', '[A]1-[A]-[A]-[A]-[A]1',
          '[A]1[A][A][A][A][A]1', 'C1=CC=CC=C1', 'C:1:C:C:C:C:C1', '[C,N]1[A][A]1', 'C1C[N,O]C1', 'C12CCCCC1CCCC2', 'C1CC2CCC1C2', '[M]', '[M]-C',
          '[M]-[Cl,Br,I]', '[Ni,Pd,Pt]-Cl', '[Sn,Pb]-C', '[Cl,Br,I,At]-[C,Si]', '[Fe,Ru,Os]', '[13C]', '[13C]C', '[2H]', '[C;D2].[O;D1]',
          '[N,O].[N,O]', '[A].[A]', 'CC.CC', 'C=C.[N,O]', 'C1CC1.C', '[S,Se,Te]', '[B,Al,Ga]', '[La,Ce,U]', '[Li,Na,K,Rb,Cs]', '[A;r7]', '[A;r8,r12]',
          '[O;D2]([A])[A]', '[N;D3;z1]', '[C;D4]', '[A;x3]', '[A;x4]', '[C;h3]', '[N;h2]', '[O;h1]', '[C;-]', '[N;+;D4]', '[A;*]' if False else '[A;D1]']
FIXED = ['Cl[Pd]Cl', 'Cl[Ni]Cl', 'C[Sn](C)(C)C', 'C[Pb](C)(C)C', 'ClC(Br)I', 'C1C2CC3C1C3C2', 'C1CC23CCC2CC3C1', 'C12C3C4C1C5C2C3C45', 'C1CC2CCC1C2',
         'C1CC2CC1CC2', 'C1C2CC3CC1CC(C2)C3', 'C1CCC2(CC1)CCCC2', 'C1CC2CCCC3CCCC(C1)C23', '[Fe]', '[Na+].[Cl-]', 'C[Mg]Br', '[13CH4]', '[2H]O[2H]',
         'C[N+](C)(C)C', 'CC(=O)[O-]', 'c1ccccc1', 'c1ccc2ccccc2c1', 'C1CCCCCC1', 'C1CCCCCCCCCCC1', 'OB(O)c1ccccc1', '[SeH]C', 'C[Te]C', '[U](F)(F)(F)(F)(F)F',
         'Cl[Pt](Cl)(N)N', '[La+3]', 'C=C.O', 'CC.CC.N', 'C1CC1.C1CC1', 'N#Cc1ccncc1', '[CH2-][N+]#N']


def _work(chunk):
    env.setup(pyx=True)
    from chython import smiles, smarts
    qs = []
    for s in SMARTS:
        try:
            qs.append((s, smarts(s)))
        except Exception:
            pass
    n, keys, viol, order_diff = 0, [], [], 0
    for smi, raw in chunk:
        try:
            m = smiles(smi)
            if not raw:
                m.kekule()
                m.thiele()
        except Exception:
            continue
        for s, q in qs:
            for af in (False, True):
                try:
                    fast = list(q.get_mapping(m, automorphism_filter=af))
                    slow = list(q.get_mapping(m, automorphism_filter=af, _cython=False))
                except Exception as e:
                    viol.append((f'matcher-exc:{type(e).__name__}:{s}', f'{type(e).__name__}: {e} for query {s} on {smi}', {'query': s, 'molecule': smi}))
                    continue
                n += 1
                fa = sorted(tuple(sorted(x.items())) for x in fast)
                sl = sorted(tuple(sorted(x.items())) for x in slow)
                if af:
                    fa = sorted({tuple(sorted(v for _, v in x)) for x in fa})
                    sl = sorted({tuple(sorted(v for _, v in x)) for x in sl})
                if fa != sl:
                    viol.append((f'matcher-differs:{s}:{smi}', f'compiled matcher {len(fast)} mapping(s), Python matcher {len(slow)} for query {s} on {smi} '
                                 f'(automorphism_filter={af}): only compiled {[x for x in fa if x not in sl][:2]}, only Python {[x for x in sl if x not in fa][:2]}',
                                 {'query': s, 'molecule': smi, 'raw': raw, 'automorphism_filter': af}))
                elif [tuple(sorted(x.items())) for x in fast] != [tuple(sorted(x.items())) for x in slow] and not af:
                    order_diff += 1
                if slow:
                    keys.append(f'{s}|{smi}')
    return n, keys, viol, order_diff


def bounded(run):
    from bounded import domains as D
    thorough = run.tier == 'thorough'
    mols = [(s, False) for s in FIXED] + [(s, False) for s in D.corpus_sample(1500 if thorough else 150, 'c09')]
    r = D.rnd('c09raw')
    mols += [(s, True) for s in r.sample(D.corpus_smiles(), 200 if thorough else 30)]        # as parsed: unknown hydrogen counts on aromatic N etc.
    # every connected atlas graph with 5..7 nodes and at least two rings as an all-carbon molecule: strained cages and bridged systems that the
    # closure bookkeeping of the matcher has to get right (ring queries of every size are in the SMARTS list)
    import networkx as nx
    cages = []
    for g in D.atlas(7 if thorough else 6, min_nodes=4):
        if g.number_of_edges() - g.number_of_nodes() + 1 >= 2:
            try:
                mm = D.build(g)
                if not mm.check_valence():
                    cages.append((str(mm), False))
            except Exception:
                pass
    mols += cages
    chunks = [mols[i::32] for i in range(32)]
    od = 0
    for n, keys, viol, o in pmap(_work, chunks):
        run.case(n)
        od += o
        for k in keys:
            run.case(0, key=k)
        for key, what, wit in viol:
            run.violation(key, what, witness=wit)
    run.case(0, sample={'query': SMARTS[3], 'molecule': FIXED[5]})
    run.notes['same_set_but_different_order'] = od
    run.bound(f'{len(SMARTS)} SMARTS queries (every primitive, element lists with light and heavy elements, rings 3-8, fused / bridged ring queries, '
              f'multi-component) x {len(mols)} molecules (fixed cages, metals, isotopes + corpus sample, part of it straight after parsing) x '
              f'automorphism filter on/off')
    run.assume('the de-cythonised generator stands for the compiled extension (same translator as validated for C10 on the published packs)')


def replay(rec):
    env.setup(pyx=True)
    from chython import smiles, smarts
    w = rec['witness']
    m = smiles(w['molecule'])
    if not w.get('raw'):
        m.kekule()
        m.thiele()
    q = smarts(w['query'])
    af = w.get('automorphism_filter', False)
    fa = sorted(tuple(sorted(x.items())) for x in q.get_mapping(m, automorphism_filter=af))
    sl = sorted(tuple(sorted(x.items())) for x in q.get_mapping(m, automorphism_filter=af, _cython=False))
    print('compiled', fa[:4], 'python', sl[:4])
    return fa == sl
