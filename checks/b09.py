"""Bounded stand-in for C09: the de-cythonised _isomorphism.pyx generator is injected as chython.algorithms._isomorphism; for every
(query, molecule) pair of the domain the mappings of query.get_mapping(mol) (compiled path through the real import switch) and of
query.get_mapping(mol, _cython=False) must be equal as multisets (and, as recorded, in the same order).

Parts (coverage audit): A the SMARTS x molecule grid; topo every small query topology x every small molecule topology under several
insertion orders / numberings; pair the input classes of bounded/d09_extra.py (star queries, cages, charges +-4, isotope window edges, radicals,
elements around the word boundaries, explicit hydrogens, special bonds, several components, query numberings, > 64 / > 256 atoms) with the
keywords automorphism_filter / searching_scope and the derived entry points (is_substructure, <=, <, is_equal); molq queries built through the
API from molecule substructures (full atom words, queries larger than the molecule, stereo marks); seq call sequences on ONE molecule object
(repeated calls, interleaved / abandoned generators, consumers that edit the yielded dicts, public edits between the calls, copies); fallback
the import switch without the extension."""
import random

from vlib import env
from vlib.report import pmap

RULE = '(query, molecule) pairs; non-trivial = the query has at least one mapping on the molecule'

SMARTS = ['[C;D2]', '[N,O]', '[A]', '[C;r5,r6]', 'C-,=C', 'C-;!@C', 'C-;@C', 'C=;!@[A]', '[C;z2]', '[C;z1;x1]', '[C;h1,h2]', '[C;h0]', '[C;a]',
          '[N;a]', 'C:C', 'C=,:C', '[O;D1]=C', '[C;!R]', '[A;D3]', '[N;+]', '[O;-]', '[C;x2]', '[C,N;D2;r6]', 'C=[A]', '[C;z2]=[O,N]', 'C#N',
          '[C;r3]', '[C;r4]', '[C;z3]', '[C;z4]', 'C!-C', 'C!=C', '[C;D3]([A])([A])[A]', '[A]-[A]-[A]', '[A]=[A]-[A]', '[N,O;D1]-[C;D2,D3]',
          '[C;D2][C;D2][C;D2]', '[O,N;x0;z1]C', '[C;D1;h3]C', 'C1CC1', 'C1CCC1', 'C1CCCC1', 'C1CCCCC1', 'C1CCCCCC1', '[A]1-[A]-[A]-[A]-[A]1',
          '[A]1[A][A][A][A][A]1', 'C1=CC=CC=C1', 'C:1:C:C:C:C:C1', '[C,N]1[A][A]1', 'C1C[N,O]C1', 'C12CCCCC1CCCC2', 'C1CC2CCC1C2', '[M]', '[M]-C',
          '[M]-[Cl,Br,I]', '[Ni,Pd,Pt]-Cl', '[Sn,Pb]-C', '[Cl,Br,I,At]-[C,Si]', '[Fe,Ru,Os]', '[13C]', '[13C]C', '[2H]', '[C;D2].[O;D1]',
          '[N,O].[N,O]', '[A].[A]', 'CC.CC', 'C=C.[N,O]', 'C1CC1.C', '[S,Se,Te]', '[B,Al,Ga]', '[La,Ce,U]', '[Li,Na,K,Rb,Cs]', '[A;r7]', '[A;r8,r12]',
          '[O;D2]([A])[A]', '[N;D3;z1]', '[C;D4]', '[A;x3]', '[A;x4]', '[C;h3]', '[N;h2]', '[O;h1]', '[C;-]', '[N;+;D4]', '[A;*]' if False else '[A;D1]']
FIXED = ['Cl[Pd]Cl', 'Cl[Ni]Cl', 'C[Sn](C)(C)C', 'C[Pb](C)(C)C', 'ClC(Br)I', 'C1C2CC3C1C3C2', 'C1CC23CCC2CC3C1', 'C12C3C4C1C5C2C3C45', 'C1CC2CCC1C2',
         'C1CC2CC1CC2', 'C1C2CC3CC1CC(C2)C3', 'C1CCC2(CC1)CCCC2', 'C1CC2CCCC3CCCC(C1)C23', '[Fe]', '[Na+].[Cl-]', 'C[Mg]Br', '[13CH4]', '[2H]O[2H]',
         'C[N+](C)(C)C', 'CC(=O)[O-]', 'c1ccccc1', 'c1ccc2ccccc2c1', 'C1CCCCCC1', 'C1CCCCCCCCCCC1', 'OB(O)c1ccccc1', '[SeH]C', 'C[Te]C', '[U](F)(F)(F)(F)(F)F',
         'Cl[Pt](Cl)(N)N', '[La+3]', 'C=C.O', 'CC.CC.N', 'C1CC1.C1CC1', 'N#Cc1ccncc1', '[CH2-][N+]#N']
SEQ_SMARTS = ['[A]', 'CC', '[C;D3]', '[A]~[A]', 'C(C)(C)C', '[N,O]', 'C=O', '[A]1[A][A][A][A][A]1', 'c1ccccc1', '[C;D1].[A;D1]', 'C[N,O]', '[A;D1]-[A]', '[13C]', '[A;+]', '[A]-[A]-[A]',
              'O=CO', '[C] |^1:0|', '[H]', '[C;h3]']
OVERFLOW = 'stack-arrays/pending>2N'


# ---- the contract -------------------------------------------------------------------------------------------------------------------------------

def _setup():
    env.setup(pyx=True)


def _canon(maps, af):
    x = sorted(tuple(sorted(d.items())) for d in maps)
    if af:
        x = sorted({tuple(sorted(v for _, v in t)) for t in x})
    return x


def _h_limitation(q, m):
    """recorded layout limitation (known finding probe:h-unknown): a hydrogen constraint containing 0 in the query and an atom with unknown hydrogen count
    in the molecule - outside the new domain"""
    if not any(0 in (getattr(a, 'implicit_hydrogens', None) or ()) for _, a in q.atoms()):
        return False
    return any(a.implicit_hydrogens is None for _, a in m.atoms())


def _judge(q, m, kw, label, witness, viol):
    """both matchers on one (query, molecule, keywords) input; returns (evaluated, number of reference mappings or None, same order?)"""
    af = kw.get('automorphism_filter', True)
    res = []
    for extra in ({}, {'_cython': False}):
        try:
            res.append(list(q.get_mapping(m, **kw, **extra)))
        except Exception as e:
            res.append(e)
    fast, slow = res
    if isinstance(fast, Exception) or isinstance(slow, Exception):
        side = 'compiled' if not isinstance(slow, Exception) else 'python' if not isinstance(fast, Exception) else 'both'
        e = fast if isinstance(fast, Exception) else slow
        from oracles.o09_stack import needs_more_than_2n
        if side == 'compiled' and needs_more_than_2n(q, m, kw.get('searching_scope')):
            key = f'{OVERFLOW}/{type(e).__name__}'
            what = (f'{label}: the depth-first search holds more than 2 x {len(m)} pending candidates at its peak; the compiled generator allocates '
                    f'stack_index / stack_depth with 2 * atoms_count entries and writes past their end ({type(e).__name__} in the translated model, heap '
                    f'overflow in C); the Python matcher returns {len(slow)} mapping(s)')
        else:
            key = f'matcher-exc:{type(e).__name__}:{side}:{label}'
            what = f'{type(e).__name__}: {e} in the {side} matcher for {label}'
        viol.append((key, what, witness))
        return 1, None, True
    fa, sl = _canon(fast, af), _canon(slow, af)
    same_order = True
    if fa != sl:
        from oracles.o09_stack import needs_more_than_2n
        pre = f'{OVERFLOW}/differs:' if needs_more_than_2n(q, m, kw.get('searching_scope')) else 'matcher-differs:'
        viol.append((pre + label, f'compiled matcher {len(fast)} mapping(s), Python matcher {len(slow)} for {label} (keywords '
                     f'{ {k: (sorted(v) if k == "searching_scope" and v is not None else v) for k, v in kw.items()} }): only compiled '
                     f'{[x for x in fa if x not in sl][:2]}, only Python {[x for x in sl if x not in fa][:2]}', witness))
    elif not af:
        same_order = [tuple(sorted(x.items())) for x in fast] == [tuple(sorted(x.items())) for x in slow]
    return 1, len(slow), same_order


def _entry_points(q, m, label, witness, viol):
    """derived entry points ('everything built on them'): they take the default path; judged against the reference matcher"""
    ref = next(q.get_mapping(m, automorphism_filter=False, _cython=False), None) is not None
    n = 0
    for name, got, exp in (('is_substructure', lambda: q.is_substructure(m), ref), ('<=', lambda: q <= m, ref),
                           ('<', lambda: q < m, ref and len(q) < len(m)), ('is_equal', lambda: q.is_equal(m), ref and len(q) == len(m))):
        try:
            g = got()
        except Exception as e:
            from oracles.o09_stack import needs_more_than_2n
            if needs_more_than_2n(q, m):
                viol.append((f'{OVERFLOW}/{type(e).__name__}', f'{name} of {label}: {type(e).__name__}', witness))
            else:
                viol.append((f'entry-exc:{name}:{type(e).__name__}:{label}', f'{type(e).__name__}: {e} in {name} for {label}', witness))
            continue
        n += 1
        if bool(g) != bool(exp):
            viol.append((f'entry-differs:{name}:{label}', f'{name} returns {g} through the compiled matcher, the Python matcher says {exp} for {label}', witness))
    return n


# ---- case constructors (pure functions of JSON-able arguments: the witness replays them) -----------------------------------------------------------

_cache = {}


class _Skip(Exception):
    """the input is not constructible on this tree (reader refuses the text): outside the domain"""


def _mol(smi, raw):
    from chython import smiles
    k = ('m', smi, raw)
    if k not in _cache:
        if len(_cache) > 4000:
            _cache.clear()
        try:
            m = smiles(smi)
            if not raw:
                m.kekule()
                m.thiele()
        except Exception:
            m = None                 # not a molecule for the reader of this tree: outside the domain (the first part does the same)
        _cache[k] = m
    if _cache[k] is None:
        raise _Skip
    return _cache[k]


def _qry(s):
    from chython import smarts
    k = ('q', s)
    if k not in _cache:
        try:
            _cache[k] = smarts(s)
        except Exception:
            _cache[k] = None
    if _cache[k] is None:
        raise _Skip
    return _cache[k]


def _atlas(kind):
    from bounded import domains as D
    k = ('atlas', kind)
    if k not in _cache:
        _cache[k] = D.atlas(6, max_deg=6) if kind == 'q' else D.atlas(7, max_deg=4)
    return _cache[k]


def case_topo(qi, qseed, qbonds, qring, mi, mvar, mseed, af, skind):
    from bounded import domains as D, d09_extra as X
    qg, mg = _atlas('q')[qi], _atlas('m')[mi]
    order = list(qg.nodes)
    if qseed:
        random.Random(qseed).shuffle(order)
    q = X.graph_query(qg, order, qbonds, qring)
    k = ('tm', mi)
    if k not in _cache:
        _cache[k] = D.build(mg)
    m, _ = X.variant(_cache[k], mvar, mseed)
    kw = {'automorphism_filter': af}
    if skind:
        kw['searching_scope'] = X.scope_of(m, mseed + 's', skind)
    return q, m, kw, f'topo:q{qi}/{qseed}/{qbonds}/{int(qring)}:m{mi}/{mvar}/{mseed}:af{int(af)}:{skind}'


def case_pair(s, qvar, qseed, smi, raw, mvar, mseed, af, skind):
    from bounded import d09_extra as X
    q, _ = X.variant(_qry(s), qvar, qseed)
    m, _ = X.variant(_mol(smi, raw), mvar, mseed)
    kw = {'automorphism_filter': af}
    if skind:
        kw['searching_scope'] = X.scope_of(m, mseed + 's', skind)
    tag = '' if (qvar, mvar, skind) == ('id', 'id', None) else f':{qvar}/{qseed}:{mvar}/{mseed}:{skind}'
    return q, m, kw, f'{s}:{smi}{":raw" if raw else ""}{tag}:af{int(af)}'


def case_molq(src, sseed, k, level, stereo, qvar, tgt, mvar, mseed, af, skind):
    from bounded import d09_extra as X
    sm = _mol(src, False)
    r = random.Random(sseed)
    atoms = X.connected_subset(sm, r, k)
    q = X.mol_query(sm, atoms, level, stereo=stereo)
    q, _ = X.variant(q, qvar, sseed + 'q')
    m, _ = X.variant(_mol(tgt or src, False), mvar, mseed)
    kw = {'automorphism_filter': af}
    if skind:
        kw['searching_scope'] = X.scope_of(m, mseed + 's', skind)
    return q, m, kw, f'molq:{src}/{sseed}/{k}/L{level}{"s" if stereo else ""}/{qvar}:{tgt or "self"}/{mvar}/{mseed}:af{int(af)}:{skind}'


CASES = {'topo': case_topo, 'pair': case_pair, 'molq': case_molq}


def _work_cases(chunk):
    """chunk: [(part, args, nontrivial-expected?)]"""
    _setup()
    n, keys, viol, od, skipped, entry = 0, [], [], 0, 0, 0
    for part, args in chunk:
        try:
            q, m, kw, label = CASES[part](*args)
        except _Skip:
            skipped += 1
            continue
        if _h_limitation(q, m):
            skipped += 1
            continue
        wit = {'part': part, 'args': list(args)}
        c, ns, same = _judge(q, m, kw, label, wit, viol)
        n += c
        od += not same
        if ns:
            keys.append(label)
        if part == 'pair' and args[1] == 'id' and args[5] == 'id' and args[8] is None and not args[7]:
            entry += _entry_points(q, m, label, wit, viol)
    return n + entry, keys, viol, od, skipped


# ---- part A: the SMARTS x molecule grid (unchanged) --------------------------------------------------------------------------------------------------

def _work(chunk):
    env.setup(pyx=True)
    from chython import smiles, smarts
    qs = []
    for s in SMARTS:
        try:
            qs.append((s, smarts(s)))
        except Exception:
            pass
    n, keys, viol, order_diff = 0, [], [], 0
    for smi, raw in chunk:
        try:
            m = smiles(smi)
            if not raw:
                m.kekule()
                m.thiele()
        except Exception:
            continue
        for s, q in qs:
            for af in (False, True):
                try:
                    fast = list(q.get_mapping(m, automorphism_filter=af))
                    slow = list(q.get_mapping(m, automorphism_filter=af, _cython=False))
                except Exception as e:
                    viol.append((f'matcher-exc:{type(e).__name__}:{s}', f'{type(e).__name__}: {e} for query {s} on {smi}', {'query': s, 'molecule': smi}))
                    continue
                n += 1
                fa = sorted(tuple(sorted(x.items())) for x in fast)
                sl = sorted(tuple(sorted(x.items())) for x in slow)
                if af:
                    fa = sorted({tuple(sorted(v for _, v in x)) for x in fa})
                    sl = sorted({tuple(sorted(v for _, v in x)) for x in sl})
                if fa != sl:
                    viol.append((f'matcher-differs:{s}:{smi}', f'compiled matcher {len(fast)} mapping(s), Python matcher {len(slow)} for query {s} on {smi} '
                                 f'(automorphism_filter={af}): only compiled {[x for x in fa if x not in sl][:2]}, only Python {[x for x in sl if x not in fa][:2]}',
                                 {'query': s, 'molecule': smi, 'raw': raw, 'automorphism_filter': af}))
                elif [tuple(sorted(x.items())) for x in fast] != [tuple(sorted(x.items())) for x in slow] and not af:
                    order_diff += 1
                if slow:
                    keys.append(f'{s}|{smi}')
    return n, keys, viol, order_diff


# ---- part seq: call sequences on one molecule object -----------------------------------------------------------------------------------------------

def run_seq(smi, seed, nsteps, viol):
    """seeded call sequence on ONE molecule object and a few query objects that live through the whole sequence.  After every step the compiled path
    (which reads the memoised packed structure of the molecule / query) is judged against the Python matcher (which reads the live objects)."""
    from bounded import d09_extra as X
    from chython import smarts
    r = random.Random(seed)
    m = _mol(smi, False).copy()
    qs = [(s, smarts(s)) for s in r.sample(SEQ_SMARTS, 5)]
    ops = X.edit_ops()
    n, nontrivial = 0, 0
    wit = {'part': 'seq', 'args': [smi, seed, nsteps]}
    done = []

    def judge_all(step):
        nonlocal n, nontrivial
        for s, q in qs:
            if _h_limitation(q, m):
                continue
            kw = {'automorphism_filter': r.random() < .5}
            if r.random() < .25:
                kw['searching_scope'] = X.scope_of(m, f'{seed}/{step}', r.choice(['half', 'most', 'all']))
            c, ns, _ = _judge(q, m, kw, f'seq:{smi}/{seed}:step{step}:{"+".join(done) or "start"}:{s}', wit, viol)
            n += c
            nontrivial += bool(ns)

    judge_all(0)
    for step in range(1, nsteps + 1):
        x = r.random()
        if x < .5:                                             # a public edit between two calls
            name, fn = r.choice(ops)
            try:
                fn(m, r)
            except X.NotApplicable:
                continue
            except Exception:
                break                                         # after an editing call that raised the state of the molecule is not specified: stop observing it
            done.append(name)
            if not len(m):
                break
        elif x < .62:                                          # two compiled generators of one molecule consumed alternately
            (s1, q1), (s2, q2) = r.sample(qs, 2)
            if _h_limitation(q1, m) or _h_limitation(q2, m):
                continue
            done.append('interleave')
            try:
                g1, g2 = q1.get_mapping(m, automorphism_filter=False), q2.get_mapping(m, automorphism_filter=False)
                o1, o2 = [], []
                live = [(g1, o1), (g2, o2)]
                while live:
                    g, o = live[r.randrange(len(live))]
                    try:
                        o.append(dict(next(g)))
                    except StopIteration:
                        live.remove((g, o))
                ref1 = list(q1.get_mapping(m, automorphism_filter=False, _cython=False))
                ref2 = list(q2.get_mapping(m, automorphism_filter=False, _cython=False))
            except Exception as e:
                from oracles.o09_stack import needs_more_than_2n
                if needs_more_than_2n(q1, m) or needs_more_than_2n(q2, m):
                    viol.append((f'{OVERFLOW}/{type(e).__name__}', f'interleaved generators on {smi}: {type(e).__name__}', wit))
                else:
                    viol.append((f'seq-exc:interleave:{type(e).__name__}:{smi}/{seed}', f'{type(e).__name__}: {e} while two generators ({s1}, {s2}) of one molecule were consumed alternately', wit))
                continue
            n += 2
            for s, o, ref in ((s1, o1, ref1), (s2, o2, ref2)):
                if _canon(o, False) != _canon(ref, False):
                    viol.append((f'seq-differs:interleave:{smi}/{seed}:step{step}:{s}', f'two compiled generators ({s1}, {s2}) consumed alternately on {smi} after {done}: {s} gives '
                                 f'{len(o)} mapping(s), the Python matcher {len(ref)}', wit))
        elif x < .74:                                          # the consumer edits every yielded dict; an abandoned generator stays alive meanwhile
            s, q = r.choice(qs)
            if _h_limitation(q, m):
                continue
            done.append('consume')
            try:
                abandoned = q.get_mapping(m, automorphism_filter=False)
                next(abandoned, None)
                got = []
                for d in q.get_mapping(m, automorphism_filter=False):
                    got.append(tuple(sorted(d.items())))
                    d.clear()
                    d[0] = 0
                ref = [tuple(sorted(d.items())) for d in q.get_mapping(m, automorphism_filter=False, _cython=False)]
                if r.random() < .5:
                    abandoned.close()
            except Exception as e:
                from oracles.o09_stack import needs_more_than_2n
                if needs_more_than_2n(q, m):
                    viol.append((f'{OVERFLOW}/{type(e).__name__}', f'consumer loop on {smi}: {type(e).__name__}', wit))
                else:
                    viol.append((f'seq-exc:consume:{type(e).__name__}:{smi}/{seed}', f'{type(e).__name__}: {e} for {s} on {smi} after {done}', wit))
                continue
            n += 1
            if sorted(got) != sorted(ref):
                viol.append((f'seq-differs:consume:{smi}/{seed}:step{step}:{s}', f'consumer that clears every yielded dict: compiled path gives {len(got)} mapping(s) '
                             f'{[x for x in got if x not in ref][:2]}, the Python matcher {len(ref)} for {s} on {smi} after {done}', wit))
        elif x < .8:                                           # a copy made after earlier calls (memoised structure must not travel in a wrong state)
            done.append('copy')
            m = m.copy()
        else:
            done.append('again')                              # plain repetition (memoised structure reused)
        judge_all(step)
    return n, nontrivial


def _work_seq(chunk):
    _setup()
    n, keys, viol = 0, [], []
    for smi, seed, nsteps in chunk:
        try:
            c, nt = run_seq(smi, seed, nsteps, viol)
        except _Skip:
            continue
        n += c
        if nt:
            keys.append(f'seq:{smi}/{seed}')
    return n, keys, viol, 0, 0


def _work_query_edit(chunk):
    """a query object edited through its public API between two calls (memoised packed query), and used on several molecules in turn"""
    _setup()
    from chython import smarts
    from chython.periodictable import QueryElement, AnyElement
    n, keys, viol = 0, [], []
    for qs, smis, seed in chunk:
        r = random.Random(seed)
        try:
            q = smarts(qs)
        except Exception:
            continue
        wit = {'part': 'qedit', 'args': [qs, smis, seed]}
        done = []
        for step in range(4):
            for smi in smis:
                try:
                    m = _mol(smi, False)
                except _Skip:
                    continue
                if _h_limitation(q, m):
                    continue
                c, ns, _ = _judge(q, m, {'automorphism_filter': r.random() < .5}, f'qedit:{qs}/{seed}:{"+".join(done) or "start"}:{smi}', wit, viol)
                n += c
                if ns:
                    keys.append(f'qedit:{qs}/{seed}/{step}:{smi}')
            x = r.randrange(3)
            if x == 0:
                k = q.add_atom(r.choice(['C', 'N', 'O']))
                q.add_bond(r.choice([a for a in q if a != k]), k, r.choice([1, (1, 2), 2]))
                done.append('add_atom+bond')
            elif x == 1:
                k = q.add_atom(AnyElement(), max(q) + 7)
                done.append('add_component')
            else:
                nums = list(q)
                free = [(a, b) for a in nums for b in nums if a < b and not q.has_bond(a, b)]
                if free:
                    a, b = r.choice(free)
                    q.add_bond(a, b, (1, 2, 4))
                    done.append('add_closure')
    return n, keys, viol, 0, 0


def _work_fallback(chunk):
    """the import switch: without the extension the default path must fall back to the Python matcher (same mappings, nothing raised)"""
    _setup()
    import sys
    import chython.algorithms as alg
    name = 'chython.algorithms._isomorphism'
    built = []
    for s, smi in chunk:                    # inputs are built while the extension is present (the readers use the matcher themselves)
        try:
            built.append((s, smi, _qry(s), _mol(smi, False)))
        except _Skip:
            pass
    mod = sys.modules.pop(name)
    had = alg.__dict__.pop('_isomorphism', None)
    n, viol = 0, []
    try:
        for s, smi, q, m in built:
            wit = {'part': 'fallback', 'args': [s, smi]}
            try:
                a = list(q.get_mapping(m, automorphism_filter=False))
                b = list(q.get_mapping(m, automorphism_filter=False, _cython=False))
            except Exception as e:
                viol.append((f'fallback-exc:{type(e).__name__}:{s}:{smi}', f'{type(e).__name__}: {e} for {s} on {smi} without the compiled extension', wit))
                continue
            n += 1
            if _canon(a, False) != _canon(b, False):
                viol.append((f'fallback-differs:{s}:{smi}', f'without the compiled extension the default path gives {len(a)} mapping(s), _cython=False {len(b)} for {s} on {smi}', wit))
    finally:
        sys.modules[name] = mod
        if had is not None:
            alg._isomorphism = had
    return n, [], viol, 0, 0


# ---- driver -------------------------------------------------------------------------------------------------------------------------------------------

def _chunks(items, k=64):
    items = list(items)
    return [items[i::k] for i in range(k) if items[i::k]]


def _plan(run):
    """argument tuples of every part (deterministic for a given VERIF_SEED and tier)"""
    from bounded import domains as D, d09_extra as X
    thorough = run.tier == 'thorough'
    S = env.SEED
    r = D.rnd('c09plan')
    cases = []
    # --- topo: every connected graph with <= 5 (6) nodes as a query x every connected graph with <= 6 (7) nodes of degree <= 4 as an all-carbon molecule
    qa, ma = D.atlas(6, max_deg=6), D.atlas(7, max_deg=4)
    qmax, mmax = (6, 7) if thorough else (5, 6)
    qi_ = [i for i, g in enumerate(qa) if g.number_of_nodes() <= qmax]
    mi_ = [i for i, g in enumerate(ma) if 2 <= g.number_of_nodes() <= mmax]
    ntopo = 0
    for qi in qi_:
        for mi in mi_:
            if qa[qi].number_of_nodes() > ma[mi].number_of_nodes() + 1 or qa[qi].number_of_edges() > ma[mi].number_of_edges() + 1:
                continue
            cases.append(('topo', (qi, '', 'single', False, mi, 'id', f'{S}', False, None)))
            for t in range(3 if thorough else 2):
                cases.append(('topo', (qi, f'{S}:{qi}:{mi}:{t}', r.choice(['single', 'any']), r.random() < .5, mi, r.choice(X.VARIANTS[1:]), f'{S}:{qi}:{mi}:{t}',
                                       r.random() < .3, r.choice([None, None, None, 'half', 'most', 'all', 'foreign']))))
            ntopo += 1
    run.bound(f'topo: {len(qi_)} query topologies (all connected graphs <= {qmax} nodes, any-element atoms, single / any-order bonds, with and without ring marks, every '
              f'start atom through seeded insertion orders) x {len(mi_)} molecule topologies (all connected graphs 2..{mmax} nodes, degree <= 4, all-carbon) = {ntopo} pairs '
              f'x {4 if thorough else 3} (numbering variant in {X.VARIANTS}, automorphism filter, searching_scope kind)')
    # --- pair: the input classes of d09_extra x keywords
    xs = [s for s in X.SMARTS]
    mols = [(s, False) for s in X.MOLS]
    corp = D.corpus_sample(300 if thorough else 40, 'c09x')
    npair = 0
    for s in xs:
        for smi, raw in mols:
            cases.append(('pair', (s, 'id', '', smi, raw, 'id', '', False, None)))
            cases.append(('pair', (s, r.choice(X.QVARIANTS), f'{S}q{npair}', smi, raw, r.choice(X.VARIANTS), f'{S}m{npair}', r.random() < .6, r.choice(X.SCOPES + [None, None]))))
            npair += 1
    for s in SMARTS:                                            # the first list on the new molecule classes
        for smi, raw in mols:
            cases.append(('pair', (s, r.choice(X.QVARIANTS), f'{S}q{npair}', smi, raw, r.choice(X.VARIANTS), f'{S}m{npair}', r.random() < .5, r.choice(X.SCOPES + [None, None]))))
            npair += 1
    for s in xs:                                                # the new queries on the first molecule list, the corpus sample and unnormalised records
        for smi in FIXED + corp:
            cases.append(('pair', (s, r.choice(X.QVARIANTS), f'{S}q{npair}', smi, False, r.choice(X.VARIANTS), f'{S}m{npair}', r.random() < .5, r.choice(X.SCOPES + [None, None]))))
            npair += 1
        for smi in corp[:80 if thorough else 12]:
            cases.append(('pair', (s, 'id', '', smi, True, 'id', '', False, None)))
            npair += 1
    run.bound(f'pair: {len(xs)} further SMARTS (star / chain / cage / 3-component queries, own numbering and masked atoms, special bond, charges +-4, isotope window edges, '
              f'radicals, elements around the Ba|La and Rn|Fr word boundaries) x {len(mols)} further molecules (high-degree centre last, explicit H, charges +-4, isotopes, '
              f'radicals, heavy elements, cages, salts, coordinate bonds) both ways with the first lists and {len(corp)} corpus molecules; keywords automorphism_filter x '
              f'searching_scope in {X.SCOPES} (set / list / tuple) x numbering variants {X.VARIANTS} / {X.QVARIANTS}; is_substructure, <=, <, is_equal on the plain pairs; '
              f'{npair} pairs')
    # --- big molecules
    big = X.big_smiles(thorough)
    for smi in big:
        for s in X.BIG_SMARTS:
            cases.append(('pair', (s, 'id', '', smi, False, r.choice(X.VARIANTS), f'{S}b', r.random() < .5, r.choice([None, None, 'half', 'most']))))
    import re
    run.bound(f'big: {len(big)} molecules with {min(len(re.findall("[A-Zc]", b)) for b in big)}..{max(len(re.findall("[A-Zc]", b)) for b in big)} atoms (> 64 and > 256) x {len(X.BIG_SMARTS)} SMARTS')
    # --- molq: queries built from molecule substructures through the API
    src = FIXED + [s for s in X.MOLS if '~' not in s] + D.corpus_sample(400 if thorough else 50, 'c09q')
    nq = 0
    for i, smi in enumerate(src):
        other = src[(i + 1) % len(src)]
        for t in range(4 if thorough else 3):
            k = r.choice([1, 2, 3, 4, 5, 6, 8, 10, 14, 40])
            level = r.choice([0, 1, 2, 2])
            stereo = '@' in smi and r.random() < .7
            a = (smi, f'{S}:{i}:{t}', k, level, stereo, r.choice(X.QVARIANTS[:4]))
            cases.append(('molq', a + (None, r.choice(X.VARIANTS), f'{S}:{i}:{t}', r.random() < .5, r.choice([None, None, None, 'most', 'all']))))
            cases.append(('molq', a + (other, 'id', f'{S}:{i}:{t}o', False, None)))
            nq += 2
    # stereo marks (the stereo filter of QueryIsomorphism.get_mapping runs on the mappings of either matcher): whole-molecule queries of chiral / cis-trans sources
    cs = D.corpus_smiles()
    chir = ([x for x in cs if '@' in x][:120 if thorough else 16] + [x for x in cs if '/' in x or '\\' in x][:60 if thorough else 8] +
            ['C[C@H](N)C(=O)O', 'C[C@@H](N)C(=O)O', 'F/C=C/F', 'F/C=C\\F', 'C[C@@H](O)[C@H](N)CC', 'CC=[C@]=CC', 'C[C@H](O)/C=C/C', 'C[C@]1(O)CC[C@H](N)CC1', 'C/C=C/C=C\\C'])
    for i, smi in enumerate(chir):
        for level in (0, 2):
            cases.append(('molq', (smi, f'{S}:st{i}', 80, level, True, 'id', None, r.choice(['id', 'perm', 'gaps', 'big']), f'{S}:st{i}', r.random() < .5, None)))
            nq += 1
        cases.append(('molq', (smi, f'{S}:st{i}', 80, 1, True, 'id', chir[(i + 1) % len(chir)], 'id', f'{S}:st{i}o', False, None)))
        nq += 1
    # whole-molecule queries of molecules with > 64 / > 256 atoms (search depth > 255)
    for i, smi in enumerate(['C' * 70, 'C' * 257, 'OCC' * 25 + 'O', 'NCC(=O)' * 20 + 'O', 'C1CC2CCC1CC2' + 'C' * 50 + 'C1CC2CCC1CC2'] + (['C' * 600, 'NCC(=O)' * 70 + 'O'] if thorough else [])):
        cases.append(('molq', (smi, f'{S}:big{i}', 2000, 1, False, 'id', None, r.choice(['perm', 'desc', 'gaps']), f'{S}:big{i}', False, None)))
        nq += 1
    run.bound(f'molq: {nq} queries built through the API (QueryElement.from_atom / QueryBond.from_bond + ring sizes) from seeded connected substructures (1..40 atoms, levels: '
              f'elements only / + neighbours, hybridisation / + heteroatoms, hydrogens, ring sizes, ring marks; stereo marks on chiral sources) of {len(src)} molecules, matched on '
              f'the source under a numbering variant and on another molecule (queries larger than the molecule included); whole-molecule queries with stereo marks of '
              f'{len(chir)} chiral / cis-trans sources; whole-molecule queries with 70..281 (thorough 600) atoms')
    return cases


def bounded(run):
    from bounded import domains as D
    thorough = run.tier == 'thorough'
    mols = [(s, False) for s in FIXED] + [(s, False) for s in D.corpus_sample(1500 if thorough else 150, 'c09')]
    r = D.rnd('c09raw')
    mols += [(s, True) for s in r.sample(D.corpus_smiles(), 200 if thorough else 30)]        # as parsed: unknown hydrogen counts on aromatic N etc.
    # every connected atlas graph with 5..7 nodes and at least two rings as an all-carbon molecule: strained cages and bridged systems that the
    # closure bookkeeping of the matcher has to get right (ring queries of every size are in the SMARTS list)
    import networkx as nx
    cages = []
    for g in D.atlas(7 if thorough else 6, min_nodes=4):
        if g.number_of_edges() - g.number_of_nodes() + 1 >= 2:
            try:
                mm = D.build(g)
                if not mm.check_valence():
                    cages.append((str(mm), False))
            except Exception:
                pass
    mols += cages
    chunks = [mols[i::32] for i in range(32)]
    od = 0
    for n, keys, viol, o in pmap(_work, chunks):
        run.case(n)
        od += o
        for k in keys:
            run.case(0, key=k)
        for key, what, wit in viol:
            run.violation(key, what, witness=wit)
    run.case(0, sample={'query': SMARTS[3], 'molecule': FIXED[5]})
    run.bound(f'{len(SMARTS)} SMARTS queries (every primitive, element lists with light and heavy elements, rings 3-8, fused / bridged ring queries, '
              f'multi-component) x {len(mols)} molecules (fixed cages, metals, isotopes + corpus sample, part of it straight after parsing) x '
              f'automorphism filter on/off')

    # ---- coverage audit parts
    skipped = 0
    plan = _plan(run)
    D.rnd('c09shuffle').shuffle(plan)                # spread the expensive cases over the workers
    for n, keys, viol, o, sk in pmap(_work_cases, _chunks(plan, 96)):
        run.case(n)
        od += o
        skipped += sk
        for k in keys:
            run.case(0, key=k)
        for key, what, wit in viol:
            run.violation(key, what, witness=wit)
    run.case(0, sample={'part': 'topo', 'args': list(plan[0][1])})
    seq_src = FIXED + D.corpus_sample(300 if thorough else 45, 'c09seq') + ['CC(C)(C)C', 'C1.C2.C3.C4.C1234', 'C12C3C4C1C5C2C3C45', 'c1ccccc1C(=O)O', 'OCC(O)CO', 'CC(C)C[C@H](N)C(=O)O']
    seqs = [(smi, f'{env.SEED}:{i}:{t}', 10) for i, smi in enumerate(seq_src) for t in range(3 if thorough else 2)]
    for n, keys, viol, _, _ in pmap(_work_seq, _chunks(seqs, 64)):
        run.case(n)
        for k in keys:
            run.case(0, key=k)
        for key, what, wit in viol:
            run.violation(key, what, witness=wit)
    run.bound(f'seq: {len(seqs)} seeded call sequences of 10 steps on ONE molecule object with 5 live query objects out of {len(SEQ_SMARTS)}: repeated calls, public edits '
              f'between calls (add_atom, add_bond, delete_atom, delete_bond, charge / radical / isotope in a transaction, bond replaced, kekule, thiele, explicify / implicify '
              f'hydrogens, remap, in-place union), copies, two compiled generators consumed alternately, abandoned generators, consumers that overwrite the yielded dicts')
    qed = [(s, r.sample(FIXED + seq_src[-6:], 4), f'{env.SEED}:{i}') for i, s in enumerate(['CC', '[A]~[A]', 'C(C)C', 'C1CC1', '[C;D2][C;D2]', 'C=O', '[N,O]C', 'C.C', '[A]', 'CCCC'])]
    fb = [(s, smi) for s in ['CC', '[A]1[A][A]1', '[N,O]', 'C(C)(C)C', 'C.C', '[M]'] for smi in FIXED[:12]]
    for w, items in ((_work_query_edit, qed), (_work_fallback, fb)):
        for n, keys, viol, _, _ in pmap(w, _chunks(items, 8)):
            run.case(n)
            for k in keys:
                run.case(0, key=k)
            for key, what, wit in viol:
                run.violation(key, what, witness=wit)
    run.bound(f'qedit: {len(qed)} query objects edited through add_atom / add_bond (new branch, new component, new ring closure) between calls on 4 molecules each; '
              f'fallback: {len(fb)} pairs with the extension module removed from the import system')
    run.notes['same_set_but_different_order'] = od
    run.notes['pairs_outside_domain_h_unknown_limitation'] = skipped
    run.assume('the de-cythonised generator stands for the compiled extension (same translator as validated for C10 on the published packs); a write past the end of a '
               'malloc-ed C array shows as IndexError of the model',
               'oracles/o09_stack.py (reference depth-first search with the library\'s own == of query atoms / bonds) decides the input class "more than 2N pending candidates"')


def replay(rec):
    env.setup(pyx=True)
    from chython import smiles, smarts
    w = rec['witness']
    if 'part' in w:
        viol = []
        if w['part'] in CASES:
            q, m, kw, label = CASES[w['part']](*w['args'])
            _judge(q, m, kw, label, w, viol)
            if w['part'] == 'pair':
                _entry_points(q, m, label, w, viol)
        elif w['part'] == 'seq':
            run_seq(*w['args'], viol)
        elif w['part'] == 'qedit':
            viol = _work_query_edit([tuple(w['args'])])[2]
        elif w['part'] == 'fallback':
            viol = _work_fallback([tuple(w['args'])])[2]
        for key, what, _ in viol:
            print(key, '|', what)
        return not any(k == rec['key'] for k, _, _ in viol)
    m = smiles(w['molecule'])
    if not w.get('raw'):
        m.kekule()
        m.thiele()
    q = smarts(w['query'])
    af = w.get('automorphism_filter', False)
    fa = sorted(tuple(sorted(x.items())) for x in q.get_mapping(m, automorphism_filter=af))
    sl = sorted(tuple(sorted(x.items())) for x in q.get_mapping(m, automorphism_filter=af, _cython=False))
    print('compiled', fa[:4], 'python', sl[:4])
    return fa == sl
