"""C18 - periodic table data are complete and mutually consistent.  Engine T: every clause is a finite statement,
enumerated completely over 118 elements x tabulated isotopes x charges x radical flag (DESIGN §2 C18)."""
import math
import time

from vlib import env
import tables

LEVEL = 'proof'

# independent reference data (IUPAC), Z = 1..118
SYMBOLS = ('H He Li Be B C N O F Ne Na Mg Al Si P S Cl Ar K Ca Sc Ti V Cr Mn Fe Co Ni Cu Zn Ga Ge As Se Br Kr Rb Sr Y Zr '
           'Nb Mo Tc Ru Rh Pd Ag Cd In Sn Sb Te I Xe Cs Ba La Ce Pr Nd Pm Sm Eu Gd Tb Dy Ho Er Tm Yb Lu Hf Ta W Re Os Ir '
           'Pt Au Hg Tl Pb Bi Po At Rn Fr Ra Ac Th Pa U Np Pu Am Cm Bk Cf Es Fm Md No Lr Rf Db Sg Bh Hs Mt Ds Rg Cn Nh Fl '
           'Mc Lv Ts Og').split()

FINISH = dict(
    rule='finite table lemmas; one obligation per (clause, element[, isotope/charge/hydrogen]) key, enumerated completely',
    explanation='Engine T: every clause of C18 is a universally quantified statement over a finite key set read from the '
                'current tree (imported element classes, .pyx literal tables); complete enumeration is a proof.',
    trusted_base=['CPython 3.12', 'IUPAC symbol list embedded in checks/c18.py', 'regex extraction of the two .pyx literal tables',
                  'CachedMethods shim (vlib/env.py)'],
    extra={'exhaustive': True})


def main(run):
    from checks.common import anchored
    out = FINISH
    with anchored(run, 'C18/T'):
        out = _main(run)
    return out


def _main(run):
    t0 = time.time()
    ch = env.setup()
    import chython.periodictable as pt
    from chython.periodictable import Element, QueryElement, DynamicElement

    def ob(name, ok, key=None, what=None, witness=None):
        k = None
        if not ok:
            k = run.violation(key or name, what or f'table lemma {name} fails', witness=witness, obligation=name)
        run.oblig(name, bool(ok), 'T', 'enum', 0.0, known=(k == 'known'))

    classes = list(Element.__subclasses__())
    by_z = {}
    for c in classes:
        by_z.setdefault(c.atomic_number.fget(None), []).append(c)
    run.under_contract('chython/periodictable/__init__.py', 'elements', ','.join(sorted(c.__name__ for c in classes)))
    run.under_contract('chython/periodictable/base/element.py', 'Element.from_symbol / from_atomic_number / isotope.setter / atomic_mass',
                       tables.source_of('chython/periodictable/base/element.py', 'Element'))

    # clause 1 ---------------------------------------------------------------------------------------------------------
    ob('numbers-are-1..118', sorted(by_z) == list(range(1, 119)) and all(len(v) == 1 for v in by_z.values()),
       witness={'numbers': sorted(by_z)})
    pk_common = tables.pyx_int_table('chython/containers/_pack_v2.pyx', 'common_isotopes')
    up_common = tables.pyx_int_table('chython/containers/_unpack_v0v2.pyx', 'common_isotopes')
    up_elements = tables.pyx_name_list('chython/containers/_unpack_v0v2.pyx', 'elements')
    run.under_contract('chython/containers/_pack_v2.pyx', 'common_isotopes', repr(pk_common))
    run.under_contract('chython/containers/_unpack_v0v2.pyx', 'common_isotopes', repr(up_common))
    run.under_contract('chython/containers/_unpack_v0v2.pyx', 'elements', repr(up_elements))
    ob('pyx-tables-length', len(pk_common) == 119 and len(up_common) == 119 and len(up_elements) == 119,
       witness=[len(pk_common), len(up_common), len(up_elements)])

    for z in range(1, 119):
        sym = SYMBOLS[z - 1]
        cls = by_z.get(z, [None])[0]
        ob(f'symbol[{z}]', cls is not None and cls.__name__ == sym, key=f'symbol:{z}', witness={'Z': z, 'class': getattr(cls, '__name__', None), 'ref': sym})
        if cls is None:
            continue
        try:
            ok = Element.from_symbol(sym) is cls and Element.from_atomic_number(z) is cls and cls().atomic_number == z \
                and cls().atomic_symbol == sym
        except Exception as e:
            ok = False
        ob(f'lookup-inverse[{sym}]', ok, key=f'lookup:{sym}')
        # generated variants
        q = getattr(pt, f'Query{sym}', None)
        d = getattr(pt, f'Dynamic{sym}', None)
        try:
            okq = q is not None and issubclass(q, QueryElement) and q().atomic_number == z and q().mdl_isotope == cls().mdl_isotope \
                and QueryElement.from_symbol(sym) is q and QueryElement.from_atomic_number(z) is q
        except Exception:
            okq = False
        ob(f'query-variant[{sym}]', okq, key=f'query-variant:{sym}')
        try:
            okd = d is not None and issubclass(d, DynamicElement) and d.atomic_number.fget(None) == z \
                and DynamicElement.from_symbol(sym) is d and DynamicElement.from_atomic_number(z) is d
        except Exception:
            okd = False
        ob(f'dynamic-variant[{sym}]', okd, key=f'dynamic-variant:{sym}')
        # the lookups are classmethods: every element class and every atom is a receiver, and the number table is memoised on first use.
        # With the memo cold, a lookup through the class / an atom of this element answers as `Element` does, and `Element` still answers
        # correctly afterwards (the answer depends neither on the receiver nor on which receiver filled the memo).
        z2 = z % 118 + 1
        c2, s2 = by_z.get(z2, [None])[0], SYMBOLS[z2 - 1]
        for rname, mk in (('class', lambda: cls), ('atom', lambda: cls())):
            try:
                memo = getattr(Element, '__class_cache__', None)
                if isinstance(memo, dict):
                    for k in [k for k in memo if isinstance(k, str)]:
                        del memo[k]
                r = mk()
                okr = r.from_atomic_number(z2) is c2 and r.from_symbol(s2) is c2 and Element.from_atomic_number(z) is cls \
                    and Element.from_atomic_number(z2) is c2 and Element.from_symbol(sym) is cls
            except Exception:
                okr = False
            ob(f'lookup-receiver-independent[{sym},{rname}]', okr, key=f'lookup-receiver:{sym}:{rname}',
               what=f'first number lookup of a cold table through the {rname} {sym}: from_atomic_number({z2}) / from_symbol({s2!r}) through it, '
                    f'or Element.from_atomic_number afterwards, does not give the tabulated class',
               witness={'receiver': f'{rname} {sym}', 'asked': z2, 'then': z})
        for vname, v, base in (('query', q, QueryElement), ('dynamic', d, DynamicElement)):
            v2 = getattr(pt, f'{"Query" if vname == "query" else "Dynamic"}{s2}', None)
            try:
                okv = v is not None and v2 is not None and v.from_atomic_number(z2) is v2 and v.from_symbol(s2) is v2 and base.from_atomic_number(z) is v
            except Exception:
                okv = False
            ob(f'lookup-receiver-independent[{sym},{vname}-class]', okv, key=f'lookup-receiver:{sym}:{vname}')

        # clause 2 -----------------------------------------------------------------------------------------------------
        a = cls()
        dist, mass, mdl = a.isotopes_distribution, a.isotopes_masses, a.mdl_isotope
        ob(f'isotope-keys-equal[{sym}]', set(dist) == set(mass), key=f'isotope-keys:{sym}',
           what=f'{sym}: isotopes_distribution keys {sorted(set(dist) - set(mass))} missing in isotopes_masses / '
                f'{sorted(set(mass) - set(dist))} missing in isotopes_distribution',
           witness={'element': sym, 'distribution_only': sorted(set(dist) - set(mass)), 'masses_only': sorted(set(mass) - set(dist))})
        ob(f'reference-isotope-tabulated[{sym}]', mdl in dist and mdl in mass, key=f'mdl-isotope-not-tabulated:{sym}',
           what=f'{sym}: reference isotope {mdl} is not in the isotope tables ({sym}({mdl}) raises)', witness={'element': sym, 'mdl_isotope': mdl})
        ob(f'abundances-in-unit-interval[{sym}]', all(0. <= x <= 1. for x in dist.values())
           and (sum(dist.values()) == 0 or abs(sum(dist.values()) - 1) < 1e-3), key=f'abundance:{sym}', witness={'sum': sum(dist.values())})
        try:
            m0 = cls().atomic_mass
            okm = isinstance(m0, float) and math.isfinite(m0) and m0 > 0 if any(dist.values()) else isinstance(m0, (int, float))
        except Exception as e:
            okm, m0 = False, repr(e)
        ob(f'atomic-mass-computable[{sym},None]', okm, key=f'atomic-mass:{sym}:None',
           what=f'{sym}().atomic_mass not computable: {m0}', witness={'element': sym, 'isotope': None, 'outcome': m0})
        for i in sorted(set(dist) | set(mass)):
            try:
                x = cls(i)
                mi = x.atomic_mass
                oki = x.isotope == i and isinstance(mi, float) and abs(mi - i) < 1.
            except Exception as e:
                oki, mi = False, repr(e)
            ob(f'atomic-mass-computable[{sym},{i}]', oki, key=f'atomic-mass:{sym}:{i}',
               what=f'{sym}({i}).atomic_mass not computable: {mi}', witness={'element': sym, 'isotope': i, 'outcome': mi})
            # clause 3: representable in the pack format (5 bit: 1..31 after subtracting the common isotope) and matcher layout
            off = i - pk_common[z]
            ob(f'isotope-pack-code[{sym},{i}]', 1 <= off <= 31, key=f'pack-isotope:{sym}:{i}',
               what=f'{sym}({i}): pack isotope code {off} outside 1..31', witness={'element': sym, 'isotope': i, 'code': off})
            ob(f'isotope-matcher-bit[{sym},{i}]', 46 <= i - mdl + 54 <= 62, key=f'matcher-isotope:{sym}:{i}',
               what=f'{sym}({i}): matcher bit {i - mdl + 54} outside 46..62 of word III', witness={'element': sym, 'isotope': i, 'bit': i - mdl + 54})
        ob(f'common-isotope-tables-equal[{sym}]', pk_common[z] == up_common[z] == mdl - 16, key=f'common-isotope:{sym}',
           witness={'pack': pk_common[z], 'unpack': up_common[z], 'mdl-16': mdl - 16})
        ob(f'unpack-elements[{z}]', up_elements[z] == sym, key=f'unpack-elements:{z}', witness={'entry': up_elements[z]})
        # matcher element bit position: Z<=56 -> word I bit 57-Z in 1..56 ; else word II bit 120-min(Z,116) in 4..63
        ob(f'matcher-element-bit[{sym}]', (1 <= 57 - z <= 56) if z <= 56 else (4 <= 120 - min(z, 116) <= 63), key=f'matcher-element:{sym}')

        # clause 4 -----------------------------------------------------------------------------------------------------
        try:
            rules = a._compiled_valence_rules
            sat = a._compiled_saturation_rules
            okr = hasattr(rules, 'items') and isinstance(sat, (list, tuple)) and \
                all(e in SYMBOLS for *_, env_ in a._valences_exceptions for _, e in env_)
            for (c, r, v), lst in rules.items():
                okr = okr and -4 <= c <= 4 and isinstance(r, bool) and v >= 0 and len(lst) > 0
        except Exception as e:
            okr = False
        ob(f'valence-rules-compile[{sym}]', okr, key=f'valence-rules:{sym}')

    # charges and hydrogens have a pack code (4 bit: charge+4 in 0..8; 3 bit: 0..6, 7 = unknown)
    for c in range(-4, 5):
        ob(f'charge-pack-code[{c}]', 0 <= c + 4 <= 15 and 35 <= c + 39 <= 43, key=f'charge-code:{c}')
        for sym in ('C',):
            try:
                okc = by_z[6][0](charge=c).charge == c
            except Exception:
                okc = False
            ob(f'charge-accepted[{c}]', okc, key=f'charge-accepted:{c}')
    for bad in (-5, 5):
        try:
            by_z[6][0](charge=bad)
            okb = False
        except ValueError:
            okb = True
        ob(f'charge-rejected[{bad}]', okb, key=f'charge-rejected:{bad}')
    for h in list(range(0, 7)) + [None]:
        code = 7 if h is None else h
        ob(f'hydrogen-pack-code[{h}]', 0 <= code <= 7 and (h is None) == (code == 7), key=f'h-code:{h}')
    for r in (True, False):
        ob(f'radical-accepted[{r}]', by_z[6][0](is_radical=r).is_radical is r)

    # clause 3, executed: every element x tabulated isotope (neutral) and every charge x radical state (no isotope) survives the real codec
    # (de-cythonised pack / unpack through the real wrappers) and is matched by the compiled matcher exactly like by the Python matcher
    env.setup(pyx=True)
    from chython.containers import MoleculeContainer
    from chython.periodictable import QueryElement
    from chython.containers import QueryContainer
    bad_pack, bad_match, n_pack = [], [], 0
    for z in range(1, 119):
        cls = by_z[z][0]
        states = [(i, 0, False) for i in sorted(cls().isotopes_distribution)] + [(None, c, r) for c in range(-4, 5) for r in (False, True)]
        for iso, c, r in states:
            m = MoleculeContainer()
            try:
                a = cls(iso, charge=c, is_radical=r, implicit_hydrogens=0)
            except Exception:
                continue
            m.add_atom(a, _skip_calculation=True)
            m.calc_labels()
            n_pack += 1
            try:
                u = MoleculeContainer.unpack(m.pack())
                b = u.atom(1)
                if (b.atomic_number, b.isotope, b.charge, b.is_radical, b.implicit_hydrogens) != (z, iso, c, r, 0):
                    bad_pack.append((cls.__name__, iso, c, r, (b.atomic_number, b.isotope, b.charge, b.is_radical)))
            except Exception as e:
                bad_pack.append((cls.__name__, iso, c, r, repr(e)))
            if z < 116:     # Lv/Ts/Og share one matcher bit (documented, C09 known finding)
                for qiso, qc, qr in ((iso, c, r), (None, c, r), (iso, c, not r)):
                    q = QueryContainer('')
                    q.add_atom(QueryElement.from_atomic_number(z)(qiso, charge=qc, is_radical=qr))
                    try:
                        fast = len(list(q.get_mapping(m)))
                        slow = len(list(q.get_mapping(m, _cython=False)))
                    except Exception as e:
                        fast, slow = repr(e), None
                    if fast != slow:
                        bad_match.append((cls.__name__, iso, c, r, (qiso, qc, qr), fast, slow))
    ob(f'pack-codec-roundtrip[all elements x tabulated isotopes, charges -4..4 x radical: {n_pack} atoms]', not bad_pack, key='pack-codec-roundtrip',
       what=f'single atom does not survive pack/unpack: {bad_pack[:3]}', witness=bad_pack[:5])
    ob(f'matcher-layout-agrees[all elements < 116 x tabulated isotopes x charges x radical]', not bad_match, key='matcher-layout-executed',
       what=f'compiled matcher and Python matcher disagree on a single atom: {bad_match[:3]}', witness=bad_match[:5])

    run.assume('isotope representability is judged against the published layouts: 5-bit pack code 1..31 relative to common_isotopes; '
               'matcher word III bits 46..62 relative to mdl_isotope',
               'abundance tables of synthetic elements may be a single 1.0 entry; sums are accepted within 1e-3')
    run.notes['functions'] = 'Element.from_symbol, from_atomic_number, isotope.setter, atomic_mass, _compiled_valence_rules, _compiled_saturation_rules; group*.py tables; .pyx tables'
    return FINISH
