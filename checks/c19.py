"""C19 - results identical across processes, hash seeds and repeated calls (DESIGN §1.7, §2 C19).
H: every hash() argument in the anchored files is built from ints, bools, None and tuples of those (no str / bytes / float / identity hash),
so no PYTHONHASHSEED-dependent value reaches an ordering decision or a stored identifier; cached = uncached is C13's coherence (F);
B (checks/b19.py): 35 observables across 5 interpreter processes with different hash seeds, cached/uncached, original/copy."""
from vlib import env
from checks.common import anchored, bounded_part, want, make_replay, t_oblig

LEVEL = 'other'
replay = make_replay('C19')
FILES = ['chython/periodictable/base/element.py', 'chython/periodictable/base/dynamic.py', 'chython/containers/bonds.py', 'chython/algorithms/morgan.py',
         'chython/algorithms/fingerprints/__init__.py', 'chython/algorithms/fingerprints/morgan.py', 'chython/algorithms/fingerprints/linear.py',
         'chython/algorithms/smiles.py', 'chython/containers/reaction.py', 'chython/algorithms/rings.py', 'chython/algorithms/isomorphism.py',
         'chython/algorithms/stereo.py', 'chython/containers/graph.py', 'chython/containers/molecule.py', 'chython/containers/cgr.py']
# container-level __hash__ is hash(str(self)) by design: seed dependent, used for set/dict membership only; what the property lists
# (strings, orders, ring sets, fingerprints, mappings, pack bytes) never goes through it - the bounded part watches for leaks
EXEMPT = {('chython/algorithms/smiles.py', 'Smiles.__hash__'), ('chython/containers/reaction.py', 'ReactionContainer.__hash__')}
OK_LEAVES = {'int', 'bool', 'none', 'obj:atom', 'obj:bond', 'obj:self'}
FINISH = dict(
    rule='H: one obligation per hash() call site of the anchored files; B: (molecule, observable) pairs across processes',
    explanation='F: no memoised value read by this property\'s observables survives an edit it depends on (one obligation per covered mutator x cached key); A structural type inference over the AST (declared facts: source annotations and the attribute-type table derived from the setters) '
                'shows that every hashed value is a tuple tree of ints / bools / None; CPython hashes those independently of PYTHONHASHSEED. '
                'Objects hashed as atoms or bonds go through their own __hash__, which is a site of its own.',
    trusted_base=['CPython: hash of int / bool / None / tuples thereof is seed independent (None: constant since 3.12)', 'frames/hashtypes.py',
                  'attribute types follow the setters isinstance guards'])


def main(run):
    env.setup()
    if want(run, 'H'):
      with anchored(run, 'C19/H'):
        from frames import hashtypes as H
        n = 0
        for rel in FILES:
            try:
                ss = H.sites(rel)
            except FileNotFoundError:
                continue
            run.under_contract(rel, 'hash() call sites', '\n'.join(f'{q}:{txt}' for q, ln, lv, txt in ss))
            for q, ln, lv, txt in ss:
                n += 1
                if (rel, q) in EXEMPT:
                    run.oblig(f'hash-site[{rel}:{q}] exempt: container hash of the canonical string (membership only)', True, 'H', 'typing', 0.0)
                    continue
                bad = sorted(str(x) for x in lv - OK_LEAVES)
                k = None
                if bad and set(bad) <= {'unknown'}:
                    # the structural typing cannot see what the argument is built from (new local, helper call ...): not decided by H, never a violation
                    run.unanchored(f'C19/H:{rel}:{q}', f'hash({txt[:80]}) at line {ln}: argument type not inferable by the structural typing')
                    continue
                if bad:
                    k = run.violation(f'hash-input:{rel}:{q}', f'{rel}:{ln} {q}: hash({txt[:80]}) takes a value of type {bad} - seed dependent or untypable',
                                      witness={'site': f'{rel}:{ln}', 'argument': txt, 'leaf_types': sorted(map(str, lv))}, obligation=f'hash-site[{rel}:{q}]',
                                      found_input=False)
                run.oblig(f'hash-site[{rel}:{q}@{txt[:40]}]', not bad, 'H', 'typing', 0.0, known=(k == 'known'))
        if n == 0:
            raise RuntimeError('engine H found no hash() site: vacuous')
    if want(run, 'F'):
      with anchored(run, 'C19/F'):
        # first (uncached) and later (cached) evaluations agree: no memoised value read by the listed observables survives an edit it depends on (engine F)
        from checks.fpart import run_F
        run_F(run, entry_points=['atoms_order', '__str__', '__hash__', '__format__', 'smiles_atoms_order', 'sssr', 'connected_components', 'pack', 'get_mapping', '_cython_compiled_structure', 'int_adjacency', 'linear_fingerprint', 'morgan_fingerprint', 'linear_hash_set', 'morgan_hash_set', '_atom_identifiers', 'canonicalize', 'standardize', '_chiral_morgan'])
    bounded_part(run, 'C19')
    run.assume('set-iteration tie-breaks (min over an int set, set.pop) depend on the int values and insertion history only - covered by the bounded part',
               'third-party code (lazy_object_proxy, numpy, lxml) is assumed deterministic')
    return FINISH
