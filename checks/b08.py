"""C08 bounded stand-in (engine B): SMARTS primitives and query atoms match exactly what is documented.

Contracts attached to the real `chython.smarts(text)` and `QueryContainer.get_mapping(mol, _cython=False)`:
 (1) parsing: for every bracket string / bond string of the domain, judged by the reference reading of the documented subset
     (oracles/o08_refsmarts.py): accepted => smarts() returns a query whose atom / bond has exactly the documented attributes;
     documented as unsupported => smarts() raises the invalid-SMARTS error; undetermined by the docstring => only the raises
     contract.  In every case an exception that is not IncorrectSmarts / IncorrectSmiles (the shared tokenizer raises the base class)
     is a violation.
 (2) matching: for every primitive, every pair of primitives, every two-atom query [a1]bond[a2] x every molecule of the domain: the
     set of atoms (ordered atom pairs) hit by get_mapping(automorphism_filter=False, _cython=False) equals the set of atoms (pairs)
     whose independently determined attributes satisfy the documented meaning.
 (3) stereo marks in queries: a query spelled with @/@@ (or / \\) matches a target iff the reference reader of C03 gives both the same
     configuration under the (unique) atom mapping.
Violations are grouped in families: `smarts-exc:<Exc>@<file>:<function>[:documented-input]`, `smarts-accept:<reason>`,
`smarts-reject:<Exc>@<file>:<function>`, `smarts-diff:<attribute>`, `smarts-match:false-hit:<attributes>`,
`smarts-match:missed:<attributes of the query>`, `smarts-stereo:<context>` (witness = shortest input).
"""
import itertools
import os
import traceback
import zlib

from vlib import env
from vlib.report import pmap

RULE = ('non-trivial = (a) bracket/bond string inside the documented subset whose built attributes were compared (key = string); '
        '(b) (query, distinct independently determined atom or bond environment) pair with a verified hit (key = crc32 of both)')

BR_FULL = ['C', 'N', 'O', 'Cl', 'Fe', 'A', 'M', '#6', '#8', 'c', 'Xx', 'H', ';', ',', 'D1', 'D2', 'D3', 'h0', 'h1', 'r5', 'r6', 'x1', 'z1', 'z2',
           'z4', 'a', '!R', 'R', 'X2', 'v3', 'D', 'D15', 'z5', 'r2', 'h', '+', '-', '++', '+2', '-3', '+5', '13', '0', '@', '@@', ':1', ':0',
           '&', '!', '$', '*']
BR_SLICE = ['C', 'N', 'A', 'M', '#6', ';', ',', 'D1', 'D2', 'h1', 'r5', 'x1', 'z2', 'a', '!R', 'R', 'D', 'z5', '+', '-', '+2', '13', '@', ':1', '&', '!', 'H', 'Cl']
BR_CHARS = list('CNAM#6;,Dhrxza!R12+-@:&0')
BOND_CHARS = list('-=#:~,!;@/\\')
# fixed, tier-independent inputs (shortest witnesses of every family reproduced on the pinned tree): same family key set in both tiers
ANCHORS_BR = ['!;,', 'C;,', '+-', '+M', 'M+', '13A', '0A', '#!', '#120,', '#613,C', ',', 'C,', 'A;D15', 'A;D1,D1', '#120', '!', 'Xx', 'c', 'C&D2', 'C@@@', 'C+5',
              'C:0', 'HH', 'A;z0', 'A;z5', 'A;r0', 'A;r2']
ANCHORS_BOND = ['!~', '#;@;@', '=;@;@']

_S = {}


def _setup():
    if _S:
        return _S
    env.setup()
    from chython import smarts, smiles
    from chython.exceptions import IncorrectSmiles
    from chython.periodictable import AnyElement, AnyMetal, ListElement, QueryElement
    from oracles import o08_refsmarts as Q
    _S.update(smarts=smarts, smiles=smiles, Bad=IncorrectSmiles, Q=Q, AnyElement=AnyElement, AnyMetal=AnyMetal, ListElement=ListElement,
              QueryElement=QueryElement, repo=os.path.abspath(env.REPO) + os.sep)
    return _S


def _where(e):
    repo = _S['repo']
    last = None
    for fr, _ in traceback.walk_tb(e.__traceback__):
        fn = os.path.abspath(fr.f_code.co_filename)
        if fn.startswith(repo):
            last = f'{fn[len(repo):]}:{fr.f_code.co_name}'
    return last or 'outside-tree'


# ---- (1) parsing ----------------------------------------------------------------------------------------------------------
def atom_view(q):
    S = _S
    (n, a), = q._atoms.items()
    v = dict(kind=None, elements=(), isotope=None, charge=0, stereo=None, neighbors=(), implicit_hydrogens=(), heteroatoms=(),
             hybridization=(), ring_sizes=(), masked=False, number=n)
    if isinstance(a, S['AnyMetal']):
        v['kind'] = 'metal'
    elif isinstance(a, S['AnyElement']):
        v['kind'] = 'any'
    elif isinstance(a, S['ListElement']):
        v['kind'], v['elements'] = 'list', tuple(a._elements)
    elif isinstance(a, S['QueryElement']):
        v['kind'], v['elements'] = 'element', (a.atomic_symbol,)
        v['isotope'] = a.isotope
    else:
        v['kind'] = type(a).__name__
    v['neighbors'], v['hybridization'], v['masked'] = a.neighbors, a.hybridization, a.masked
    if v['kind'] != 'metal':
        v.update(charge=a.charge, stereo=a.stereo, implicit_hydrogens=a.implicit_hydrogens, heteroatoms=a.heteroatoms, ring_sizes=a.ring_sizes,
                 radical=a.is_radical)
    return v


def judge_bracket(body):
    """-> (status, family, detail)"""
    S = _S or _setup()
    Q = S['Q']
    s = '[' + body + ']'
    try:
        ref = Q.read_bracket(body)
        verdict = 'accept'
    except Q.Reject as e:
        ref, verdict = None, 'reject:' + e.args[0]
    except Q.Unspecified as e:
        ref, verdict = None, 'unspecified:' + e.args[0]
    try:
        q = S['smarts'](s)
    except S['Bad'] as e:
        if verdict == 'accept':
            return 'violation', f'smarts-reject:{type(e).__name__}@{_where(e)}', f'documented SMARTS rejected: {type(e).__name__}: {e}'
        return 'rejected', None, verdict
    except Exception as e:
        fam = f'smarts-exc:{type(e).__name__}@{_where(e)}' + (':documented-input' if verdict == 'accept' else '')
        return 'violation', fam, f'{type(e).__name__}: {e} (reference: {verdict})'
    if verdict.startswith('unspecified'):
        return 'unspecified', None, verdict
    if verdict.startswith('reject'):
        return 'violation', f'smarts-accept:{verdict[7:]}', f'unsupported SMARTS ({verdict[7:]}) accepted: {_atoms_repr(q)}'
    if len(q._atoms) != 1:
        return 'violation', 'smarts-diff:atom-count', f'{len(q._atoms)} atoms built'
    v = atom_view(q)
    for k in ('kind', 'elements', 'isotope', 'charge', 'stereo', 'neighbors', 'implicit_hydrogens', 'heteroatoms', 'hybridization', 'ring_sizes', 'masked'):
        if k == 'elements':
            ok = sorted(v[k]) == sorted(ref[k]) if ref['kind'] == 'list' else v[k] == ref[k]
        elif k == 'isotope':
            ok = (v[k] or None) == ref[k]
        else:
            ok = v[k] == ref[k]
        if not ok:
            return 'violation', f'smarts-diff:{k}', f'{k}: built {v[k]!r}, documented {ref[k]!r}'
    if ref['mapping'] and v['number'] != ref['mapping']:
        return 'violation', 'smarts-diff:mapping', f'atom number {v["number"]} != mapping {ref["mapping"]}'
    if not ref['mapping'] and (v['number'] > 10 ** 9) != ref['masked']:
        return 'violation', 'smarts-diff:masked-number', f'atom number {v["number"]} masked {ref["masked"]}'
    return 'accepted', None, None


def judge_bond(text):
    S = _S or _setup()
    Q = S['Q']
    s = 'C' + text + 'N'
    try:
        ref = Q.read_bond(text)
        verdict = 'accept'
    except Q.Reject as e:
        ref, verdict = None, 'reject:' + e.args[0]
    except Q.Unspecified as e:
        ref, verdict = None, 'unspecified:' + e.args[0]
    try:
        q = S['smarts'](s)
    except S['Bad'] as e:
        if verdict == 'accept':
            return 'violation', f'smarts-reject:{type(e).__name__}@{_where(e)}', f'documented SMARTS rejected: {type(e).__name__}: {e}'
        return 'rejected', None, verdict
    except Exception as e:
        fam = f'smarts-exc:{type(e).__name__}@{_where(e)}' + (':documented-input' if verdict == 'accept' else '')
        return 'violation', fam, f'{type(e).__name__}: {e} (reference: {verdict})'
    if verdict.startswith('unspecified'):
        return 'unspecified', None, verdict
    if verdict.startswith('reject'):
        return 'violation', f'smarts-accept:bond:{verdict[7:]}', f'unsupported SMARTS bond ({verdict[7:]}) accepted: {[repr(b) for *_, b in q.bonds()]}'
    bs = list(q.bonds())
    if len(q._atoms) != 2 or len(bs) != 1:
        return 'violation', 'smarts-diff:bond-count', f'{len(q._atoms)} atoms {len(bs)} bonds'
    b = bs[0][2]
    if tuple(b.order) != ref['order']:
        return 'violation', 'smarts-diff:bond-order', f'order built {b.order}, documented {ref["order"]}'
    if b.in_ring != ref['in_ring']:
        return 'violation', 'smarts-diff:bond-in_ring', f'in_ring built {b.in_ring}, documented {ref["in_ring"]}'
    return 'accepted', None, None


def _atoms_repr(q):
    try:
        return {n: (type(a).__name__, {k: getattr(a, k, None) for k in ('charge', 'isotope', 'neighbors', 'hybridization', 'ring_sizes',
                                                                         'implicit_hydrogens', 'heteroatoms', 'masked', 'stereo')})
                for n, a in q._atoms.items()}
    except Exception:
        return '?'


class _Acc:
    def __init__(self):
        self.n, self.keys, self.stat, self.fam, self.samples = 0, [], {}, {}, []

    def note(self, s, res, keep=True):
        st, fam, det = res
        self.n += 1
        if st == 'violation':
            self.push(fam, s, det)
        elif st == 'accepted':
            if keep:
                self.keys.append(s)
            self.stat['accepted'] = self.stat.get('accepted', 0) + 1
            if len(self.samples) < 2 and len(s) > 7:
                self.samples.append({'smarts': s, 'outcome': 'built attributes equal the documented ones'})
        else:
            k = st + ':' + det.split(':', 1)[1]
            self.stat[k] = self.stat.get(k, 0) + 1

    def push(self, fam, s, det):
        lst = self.fam.setdefault(fam, [0, []])
        lst[0] += 1
        lst[1].append((len(s), s, det))
        lst[1].sort()
        del lst[1][5:]

    def result(self):
        return self.n, self.keys, self.stat, self.fam, self.samples


def _w_br_tokens(args):
    alphabet, prefix, depth, keep = args
    _setup()
    acc = _Acc()
    base = ''.join(prefix)
    for k in range(depth + 1):
        for suf in itertools.product(alphabet, repeat=k):
            b = base + ''.join(suf)
            acc.note('[' + b + ']', judge_bracket(b), keep)
    return acc.result()


def _w_anchors(_):
    _setup()
    acc = _Acc()
    for b in ANCHORS_BR:
        acc.note('[' + b + ']', judge_bracket(b))
    for t in ANCHORS_BOND:
        acc.note('C' + t + 'N', judge_bond(t))
    return acc.result()


def _w_bonds(args):
    prefix, depth = args
    _setup()
    acc = _Acc()
    for k in range(depth + 1):
        for suf in itertools.product(BOND_CHARS, repeat=k):
            t = prefix + ''.join(suf)
            acc.note('C' + t + 'N', judge_bond(t))
    return acc.result()


# ---- (2) matching -----------------------------------------------------------------------------------------------------------
BASES = ['A', 'C', 'N', 'O', 'S', 'C,N', 'N,O,S', '#6', '#7,#8', 'Cl', 'Fe', 'M']
PRIMS = {'D': ['D1', 'D2', 'D3', 'D4', 'D1,D2', 'D2,D3'],
         'h': ['h0', 'h1', 'h2', 'h3', 'h1,h2', 'h0,h1'],
         'x': ['x0', 'x1', 'x2', 'x3', 'x1,x2'],
         'z': ['z1', 'z2', 'z3', 'z4', 'z1,z2', 'z2,z4', 'a'],
         'r': ['r3', 'r4', 'r5', 'r6', 'r7', 'r5,r6', '!R']}
CHARGED = ['A+', 'A-', 'N+', 'O-', 'C-', 'N+;D4', 'A+2', 'A-;x0', 'N+;a', 'O-;D1', 'C,N+', '13C', '2H', '18O', '13C;D1', '12C', 'Cl-', 'Fe+2', 'Fe+3']
PAIR_ATOMS = ['A', 'C', 'N,O', 'A;a', 'A;D1', 'C;!R']
PAIR_BONDS = ['-', '=', '#', ':', '-,=', '=,:', '-,:', '!-', '!:', '!=', '-;@', '-;!@', '=;@', '=;!@', '!-;@', '-,=;!@', '!:;!@', ':;@', '#;!@']
EXTRA_MOLS = ['[13CH4]', '[2H]O[2H]', '[CH3]', 'C[CH2]', '[NH4+]', '[O-]C=O', 'C[N+](C)(C)C', '[Fe+2]', '[Cu+]', 'C~[Fe]~C', 'N~[Pt](~N)(Cl)Cl', '[Na+].[Cl-]',
              'C[Mg]Br', 'C[Si](C)(C)C', 'C[Sn](C)(C)C', 'C[Ge](C)C', 'CB(O)O', 'C[Se]C', 'C[As](C)C', 'c1ccccc1[Li]', 'C#N', 'C=C=C', 'C=C=O', 'O=C=O', 'C#CC=C',
              'c1ccc2ccccc2c1', 'C1CC1', 'C1CCC1', 'C1CC2CC12', 'C1CCC2(CC1)CC2', 'c1cc[nH]c1', 'c1ccncc1', 'C1CCCCCC1', '[O-][N+](=O)c1ccccc1', 'OS(=O)(=O)O',
              'CP(=O)(O)O', 'C[S+](C)[O-]', 'FC(F)(F)F', '[18OH2]', '[13CH3][13CH3]', 'C[O] |^1:1|', '[CH2]C[CH2] |^1:0,2|', '[H][H]', '[H]C([H])([H])[H]',
              'C[N+]#[C-]', 'N#[N+][O-]', 'c1ccc2c(c1)[nH]c1ccccc12', 'C1=CC=CC=C1', 'O=C1C=CC(=O)C=C1', '[Fe+3]', '[Zn+2].[O-]C=O.[O-]C=O']


def build_queries():
    """-> list of (text, kind, reference attributes) kind in atom / pair ; only queries the reference determines"""
    S = _setup()
    Q = S['Q']
    texts = []
    for b in BASES:
        texts.append(b)
        for k, ps in PRIMS.items():
            for p in ps:
                texts.append(f'{b};{p}')
    for b in ('A', 'C'):
        ks = list(PRIMS)
        for i, k1 in enumerate(ks):
            for k2 in ks[i + 1:]:
                for p1 in PRIMS[k1]:
                    for p2 in PRIMS[k2]:
                        texts.append(f'{b};{p1};{p2}')
    for c in CHARGED:
        texts.append(c)
        for p in ('D1', 'D3', 'h0', 'h2', 'x0', 'z1', '!R'):
            if ';' not in c:
                texts.append(f'{c};{p}')
    out = []
    for t in texts:
        try:
            ref = Q.read_bracket(t)
        except (Q.Reject, Q.Unspecified):
            continue
        out.append((f'[{t}]', 'atom', ref, False))
    for t in ('A', 'C', 'C;D2', 'O;D1', 'A;h2'):
        out.append((f'[{t}] |^1:0|', 'atom', Q.read_bracket(t), True))
    for a1 in PAIR_ATOMS:
        for a2 in PAIR_ATOMS:
            for b in PAIR_BONDS:
                out.append((f'[{a1}]{b}[{a2}]', 'pair', (Q.read_bracket(a1), Q.read_bond(b), Q.read_bracket(a2)), False))
    return out


_QC = {}


def _compiled():
    if 'q' not in _QC:
        S = _setup()
        qs = []
        for text, kind, ref, rad in build_queries():
            qs.append((text, kind, ref, rad, S['smarts'](text)))   # an exception here is a parsing violation reported by part (1) too
        _QC['q'] = qs
    return _QC['q']


def _spec(ref):
    return [k for k in ('isotope', 'charge', 'neighbors', 'implicit_hydrogens', 'heteroatoms', 'hybridization', 'ring_sizes') if ref[k]] + [ref['kind']]


def _w_match(args):
    mols = [_QC['mols'][i] for i in args]
    S = _setup()
    Q = S['Q']
    qs = _compiled()
    n, keys, fam, samples = 0, set(), {}, []

    def push(f, text, det):
        lst = fam.setdefault(f, [0, []])
        lst[0] += 1
        lst[1].append((len(text) + len(smi), text, det, smi))
        lst[1].sort()
        del lst[1][5:]
    for smi, mol in mols:
        try:
            atoms, bonds = Q.environment(mol)
        except Exception:
            raise
        ek = {a: zlib.crc32(repr(Q.env_key(e)).encode()) for a, e in atoms.items()}
        for text, kind, ref, rad, q in qs:
            n += 1
            try:
                maps = list(q.get_mapping(mol, automorphism_filter=False, _cython=False))
            except Exception as e:
                push(f'smarts-match-exc:{type(e).__name__}@{_where(e)}', text, f'{type(e).__name__}: {e} on {smi}')
                continue
            if kind == 'atom':
                qn = next(iter(q._atoms))
                hits = {m[qn] for m in maps}
                exp = {a for a, e in atoms.items() if Q.atom_matches(ref, e, rad)}
                if hits != exp:
                    for a in sorted(hits - exp):
                        push('smarts-match:false-hit:' + '+'.join(Q.failed(ref, atoms[a], rad)), text,
                             f'{text} hits atom {a} of {smi} whose environment {atoms[a]} does not satisfy it')
                    for a in sorted(exp - hits):
                        push('smarts-match:missed:' + '+'.join(_spec(ref)), text, f'{text} misses atom {a} of {smi} with environment {atoms[a]}')
                else:
                    qh = zlib.crc32(text.encode())
                    for a in hits:
                        keys.add(qh ^ ek[a])
                    if hits and len(samples) < 2 and ';' in text and len(hits) < len(atoms):
                        samples.append({'query': text, 'molecule': smi, 'hits': sorted(hits)})
            else:
                r1, rb, r2 = ref
                q1, q2 = list(q._atoms)
                hits = {(m[q1], m[q2]) for m in maps}
                exp = set()
                for k, be in bonds.items():
                    if not Q.bond_matches(rb, be):
                        continue
                    x, y = tuple(k)
                    for u, v in ((x, y), (y, x)):
                        if Q.atom_matches(r1, atoms[u]) and Q.atom_matches(r2, atoms[v]):
                            exp.add((u, v))
                if hits != exp:
                    for u, v in sorted(hits - exp):
                        be = bonds.get(frozenset((u, v)))
                        why = 'not-bonded' if be is None else ('bond-order' if be['order'] not in rb['order'] else
                                                                ('bond-in_ring' if not Q.bond_matches(rb, be) else 'atom'))
                        push(f'smarts-match:false-hit:pair:{why}', text, f'{text} hits pair {(u, v)} of {smi}: bond {be}, atoms {atoms[u]} {atoms[v]}')
                    for u, v in sorted(exp - hits):
                        push('smarts-match:missed:pair:' + ('ring-bond' if rb['in_ring'] is not None else 'bond'), text,
                             f'{text} misses pair {(u, v)} of {smi}: bond {bonds[frozenset((u, v))]}')
                else:
                    qh = zlib.crc32(text.encode())
                    for u, v in hits:
                        keys.add(qh ^ ek[u] ^ (ek[v] * 31 & 0xffffffff) ^ (bonds[frozenset((u, v))]['order'] << 3) ^ bonds[frozenset((u, v))]['in_ring'])
    return n, list(keys), fam, samples


# ---- (3) stereo marks ---------------------------------------------------------------------------------------------------------
def stereo_cases():
    """(query text, target smiles, context) : query text is both SMARTS of the documented subset and SMILES of C03's language"""
    subs = ['F', 'Cl', 'Br', 'I']
    out = []
    for mark in ('@', '@@'):
        for p in itertools.permutations(subs):
            out.append((f'{p[0]}[C{mark}]({p[1]})({p[2]}){p[3]}', 'chain'))
            out.append((f'[C{mark}]({p[0]})({p[1]})({p[2]}){p[3]}', 'first-atom'))
        for p in itertools.permutations(['F', 'Cl', 'Br']):
            out.append((f'{p[0]}[C{mark}]({p[1]}){p[2]}', 'three-neighbours'))
        for q in (f'F[C{mark}]1(Cl)CCO1', f'[C{mark}]1(F)(Cl)CCO1', f'O1CC[C{mark}]1(F)Cl', f'Cl[C{mark}]1(F)CCO1',
                  f'C1C[C{mark}](F)(Cl)O1', f'F[C{mark}]1(Cl)CCCO1', f'Cl[C{mark}]1(F)OCC1'):
            out.append((q, 'ring-closure'))
    targets = {'chain': ['F[C@](Cl)(Br)I', 'F[C@@](Cl)(Br)I', 'FC(Cl)(Br)I'], 'first-atom': ['F[C@](Cl)(Br)I', 'F[C@@](Cl)(Br)I'],
               'three-neighbours': ['F[C@H](Cl)Br', 'F[C@@H](Cl)Br', 'FC(Cl)Br'],
               'ring-closure': ['F[C@]1(Cl)CCO1', 'F[C@@]1(Cl)CCO1', 'FC1(Cl)CCO1', 'F[C@]1(Cl)CCCO1', 'F[C@@]1(Cl)CCCO1']}
    cases = [(q, t, ctx) for q, ctx in out for t in targets[ctx]]
    for q in ('F/C=C/F', 'F/C=C\\F', 'F\\C=C\\F', 'F\\C=C/F', 'F/C=C/Cl', 'Cl\\C=C/F', 'F/C(Cl)=C/F', 'F/C(Cl)=C(/F)Br', 'C(\\F)=C/F', 'C(/F)=C/F'):
        for t in ('F/C=C/F', 'F/C=C\\F', 'FC=CF', 'F/C=C/Cl', 'F/C=C\\Cl', 'F/C(Cl)=C/F', 'F/C(Cl)=C\\F', 'F/C(Cl)=C(/F)Br', 'F/C(Cl)=C(\\F)Br'):
            cases.append((q, t, 'cis-trans'))
    return cases


def _config(rm, query=False):
    """configuration of the reference molecule in spelling-independent form: tetrahedra: ('t', labels of the substituents sorted) -> sign over
    that sorted order (hydrogen last); double bonds: ('c', {elements of the two marked substituents}) -> cis"""
    from checks.b03 import _expected_sign, _perm_parity
    conf = {}
    tets = rm.tetrahedra()
    if query:  # a query centre with three neighbours and no hydrogen primitive: the implicit hydrogen is last (stated assumption)
        done = {i for i, *_ in tets}
        for i, a in enumerate(rm.atoms):
            if a.chiral and i not in done and len(a.order) == 3 and not a.hcount:
                tets.append((i, list(a.order) + ['H'], a.chiral))
    for i, nb, mark in tets:
        envn = [x for x in nb if x != 'H']
        s = _expected_sign(nb, mark)
        lab = sorted(envn, key=lambda x: _label(rm, x, i))
        if _perm_parity(envn, lab):
            s = not s
        conf[('t', tuple(_label(rm, x, i) for x in lab))] = s
    for a, b, x, y, cis in rm.cis_trans():
        conf[('c', frozenset((rm.atoms[x].element, rm.atoms[y].element)))] = cis
    return conf


def _label(rm, x, centre):
    """distinguishing label of a substituent atom of the stereo templates (element + its own neighbour elements)"""
    return rm.atoms[x].element + ''.join(sorted(rm.atoms[y].element for y in rm.neighbors(x) if y != centre))


def _w_stereo(cases):
    S = _setup()
    from oracles import o03_refsmiles as R
    n, keys, fam = 0, [], {}
    for q, t, ctx in cases:
        n += 1
        rq, rt = R.read(q).mols[0], R.read(t).mols[0]
        cq, ct = _config(rq, True), _config(rt)
        if not cq:
            continue
        graph_ok = True
        try:
            query = S['smarts'](q)
            mol = S['smiles'](t)
            plain = S['smarts'](q.replace('@', '').replace('/', '').replace('\\', ''))
            graph_ok = any(True for _ in plain.get_mapping(mol, _cython=False))
            hit = any(True for _ in query.get_mapping(mol, automorphism_filter=False, _cython=False))
        except Exception as e:
            lst = fam.setdefault(f'smarts-stereo-exc:{type(e).__name__}@{_where(e)}', [0, []])
            lst[0] += 1
            lst[1] = sorted(lst[1] + [(len(q), q, f'{type(e).__name__}: {e} on target {t}')])[:5]
            continue
        # expected: the constitution matches and every configuration the query spells is present with the same sign in the target
        exp = graph_ok and all(k in ct and ct[k] == v for k, v in cq.items())
        if graph_ok and ct and not all(k in ct for k in cq):
            continue   # the two spellings mark different substituents: not comparable through labels
        if hit != exp:
            lst = fam.setdefault(f'smarts-stereo:{ctx}', [0, []])
            lst[0] += 1
            lst[1] = sorted(lst[1] + [(len(q), q, f'query {q} on target {t}: matched={hit}, expected={exp} (query configuration {cq}, target {ct})')])[:5]
        else:
            keys.append(f'stereo:{q}|{t}')
    return n, keys, fam, []


# ---- driver -------------------------------------------------------------------------------------------------------------------
def _merge_fam(fam, f):
    for k, (cnt, lst) in f.items():
        e = fam.setdefault(k, [0, []])
        e[0] += cnt
        e[1] = sorted(set(e[1]) | set(map(tuple, lst)))[:5]


def _chunks(lst, k):
    return [lst[i:i + k] for i in range(0, len(lst), k)]


def bounded(run):
    import time
    from bounded.domains import corpus_sample, decorated_atlas, parse
    S = _setup()
    quick = run.tier == 'quick'
    fam, stats, tm = {}, {}, {}
    run.assume('reference reading of the documented SMARTS subset: oracles/o08_refsmarts.py, written from the docstring of chython.smarts() '
               '(three verdicts: documented / documented-as-unsupported / undetermined; undetermined strings only carry the raises-contract)',
               'the invalid-SMARTS error is IncorrectSmarts or its base class IncorrectSmiles (raised by the tokenizer/parser shared with SMILES); '
               'any other class (plain ValueError, TypeError, KeyError, IndexError ...) violates the last sentence of the property',
               'independent atom attributes: neighbours = bonds of order != 8; heteroatoms = such neighbours with Z not in {1, 6}; hybridisation = 4 if an '
               'aromatic bond, else 3 if a triple or two double bonds, else 2 if a double bond, else 1; implicit H, charge, isotope, radical = stored '
               'atom fields; atom/bond in a ring = not all incident bonds / the bond not a bridge (networkx.bridges, special bonds removed)',
               'ring sizes of an atom = sizes of the mol.sssr rings through it (ring perception is C06)',
               'any-metal M: the non-metal list of the comment in algorithms/isomorphism.py (H He B C N O F Ne Si P S Cl Ar Ge As Se Br Kr Sb Te I Xe At) '
               'plus Rn and Og',
               'stereo: query configuration and target configuration are both read by the C03 reference reader (oracles/o03_refsmiles.py); a query with '
               'three neighbours has the implicit hydrogen last')

    # (1) parsing --------------------------------------------------------------------------------------------------------------
    t0 = time.time()
    res = []
    K = 3 if quick else 4
    items = [(BR_FULL, (), 1, True)] + [(BR_FULL, (a, b), K - 2, True) for a in BR_FULL for b in BR_FULL]
    res += pmap(_w_br_tokens, items, chunksize=8)
    run.bound(f'bracket strings: all {sum(len(BR_FULL) ** k for k in range(1, K + 1))} strings of 1..{K} tokens over the {len(BR_FULL)}-token alphabet {BR_FULL}')
    K2 = 4 if quick else 5
    items = [(BR_SLICE, (a, b), K2 - 2, K2 <= 4) for a in BR_SLICE for b in BR_SLICE]
    res += pmap(_w_br_tokens, items, chunksize=4)
    run.bound(f'bracket strings: all {sum(len(BR_SLICE) ** k for k in range(2, K2 + 1))} strings of 2..{K2} tokens over the {len(BR_SLICE)}-token slice {BR_SLICE}')
    K3 = 4 if quick else 5
    items = [(BR_CHARS, (a, b), K3 - 2, False) for a in BR_CHARS for b in BR_CHARS]
    res += pmap(_w_br_tokens, items, chunksize=4)
    run.bound(f'bracket strings: all {sum(len(BR_CHARS) ** k for k in range(2, K3 + 1))} strings of 2..{K3} characters over {"".join(BR_CHARS)!r}')
    KB = 4 if quick else 5
    res += pmap(_w_bonds, [('', 1)] + [(a + b, KB - 2) for a in BOND_CHARS for b in BOND_CHARS], chunksize=4)
    run.bound(f'bond strings C<b>N: all {sum(len(BOND_CHARS) ** k for k in range(0, KB + 1))} strings b of 0..{KB} characters over {"".join(BOND_CHARS)!r}')
    res += [_w_anchors(None)]
    run.bound(f'anchors: {len(ANCHORS_BR)} bracket and {len(ANCHORS_BOND)} bond strings (shortest witnesses of every family reproduced on the pinned tree)')
    for n, keys, st, f, samples in res:
        run.case(n)
        run.nontrivial.update(keys)
        for k, v in st.items():
            stats[k] = stats.get(k, 0) + v
        _merge_fam(fam, f)
        for s_ in samples:
            if len(run.samples) < 4:
                run.samples.append(s_)
    tm['parsing'] = round(time.time() - t0, 1)

    # (2) matching -------------------------------------------------------------------------------------------------------------
    t0 = time.time()
    try:
        qs = _compiled()
    except Exception as e:
        qs = None
        fam.setdefault(f'smarts-exc:{type(e).__name__}@{_where(e)}:documented-input', [1, [(0, 'query set of part (2)', f'{type(e).__name__}: {e}')]])
    if qs is not None:
        mols = []
        for s in corpus_sample(200 if quick else 1500, 'b08'):
            mols.append((s, parse(s)))
        raw = corpus_sample(40 if quick else 200, 'b08-raw')
        for s in raw:
            mols.append((s + ' (as parsed)', S['smiles'](s)))
        nat = 0
        for g, el, od, m in decorated_atlas(6 if quick else 7, trials=3, tag='b08'):
            mols.append((str(m), m))
            nat += 1
        from oracles.o03_refsmiles import SYMBOLS
        nel = 0
        for sym in SYMBOLS:
            try:
                mols.append((f'[{sym}]', S['smiles'](f'[{sym}]')))
                nel += 1
            except ValueError:
                pass
        for s in EXTRA_MOLS:
            mols.append((s, S['smiles'](s)))
        _QC['mols'] = mols
        res = pmap(_w_match, _chunks(list(range(len(mols))), 6 if quick else 12))
        for n, keys, f, samples in res:
            run.case(n)
            run.nontrivial.update(keys)
            _merge_fam(fam, f)
            for s_ in samples:
                if len(run.samples) < 7:
                    run.samples.append(s_)
        na = sum(1 for q in qs if q[1] == 'atom')
        run.bound(f'matching: {na} single-atom queries (12 element specs x 31 primitives, all cross-kind primitive pairs on [A] and [C], charge / isotope / '
                  f'radical variants) + {len(qs) - na} two-atom queries ({len(PAIR_ATOMS)}^2 atom pairs x {len(PAIR_BONDS)} bond specs) x {len(mols)} molecules: '
                  f'{200 if quick else 1500} corpus (kekule+thiele), {len(raw)} corpus as parsed, {nat} decorated atlas graphs <= {6 if quick else 7} nodes, '
                  f'{nel} single-element molecules, {len(EXTRA_MOLS)} hand-written (metals, special bonds, isotopes, radicals, cumulenes, small rings)')
    tm['matching'] = round(time.time() - t0, 1)

    # (3) stereo -----------------------------------------------------------------------------------------------------------------
    t0 = time.time()
    cases = stereo_cases()
    for n, keys, f, _ in pmap(_w_stereo, _chunks(cases, 40)):
        run.case(n)
        run.nontrivial.update(keys)
        _merge_fam(fam, f)
    run.bound(f'stereo marks: {len(cases)} (query spelling, target) pairs: all 24 neighbour orders x @/@@ in chain and first-atom position, three-neighbour '
              f'centres, ring-closure spellings, cis/trans spellings')
    tm['stereo'] = round(time.time() - t0, 1)

    run.notes['b08_outcomes'] = dict(sorted(stats.items(), key=lambda kv: -kv[1])[:30])
    run.notes['b08_seconds'] = tm
    for k in sorted(fam):
        cnt, lst = fam[k]
        _, s, det, *mol = lst[0]
        w = {'smarts': s, 'examples': [x[1] for x in lst], 'count': cnt}
        if mol:
            w['molecule'] = mol[0]
            w['example_molecules'] = [x[3] for x in lst]
        run.violation(k, f'C08 family {k}: {cnt} case(s), shortest {s!r}: {det}', witness=w, native=det)


def replay(rec):
    S = _setup()
    Q = S['Q']
    w = rec['witness']
    ok = True
    if w.get('molecule'):   # matching witness: (query, molecule) pairs
        from bounded.domains import parse
        for text, smi in zip(w['examples'], w['example_molecules']):
            mol = S['smiles'](smi[:-12]) if smi.endswith(' (as parsed)') else parse(smi)
            q = S['smarts'](text)
            atoms, bonds = Q.environment(mol)
            body = text.split()[0]
            rad = '|^1:0|' in text
            maps = list(q.get_mapping(mol, automorphism_filter=False, _cython=False))
            if body.count('[') == 1:
                ref = Q.read_bracket(body[1:-1])
                hits = {m[next(iter(q._atoms))] for m in maps}
                exp = {a for a, e in atoms.items() if Q.atom_matches(ref, e, rad)}
            else:
                a1, rest = body[1:].split(']', 1)
                b, a2 = rest.split('[', 1)
                r1, rb, r2 = Q.read_bracket(a1), Q.read_bond(b), Q.read_bracket(a2[:-1])
                q1, q2 = list(q._atoms)
                hits = {(m[q1], m[q2]) for m in maps}
                exp = {(u, v) for k, be in bonds.items() if Q.bond_matches(rb, be) for u, v in (tuple(k), tuple(k)[::-1])
                       if Q.atom_matches(r1, atoms[u]) and Q.atom_matches(r2, atoms[v])}
            print(f'  {text} on {smi}: hits {sorted(hits)} expected {sorted(exp)}')
            ok = ok and hits == exp
        return ok
    if rec['key'].startswith('smarts-stereo'):
        n, keys, fam, _ = _w_stereo([c for c in stereo_cases() if c[0] in w['examples']])
        for k, (cnt, lst) in fam.items():
            for x in lst:
                print('  ', x[2])
        return not fam
    for s in [w['smarts']] + list(w.get('examples', ())):
        if s.startswith('[') and s.endswith(']') and '[' not in s[1:]:
            st, fam, det = judge_bracket(s[1:-1])
        elif s.startswith('C') and s.endswith('N') and '[' not in s:
            st, fam, det = judge_bond(s[1:-1])
        else:
            continue
        print(f'  {s!r}: {st} {fam or ""} {det or ""}')
        ok = ok and st != 'violation'
    return ok
