"""C08 bounded stand-in (engine B): SMARTS primitives and query atoms match exactly what is documented.

Contracts attached to the real `chython.smarts(text)` and `QueryContainer.get_mapping(mol, _cython=False)`:
 (1) parsing: for every bracket string / bond string of the domain, judged by the reference reading of the documented subset
     (oracles/o08_refsmarts.py): accepted => smarts() returns a query whose atom / bond has exactly the documented attributes;
     documented as unsupported => smarts() raises the invalid-SMARTS error; undetermined by the docstring => only the raises
     contract.  In every case an exception that is not IncorrectSmarts / IncorrectSmiles (the shared tokenizer raises the base class)
     is a violation.
 (2) matching: for every primitive, every pair of primitives, every two-atom query [a1]bond[a2] x every molecule of the domain: the
     set of atoms (ordered atom pairs) hit by get_mapping(automorphism_filter=False, _cython=False) equals the set of atoms (pairs)
     whose independently determined attributes satisfy the documented meaning.
 (3) stereo marks in queries: a query spelled with @/@@ (or / \\) matches a target iff the reference reader of C03 gives both the same
     configuration under the (unique) atom mapping.
 (4) whole strings (audit extension): strings built from templates (branches, ring closures carrying the bond primitive on either digit, %nn,
     components, atom mapping, masked atoms, CXSMARTS radicals ^1..^7 on any atom): the built graph has exactly the written atoms (attributes,
     numbering: mapping number / masked atoms above 10**9 / others in 1..10**9) and bonds (order list, ring mark); template strings with generic
     atoms are also matched against molecules: the set of mappings equals the reference embeddings (oracles/o08_whole.py).  Bond texts are read in
     eight surroundings (after a bracket atom, after a closure digit, in / after a branch, on an opening / closing digit, %nn, two-letter atoms).
     Every string over a whole-string alphabet up to a length: raises-contract only.
 (5) queries built through the Python API (QueryElement.from_symbol / from_atomic_number / AnyElement / ListElement / AnyMetal keyword values as
     int, list, tuple; QueryContainer.add_atom(str | int | Element | Query), add_bond(int | tuple | list | set | Bond | QueryBond), copies,
     QueryBond.from_bond, QueryElement.from_atom(atom, flag=True)): hits == atoms / pairs whose independent attributes satisfy the values passed.
 (6) labels the predicates read (neighbors, heteroatoms, hybridization, ring_sizes, in_ring of atoms and bonds) after every public editing
     operation of seeded scripts (add / delete atoms and bonds, special bonds, transactions, copy, substructure, split, union, remap with gaps,
     kekule / thiele, explicit / implicit hydrogens) equal the independent attributes of a fresh container with the same atoms and bonds.
Violations are grouped in families (witness = shortest input).  Every key carries an INPUT CLASS decided by an independent predicate on the input:
`smarts-exc:<Exc>@<dir/file>:<function>:<class>` with class = documented-input | unsupported-<reason of the reference> | undetermined |
bond:<...> | whole:<documented-input | duplicate-mapping | cx-radical-index-out-of-range | cx-radical-on-metal | blank | self-ring-closure |
fuzz-with-cx-radical | fuzz | <anchor class>>; `smarts-accept:<reason>`, `smarts-reject:<Exc>@<file>:<function>`, `smarts-diff:[whole:]<attribute>`,
`smarts-match:false-hit:<attributes>`, `smarts-match:missed:<attributes of the query>`, `smarts-match:whole:<false-hit|missed>:<template>`,
`smarts-stereo:<context>[:creation-order-odd|even]`, `api-match:...`, `api-from_atom:<exc|match>:...:<flag>:<ring-atom|chain-atom>`,
`labels-diff:<label>:after-<operation>`, `labels-diff:bond-in_ring:special-bond-between-ring-mates`, `labels-match:<label>:edited-molecule`.
The notes of the evidence hold, for every family seen, how many inputs of the domain are members of its input class and how many of them fail.
"""
import itertools
import os
import traceback
import zlib

from vlib import env
from vlib.report import pmap

RULE = ('non-trivial = (a) bracket/bond string inside the documented subset whose built attributes were compared (key = string); '
        '(b) (query, distinct independently determined atom or bond environment) pair with a verified hit (key = crc32 of both); '
        '(c) whole string / API query / edit operation whose built graph, hits or labels were compared and found equal (key = text or crc32)')

BR_FULL = ['C', 'N', 'O', 'Cl', 'Fe', 'A', 'M', '#6', '#8', 'c', 'Xx', 'H', ';', ',', 'D1', 'D2', 'D3', 'h0', 'h1', 'r5', 'r6', 'x1', 'z1', 'z2',
           'z4', 'a', '!R', 'R', 'X2', 'v3', 'D', 'D15', 'z5', 'r2', 'h', '+', '-', '++', '+2', '-3', '+5', '13', '0', '@', '@@', ':1', ':0',
           '&', '!', '$', '*']
BR_SLICE = ['C', 'N', 'A', 'M', '#6', ';', ',', 'D1', 'D2', 'h1', 'r5', 'x1', 'z2', 'a', '!R', 'R', 'D', 'z5', '+', '-', '+2', '13', '@', ':1', '&', '!', 'H', 'Cl']
BR_CHARS = list('CNAM#6;,Dhrxza!R12+-@:&0')
BOND_CHARS = list('-=#:~,!;@/\\')
# fixed, tier-independent inputs (shortest witnesses of every family reproduced on the pinned tree): same family key set in both tiers
ANCHORS_BR = ['!;,', 'C;,', '+-', '+M', 'M+', '13A', '0A', '#!', '#120,', '#613,C', ',', 'C,', 'A;D15', 'A;D1,D1', '#120', '!', 'Xx', 'c', 'C&D2', 'C@@@', 'C+5',
              'C:0', 'HH', 'A;z0', 'A;z5', 'A;r0', 'A;r2', 'A;D!,',
              # SMARTS outside the subset: recursive forms, atom negation, R / X / v / H / ^ primitives, hydrogen counts, wildcard, aromatic symbols
              '$(CC)', 'C;$(CC)', 'C;$([C;D1])', '$([C;D1]);D2', '!C', '!#6', 'C;!D1', 'C;!r5', 'C;R', 'C;R2', 'C;X4', 'C;v4', 'C;H1', 'CH3', 'CH', 'C;^2', '*', '*;D2',
              'nH', 'se', 'as', 'c;a', 'n', 'C;D2&h1', 'C;D{1-2}', 'C;D>1', '#6;a', 'C,N;D1,h1']
ANCHORS_BOND = ['!~', '#;@;@', '=;@;@']

_S = {}


def _setup():
    if _S:
        return _S
    env.setup()
    from chython import smarts, smiles
    from chython.exceptions import IncorrectSmiles
    from chython.periodictable import AnyElement, AnyMetal, ListElement, QueryElement
    from oracles import o08_refsmarts as Q
    from oracles import o08_whole as W
    _S.update(smarts=smarts, smiles=smiles, Bad=IncorrectSmiles, Q=Q, W=W, AnyElement=AnyElement, AnyMetal=AnyMetal, ListElement=ListElement,
              QueryElement=QueryElement, repo=os.path.abspath(env.REPO) + os.sep)
    return _S


def _where(e):
    repo = _S['repo']
    last = None
    for fr, _ in traceback.walk_tb(e.__traceback__):
        fn = os.path.abspath(fr.f_code.co_filename)
        if fn.startswith(repo):
            last = f'{"/".join(fn[len(repo):].split(os.sep)[-2:])}:{fr.f_code.co_name}'
    return last or 'outside-tree'


def _input_class(verdict):
    """input class of a string, decided by the reference reading alone (never by what the library did): part of every smarts-exc key, so that
    the same exception at the same place on another class of inputs is a different family.  documented-input: inside the documented subset;
    unsupported-<reason>: documented as unsupported (the last sentence of the property speaks about these: one class per reason);
    undetermined: the docstring does not determine the string (only the raises-contract applies; one class)"""
    if verdict == 'accept':
        return 'documented-input'
    kind, reason = verdict.split(':', 1)
    return 'unsupported-' + reason if kind == 'reject' else 'undetermined'


# ---- (1) parsing ----------------------------------------------------------------------------------------------------------
def atom_view(q):
    (n, a), = q._atoms.items()
    return _view_of(n, a)


def _view_of(n, a):
    S = _S
    v = dict(kind=None, elements=(), isotope=None, charge=0, stereo=None, neighbors=(), implicit_hydrogens=(), heteroatoms=(),
             hybridization=(), ring_sizes=(), masked=False, number=n)
    if isinstance(a, S['AnyMetal']):
        v['kind'] = 'metal'
    elif isinstance(a, S['AnyElement']):
        v['kind'] = 'any'
    elif isinstance(a, S['ListElement']):
        v['kind'], v['elements'] = 'list', tuple(a._elements)
    elif isinstance(a, S['QueryElement']):
        v['kind'], v['elements'] = 'element', (a.atomic_symbol,)
        v['isotope'] = a.isotope
    else:
        v['kind'] = type(a).__name__
    v['neighbors'], v['hybridization'], v['masked'] = a.neighbors, a.hybridization, a.masked
    if v['kind'] != 'metal':
        v.update(charge=a.charge, stereo=a.stereo, implicit_hydrogens=a.implicit_hydrogens, heteroatoms=a.heteroatoms, ring_sizes=a.ring_sizes,
                 radical=a.is_radical)
    return v


def judge_bracket(body):
    """-> (status, family, detail)"""
    S = _S or _setup()
    Q = S['Q']
    s = '[' + body + ']'
    try:
        ref = Q.read_bracket(body)
        verdict = 'accept'
    except Q.Reject as e:
        ref, verdict = None, 'reject:' + e.args[0]
    except Q.Unspecified as e:
        ref, verdict = None, 'unspecified:' + e.args[0]
    try:
        q = S['smarts'](s)
    except S['Bad'] as e:
        if verdict == 'accept':
            return 'violation', f'smarts-reject:{type(e).__name__}@{_where(e)}', f'documented SMARTS rejected: {type(e).__name__}: {e}'
        return 'rejected', None, verdict
    except Exception as e:
        fam = f'smarts-exc:{type(e).__name__}@{_where(e)}:{_input_class(verdict)}'
        return 'violation', fam, f'{type(e).__name__}: {e} (reference: {verdict})'
    if verdict.startswith('unspecified'):
        return 'unspecified', None, verdict
    if verdict.startswith('reject'):
        return 'violation', f'smarts-accept:{verdict[7:]}', f'unsupported SMARTS ({verdict[7:]}) accepted: {_atoms_repr(q)}'
    if len(q._atoms) != 1:
        return 'violation', 'smarts-diff:atom-count', f'{len(q._atoms)} atoms built'
    v = atom_view(q)
    for k in ('kind', 'elements', 'isotope', 'charge', 'stereo', 'neighbors', 'implicit_hydrogens', 'heteroatoms', 'hybridization', 'ring_sizes', 'masked'):
        if k == 'elements':
            ok = sorted(v[k]) == sorted(ref[k]) if ref['kind'] == 'list' else v[k] == ref[k]
        elif k == 'isotope':
            ok = (v[k] or None) == ref[k]
        else:
            ok = v[k] == ref[k]
        if not ok:
            return 'violation', f'smarts-diff:{k}', f'{k}: built {v[k]!r}, documented {ref[k]!r}'
    if ref['mapping'] and v['number'] != ref['mapping']:
        return 'violation', 'smarts-diff:mapping', f'atom number {v["number"]} != mapping {ref["mapping"]}'
    if not ref['mapping'] and (v['number'] > 10 ** 9) != ref['masked']:
        return 'violation', 'smarts-diff:masked-number', f'atom number {v["number"]} masked {ref["masked"]}'
    return 'accepted', None, None


def judge_bond(text):
    S = _S or _setup()
    Q = S['Q']
    s = 'C' + text + 'N'
    try:
        ref = Q.read_bond(text)
        verdict = 'accept'
    except Q.Reject as e:
        ref, verdict = None, 'reject:' + e.args[0]
    except Q.Unspecified as e:
        ref, verdict = None, 'unspecified:' + e.args[0]
    try:
        q = S['smarts'](s)
    except S['Bad'] as e:
        if verdict == 'accept':
            return 'violation', f'smarts-reject:{type(e).__name__}@{_where(e)}', f'documented SMARTS rejected: {type(e).__name__}: {e}'
        return 'rejected', None, verdict
    except Exception as e:
        fam = f'smarts-exc:{type(e).__name__}@{_where(e)}:bond:{_input_class(verdict)}'
        return 'violation', fam, f'{type(e).__name__}: {e} (reference: {verdict})'
    if verdict.startswith('unspecified'):
        return 'unspecified', None, verdict
    if verdict.startswith('reject'):
        return 'violation', f'smarts-accept:bond:{verdict[7:]}', f'unsupported SMARTS bond ({verdict[7:]}) accepted: {[repr(b) for *_, b in q.bonds()]}'
    bs = list(q.bonds())
    if len(q._atoms) != 2 or len(bs) != 1:
        return 'violation', 'smarts-diff:bond-count', f'{len(q._atoms)} atoms {len(bs)} bonds'
    b = bs[0][2]
    if tuple(b.order) != ref['order']:
        return 'violation', 'smarts-diff:bond-order', f'order built {b.order}, documented {ref["order"]}'
    if b.in_ring != ref['in_ring']:
        return 'violation', 'smarts-diff:bond-in_ring', f'in_ring built {b.in_ring}, documented {ref["in_ring"]}'
    return 'accepted', None, None


def _atoms_repr(q):
    try:
        return {n: (type(a).__name__, {k: getattr(a, k, None) for k in ('charge', 'isotope', 'neighbors', 'hybridization', 'ring_sizes',
                                                                         'implicit_hydrogens', 'heteroatoms', 'masked', 'stereo')})
                for n, a in q._atoms.items()}
    except Exception:
        return '?'


class _Acc:
    def __init__(self):
        self.n, self.keys, self.stat, self.fam, self.samples = 0, [], {}, {}, []

    def member(self, cls):
        k = 'class-members:' + cls
        self.stat[k] = self.stat.get(k, 0) + 1

    def note(self, s, res, keep=True):
        st, fam, det = res
        self.n += 1
        # members of the input class (decided by the reference verdict alone) - the denominators of the tightness table of the known families
        if st == 'violation':
            if fam.startswith('smarts-exc:'):
                self.member(fam.split(':', 3)[3])
        elif st == 'accepted':
            self.member('documented-input')
        elif det.startswith('x:'):
            self.member('whole:' + det[2:])
        else:
            self.member(_input_class(det))
        if st == 'violation':
            self.push(fam, s, det)
        elif st == 'accepted':
            if keep:
                self.keys.append(s)
            self.stat['accepted'] = self.stat.get('accepted', 0) + 1
            if len(self.samples) < 2 and len(s) > 7:
                self.samples.append({'smarts': s, 'outcome': 'built attributes equal the documented ones'})
        else:
            k = st + ':' + det.split(':', 1)[1]
            self.stat[k] = self.stat.get(k, 0) + 1

    def push(self, fam, s, det):
        lst = self.fam.setdefault(fam, [0, []])
        lst[0] += 1
        lst[1].append((len(s), s, det))
        lst[1].sort()
        del lst[1][5:]

    def result(self):
        return self.n, self.keys, self.stat, self.fam, self.samples


def _w_br_tokens(args):
    alphabet, prefix, depth, keep = args
    _setup()
    acc = _Acc()
    base = ''.join(prefix)
    for k in range(depth + 1):
        for suf in itertools.product(alphabet, repeat=k):
            b = base + ''.join(suf)
            acc.note('[' + b + ']', judge_bracket(b), keep)
    return acc.result()


def _w_anchors(_):
    _setup()
    acc = _Acc()
    for b in ANCHORS_BR:
        acc.note('[' + b + ']', judge_bracket(b))
    for t in ANCHORS_BOND:
        acc.note('C' + t + 'N', judge_bond(t))
    return acc.result()


def _w_bonds(args):
    prefix, depth = args
    _setup()
    acc = _Acc()
    for k in range(depth + 1):
        for suf in itertools.product(BOND_CHARS, repeat=k):
            t = prefix + ''.join(suf)
            acc.note('C' + t + 'N', judge_bond(t))
    return acc.result()


# ---- (2) matching -----------------------------------------------------------------------------------------------------------
BASES = ['A', 'C', 'N', 'O', 'S', 'C,N', 'N,O,S', '#6', '#7,#8', 'Cl', 'Fe', 'M']
PRIMS = {'D': ['D1', 'D2', 'D3', 'D4', 'D1,D2', 'D2,D3'],
         'h': ['h0', 'h1', 'h2', 'h3', 'h1,h2', 'h0,h1'],
         'x': ['x0', 'x1', 'x2', 'x3', 'x1,x2'],
         'z': ['z1', 'z2', 'z3', 'z4', 'z1,z2', 'z2,z4', 'a'],
         'r': ['r3', 'r4', 'r5', 'r6', 'r7', 'r5,r6', '!R']}
CHARGED = ['A+', 'A-', 'N+', 'O-', 'C-', 'N+;D4', 'A+2', 'A-;x0', 'N+;a', 'O-;D1', 'C,N+', '13C', '2H', '18O', '13C;D1', '12C', 'Cl-', 'Fe+2', 'Fe+3']
PAIR_ATOMS = ['A', 'C', 'N,O', 'A;a', 'A;D1', 'C;!R']
PAIR_BONDS = ['-', '=', '#', ':', '-,=', '=,:', '-,:', '!-', '!:', '!=', '-;@', '-;!@', '=;@', '=;!@', '!-;@', '-,=;!@', '!:;!@', ':;@', '#;!@']
EXTRA_MOLS = ['[13CH4]', '[2H]O[2H]', '[CH3]', 'C[CH2]', '[NH4+]', '[O-]C=O', 'C[N+](C)(C)C', '[Fe+2]', '[Cu+]', 'C~[Fe]~C', 'N~[Pt](~N)(Cl)Cl', '[Na+].[Cl-]',
              'C[Mg]Br', 'C[Si](C)(C)C', 'C[Sn](C)(C)C', 'C[Ge](C)C', 'CB(O)O', 'C[Se]C', 'C[As](C)C', 'c1ccccc1[Li]', 'C#N', 'C=C=C', 'C=C=O', 'O=C=O', 'C#CC=C',
              'c1ccc2ccccc2c1', 'C1CC1', 'C1CCC1', 'C1CC2CC12', 'C1CCC2(CC1)CC2', 'c1cc[nH]c1', 'c1ccncc1', 'C1CCCCCC1', '[O-][N+](=O)c1ccccc1', 'OS(=O)(=O)O',
              'CP(=O)(O)O', 'C[S+](C)[O-]', 'FC(F)(F)F', '[18OH2]', '[13CH3][13CH3]', 'C[O] |^1:1|', '[CH2]C[CH2] |^1:0,2|', '[H][H]', '[H]C([H])([H])[H]',
              'C[N+]#[C-]', 'N#[N+][O-]', 'c1ccc2c(c1)[nH]c1ccccc12', 'C1=CC=CC=C1', 'O=C1C=CC(=O)C=C1', '[Fe+3]', '[Zn+2].[O-]C=O.[O-]C=O']


def build_queries():
    """-> list of (text, kind, reference attributes) kind in atom / pair ; only queries the reference determines"""
    S = _setup()
    Q = S['Q']
    texts = []
    for b in BASES:
        texts.append(b)
        for k, ps in PRIMS.items():
            for p in ps:
                texts.append(f'{b};{p}')
    for b in ('A', 'C'):
        ks = list(PRIMS)
        for i, k1 in enumerate(ks):
            for k2 in ks[i + 1:]:
                for p1 in PRIMS[k1]:
                    for p2 in PRIMS[k2]:
                        texts.append(f'{b};{p1};{p2}')
    texts += MATCH_EXTRA
    for c in CHARGED:
        texts.append(c)
        for p in ('D1', 'D3', 'h0', 'h2', 'x0', 'z1', '!R'):
            if ';' not in c:
                texts.append(f'{c};{p}')
    out = []
    for t in texts:
        try:
            ref = Q.read_bracket(t)
        except (Q.Reject, Q.Unspecified):
            continue
        out.append((f'[{t}]', 'atom', ref, False))
    for t in ('A', 'C', 'C;D2', 'O;D1', 'A;h2'):
        out.append((f'[{t}] |^1:0|', 'atom', Q.read_bracket(t), True))
    for a1 in PAIR_ATOMS:
        for a2 in PAIR_ATOMS:
            for b in PAIR_BONDS:
                out.append((f'[{a1}]{b}[{a2}]', 'pair', (Q.read_bracket(a1), Q.read_bond(b), Q.read_bracket(a2)), (False, False)))
    from bounded.d08_extra import bond_texts
    for b in bond_texts():   # every determined bond text (lists in both orders, all four not-bonds, each bare / ;@ / ;!@) on a reduced atom set
        if b in PAIR_BONDS:
            continue
        for a1, a2 in PAIR2_ATOMS:
            out.append((f'[{a1}]{b}[{a2}]', 'pair', (Q.read_bracket(a1), Q.read_bond(b), Q.read_bracket(a2)), (False, False)))
    for text, a1, b, a2, rad in RAD_PAIRS:
        out.append((text, 'pair', (Q.read_bracket(a1), Q.read_bond(b), Q.read_bracket(a2)), rad))
    return out


_QC = {}


def _compiled():
    if 'q' not in _QC:
        S = _setup()
        qs = []
        for text, kind, ref, rad in build_queries():
            qs.append((text, kind, ref, rad, S['smarts'](text)))   # an exception here is a parsing violation reported by part (1) too
        _QC['q'] = qs
    return _QC['q']


def _spec(ref):
    return [k for k in ('isotope', 'charge', 'neighbors', 'implicit_hydrogens', 'heteroatoms', 'hybridization', 'ring_sizes') if ref[k]] + [ref['kind']]


def _w_match(args):
    mols = [_QC['mols'][i] for i in args]
    S = _setup()
    Q = S['Q']
    qs = _compiled()
    n, keys, fam, samples = 0, set(), {}, []

    def push(f, text, det):
        lst = fam.setdefault(f, [0, []])
        lst[0] += 1
        lst[1].append((len(text) + len(smi), text, det, smi))
        lst[1].sort()
        del lst[1][5:]
    for smi, mol in mols:
        try:
            atoms, bonds = Q.environment(mol)
        except Exception:
            raise
        ek = {a: zlib.crc32(repr(Q.env_key(e)).encode()) for a, e in atoms.items()}
        for text, kind, ref, rad, q in qs:
            n += 1
            try:
                maps = list(q.get_mapping(mol, automorphism_filter=False, _cython=False))
            except Exception as e:
                push(f'smarts-match-exc:{type(e).__name__}@{_where(e)}', text, f'{type(e).__name__}: {e} on {smi}')
                continue
            if kind == 'atom':
                qn = next(iter(q._atoms))
                hits = {m[qn] for m in maps}
                exp = {a for a, e in atoms.items() if Q.atom_matches(ref, e, rad)}
                if hits != exp:
                    for a in sorted(hits - exp):
                        push('smarts-match:false-hit:' + '+'.join(Q.failed(ref, atoms[a], rad)), text,
                             f'{text} hits atom {a} of {smi} whose environment {atoms[a]} does not satisfy it')
                    for a in sorted(exp - hits):
                        push('smarts-match:missed:' + '+'.join(_spec(ref)), text, f'{text} misses atom {a} of {smi} with environment {atoms[a]}')
                else:
                    qh = zlib.crc32(text.encode())
                    for a in hits:
                        keys.add(qh ^ ek[a])
                    if hits and len(samples) < 2 and ';' in text and len(hits) < len(atoms):
                        samples.append({'query': text, 'molecule': smi, 'hits': sorted(hits)})
            else:
                r1, rb, r2 = ref
                q1, q2 = list(q._atoms)
                hits = {(m[q1], m[q2]) for m in maps}
                exp = set()
                for k, be in bonds.items():
                    if not Q.bond_matches(rb, be):
                        continue
                    x, y = tuple(k)
                    for u, v in ((x, y), (y, x)):
                        if Q.atom_matches(r1, atoms[u], rad[0]) and Q.atom_matches(r2, atoms[v], rad[1]):
                            exp.add((u, v))
                if hits != exp:
                    chord = lambda u, v: mol.has_bond(u, v) and _S['W'].special_chord(mol, frozenset((u, v)))
                    for u, v in sorted(hits - exp):
                        be = bonds.get(frozenset((u, v)))
                        why = 'not-bonded' if be is None else ('bond-order' if be['order'] not in rb['order'] else
                                                                ('bond-in_ring' if not Q.bond_matches(rb, be) else 'atom'))
                        push('labels-diff:bond-in_ring:special-bond-between-ring-mates' if why == 'bond-in_ring' and chord(u, v) else
                             f'smarts-match:false-hit:pair:{why}', text, f'{text} hits pair {(u, v)} of {smi}: bond {be}, atoms {atoms[u]} {atoms[v]}')
                    for u, v in sorted(exp - hits):
                        push('labels-diff:bond-in_ring:special-bond-between-ring-mates' if rb['in_ring'] is not None and chord(u, v) else
                             'smarts-match:missed:pair:' + ('ring-bond' if rb['in_ring'] is not None else 'bond'), text,
                             f'{text} misses pair {(u, v)} of {smi}: bond {bonds[frozenset((u, v))]}')
                else:
                    qh = zlib.crc32(text.encode())
                    for u, v in hits:
                        keys.add(qh ^ ek[u] ^ (ek[v] * 31 & 0xffffffff) ^ (bonds[frozenset((u, v))]['order'] << 3) ^ bonds[frozenset((u, v))]['in_ring'])
    return n, list(keys), fam, samples


# ---- (3) stereo marks ---------------------------------------------------------------------------------------------------------
def stereo_cases():
    """(query text, target smiles, context) : query text is both SMARTS of the documented subset and SMILES of C03's language"""
    subs = ['F', 'Cl', 'Br', 'I']
    out = []
    for mark in ('@', '@@'):
        for p in itertools.permutations(subs):
            out.append((f'{p[0]}[C{mark}]({p[1]})({p[2]}){p[3]}', 'chain'))
            out.append((f'[C{mark}]({p[0]})({p[1]})({p[2]}){p[3]}', 'first-atom'))
        for p in itertools.permutations(['F', 'Cl', 'Br']):
            out.append((f'{p[0]}[C{mark}]({p[1]}){p[2]}', 'three-neighbours'))
        for x, y in (('F', 'Cl'), ('Cl', 'F')):
            for tpl in ('{x}[C{m}]1({y})CCO1', '[C{m}]1({x})({y})CCO1', 'O1CC[C{m}]1({x}){y}', 'C1C[C{m}]({x})({y})O1', '{x}[C{m}]1({y})CCCO1', '{x}[C{m}]1({y})OCC1',
                        'C1O[C{m}]({x})({y})C1', '[C{m}]1({x})({y})OCC1', 'O1[C{m}]({x})({y})CC1', 'C1CO[C{m}]1({x}){y}', '{x}[C{m}]1({y})CCC1O', 'OC1CC[C{m}]1({x}){y}'):
                out.append((tpl.format(x=x, y=y, m=mark), 'ring-closure'))
        nums = (9, 2, 7, 1, 4)
        for k, p in enumerate(itertools.permutations(subs)):   # atom numbers given by mapping, not 1..N in written order
            a, b, c, d, e = nums[k % 5:] + nums[:k % 5]
            out.append((f'[{p[0]}:{a}][C{mark}:{b}]([{p[1]}:{c}])([{p[2]}:{d}])[{p[3]}:{e}]', 'mapped-numbers'))
        for p in itertools.permutations(['F', 'Cl', 'Br']):
            out.append((f'{p[0]}[C{mark}]({p[1]}){p[2]}', 'explicit-hydrogen-target'))
            out.append((f'{p[0]}[C{mark}]([H])({p[1]}){p[2]}', 'explicit-hydrogen-target'))
    targets = {'chain': ['F[C@](Cl)(Br)I', 'F[C@@](Cl)(Br)I', 'FC(Cl)(Br)I'], 'first-atom': ['F[C@](Cl)(Br)I', 'F[C@@](Cl)(Br)I'],
               'three-neighbours': ['F[C@H](Cl)Br', 'F[C@@H](Cl)Br', 'FC(Cl)Br'],
               'ring-closure': ['F[C@]1(Cl)CCO1', 'F[C@@]1(Cl)CCO1', 'FC1(Cl)CCO1', 'F[C@]1(Cl)CCCO1', 'F[C@@]1(Cl)CCCO1', 'F[C@]1(Cl)CCC1O', 'F[C@@]1(Cl)CCC1O'],
               'mapped-numbers': ['F[C@](Cl)(Br)I', 'F[C@@](Cl)(Br)I', 'FC(Cl)(Br)I', 'I[C@@](Br)(Cl)F'],
               'explicit-hydrogen-target': ['F[C@]([H])(Cl)Br', 'F[C@@]([H])(Cl)Br', '[H][C@](F)(Cl)Br', 'F[C@H](Cl)Br', 'FC([H])(Cl)Br']}
    cases = [(q, t, ctx) for q, ctx in out for t in targets[ctx]]
    for q in ('F/C=C/F', 'F/C=C\\F', 'F\\C=C\\F', 'F\\C=C/F', 'F/C=C/Cl', 'Cl\\C=C/F', 'F/C(Cl)=C/F', 'F/C(Cl)=C(/F)Br', 'C(\\F)=C/F', 'C(/F)=C/F'):
        for t in ('F/C=C/F', 'F/C=C\\F', 'FC=CF', 'F/C=C/Cl', 'F/C=C\\Cl', 'F/C(Cl)=C/F', 'F/C(Cl)=C\\F', 'F/C(Cl)=C(/F)Br', 'F/C(Cl)=C(\\F)Br'):
            cases.append((q, t, 'cis-trans'))
    # allenes: the oracle is the molecule reader of the library itself (C03 / C12): a complete allene query matches iff both texts are one stereoisomer
    al = []
    for mark in ('@', '@@'):
        for a, b in (('F', 'Cl'), ('Cl', 'F')):
            for c, d in (('Br', 'I'), ('I', 'Br')):
                al.append(f'{a}C({b})=[C{mark}]=C({c}){d}')
            al.append(f'{a}C({b})=[C{mark}]=CBr')
            al.append(f'BrC=[C{mark}]=C({a}){b}')
        al.append(f'[C{mark}](=C(F)Cl)=C(Br)I')
    for q in al:
        for t in al:
            cases.append((q, t, 'allene'))
        cases.append((q, q.replace('@', ''), 'allene'))
    return cases


def _config(rm, query=False):
    """configuration of the reference molecule in spelling-independent form: tetrahedra: ('t', labels of the substituents sorted) -> sign over
    that sorted order (hydrogen last); double bonds: ('c', {elements of the two marked substituents}) -> cis"""
    from checks.b03 import _expected_sign, _perm_parity
    conf = {}
    tets = rm.tetrahedra()
    if query:  # a query centre with three neighbours and no hydrogen primitive: the implicit hydrogen is last (stated assumption)
        done = {i for i, *_ in tets}
        for i, a in enumerate(rm.atoms):
            if a.chiral and i not in done and len(a.order) == 3 and not a.hcount:
                tets.append((i, list(a.order) + ['H'], a.chiral))
    for i, nb, mark in tets:
        hs = [x for x in nb if x != 'H' and rm.atoms[x].element == 'H' and len(rm.neighbors(x)) == 1]
        if len(hs) == 1 and 'H' not in nb:   # one explicit hydrogen atom: it occupies the hydrogen slot at its written position
            nb = ['H' if x == hs[0] else x for x in nb]
        envn = [x for x in nb if x != 'H']
        s = _expected_sign(nb, mark)
        lab = sorted(envn, key=lambda x: _label(rm, x, i))
        if _perm_parity(envn, lab):
            s = not s
        conf[('t', tuple(_label(rm, x, i) for x in lab))] = s
    for a, b, x, y, cis in rm.cis_trans():
        conf[('c', frozenset((rm.atoms[x].element, rm.atoms[y].element)))] = cis
    return conf


def _label(rm, x, centre):
    """distinguishing label of a substituent atom of the stereo templates (element + its own neighbour elements)"""
    return rm.atoms[x].element + ''.join(sorted(rm.atoms[y].element for y in rm.neighbors(x) if y != centre))


def _w_stereo(cases):
    S = _setup()
    W = S['W']
    from oracles import o03_refsmiles as R
    n, keys, fam, members = 0, [], {}, {}

    def push(f, q, det):
        lst = fam.setdefault(f, [0, []])
        lst[0] += 1
        lst[1] = sorted(lst[1] + [(len(q), q, det)])[:5]
    for q, t, ctx in cases:
        n += 1
        try:
            query = S['smarts'](q)
            mol = S['smiles'](t)
            plain = S['smarts'](q.replace('@', '').replace('/', '').replace('\\', ''))
            graph_ok = any(True for _ in plain.get_mapping(mol, _cython=False))
            hit = any(True for _ in query.get_mapping(mol, automorphism_filter=False, _cython=False))
        except Exception as e:
            push(f'smarts-stereo-exc:{type(e).__name__}@{_where(e)}:{ctx}', q, f'{type(e).__name__}: {e} on target {t}')
            continue
        if ctx == 'allene':
            if len(query) != len(mol):
                continue   # the oracle compares whole molecules: only complete queries
            mq = S['smiles'](q)
            exp = graph_ok and str(mq) == str(mol) and any(a.stereo is not None for _, a in mol.atoms())
            cq = ct = 'canonical strings of the molecule reader'
            key = f'smarts-stereo:{ctx}'
        else:
            rq, rt = R.read(q).mols[0], R.read(t).mols[0]
            cq, ct = _config(rq, True), _config(rt)
            if not cq:
                continue
            # expected: the constitution matches and every configuration the query spells is present with the same sign in the target
            exp = graph_ok and all(k in ct and ct[k] == v for k, v in cq.items())
            if graph_ok and ct and not all(k in ct for k in cq):
                continue   # the two spellings mark different substituents: not comparable through labels
            key = f'smarts-stereo:{ctx}'
            if ctx == 'ring-closure':
                # input class of the known family: the bonds of the centre come to exist in an order that is an odd permutation of the written one
                odd = any(W.creation_parity(rq, i) for i, a in enumerate(rq.atoms) if a.chiral)
                key += ':creation-order-odd' if odd else ':creation-order-even'
                if graph_ok and ct:
                    mm = members.setdefault(key, [0, 0])
                    mm[0] += 1
                    mm[1] += hit != exp
        if hit != exp:
            push(key, q, f'query {q} on target {t}: matched={hit}, expected={exp} (query configuration {cq}, target {ct})')
        else:
            keys.append(f'stereo:{q}|{t}')
    return n, keys, fam, members


# ---- (4) whole SMARTS strings: branches, ring closures with bond primitives, components, atom numbering, CXSMARTS radicals ------------
def _ref_atom(text):
    Q = _S['Q']
    if text.startswith('['):
        return Q.read_bracket(text[1:-1])
    return Q.read_bracket(text)   # organic-subset symbol outside brackets = the element alone


def _cmp_atom(n, a, ref, radical):
    """first attribute of the built query atom that differs from the reference reading, or None"""
    v = _view_of(n, a)
    for k in ('kind', 'elements', 'isotope', 'charge', 'stereo', 'neighbors', 'implicit_hydrogens', 'heteroatoms', 'hybridization', 'ring_sizes', 'masked'):
        if k == 'elements':
            ok = sorted(v[k]) == sorted(ref[k]) if ref['kind'] == 'list' else v[k] == ref[k]
        elif k == 'isotope':
            ok = (v[k] or None) == ref[k]
        else:
            ok = v[k] == ref[k]
        if not ok:
            return k, f'{k}: built {v[k]!r}, documented {ref[k]!r}'
    if v['kind'] != 'metal' and bool(v['radical']) != radical:
        return 'radical', f'radical: built {v["radical"]!r}, CXSMARTS says {radical}'
    return None


def whole_class(rec, refs):
    """input class of a template string, decided on the written text alone: documented-input / duplicate-mapping /
    cx-radical-index-out-of-range / cx-radical-on-metal (the generator writes at most one anomaly into a string)"""
    maps = [r['mapping'] for r in refs if r['mapping']]
    dup = len(set(maps)) != len(maps)
    oor = any(i >= len(refs) for i in rec['radicals'])
    met = any(refs[i]['kind'] == 'metal' for i in rec['radicals'] if i < len(refs))
    cls = [c for c, on in (('duplicate-mapping', dup), ('cx-radical-index-out-of-range', oor), ('cx-radical-on-metal', met)) if on]
    assert cls == ([rec['anomaly']] if rec['anomaly'] else []), (rec, cls)
    return cls[0] if cls else 'documented-input'


def judge_whole(rec):
    """-> (status, family, detail) for a template string of bounded/d08_extra.py"""
    S = _S or _setup()
    Q = S['Q']
    from chython.exceptions import MappingError
    refs = [_ref_atom(t) for t in rec['atoms']]
    cls = whole_class(rec, refs)
    text = rec['text']
    try:
        q = S['smarts'](text)
    except S['Bad'] as e:
        if cls == 'documented-input':
            return 'violation', f'smarts-reject:{type(e).__name__}@{_where(e)}:whole', f'documented SMARTS rejected: {type(e).__name__}: {e}'
        return 'rejected', None, 'x:' + cls
    except MappingError as e:
        if cls == 'duplicate-mapping':
            return 'rejected', None, 'x:' + cls   # stated assumption: the library's own mapping error is a deliberate rejection
        return 'violation', f'smarts-exc:MappingError@{_where(e)}:whole:{cls}', f'MappingError: {e}'
    except Exception as e:
        return 'violation', f'smarts-exc:{type(e).__name__}@{_where(e)}:whole:{cls}', f'{type(e).__name__}: {e}'
    if cls == 'cx-radical-on-metal':
        return 'unspecified', None, 'x:' + cls
    if cls != 'documented-input':
        return 'violation', f'smarts-accept:whole:{cls}', f'accepted: {_atoms_repr(q)}'
    nums = list(q._atoms)
    if len(nums) != len(refs):
        return 'violation', 'smarts-diff:whole:atom-count', f'{len(nums)} atoms built, {len(refs)} written'
    for i, (n, ref) in enumerate(zip(nums, refs)):
        d = _cmp_atom(n, q._atoms[n], ref, i in rec['radicals'])
        if d:
            return 'violation', f'smarts-diff:whole:{d[0]}', f'atom {i} ({rec["atoms"][i]}) {d[1]}'
        if ref['mapping']:
            if n != ref['mapping']:
                return 'violation', 'smarts-diff:whole:mapping', f'atom {i} number {n} != mapping {ref["mapping"]}'
        elif (n > 10 ** 9) != ref['masked'] or n < 1:
            return 'violation', 'smarts-diff:whole:masked-number', f'atom {i} number {n}, masked {ref["masked"]}'
    built = {}
    for n, m, b in q.bonds():
        built[frozenset((n, m))] = b
    exp = {frozenset((nums[i], nums[j])): (i, j, t) for i, j, t in rec['bonds']}
    if set(built) != set(exp):
        return 'violation', 'smarts-diff:whole:bond-set', (f'bonds built {sorted(tuple(sorted(k)) for k in built)}, written '
                                                             f'{sorted(tuple(sorted(k)) for k in exp)}')
    for k, (i, j, t) in exp.items():
        b = built[k]
        if b.stereo is not None:
            return 'violation', 'smarts-diff:whole:bond-stereo', f'bond {i}-{j} stereo {b.stereo} without directional bonds'
        if t == '':
            continue   # implicit bond: the docstring does not determine its meaning
        rb = Q.read_bond(t)
        if tuple(b.order) != rb['order']:
            return 'violation', 'smarts-diff:whole:bond-order', f'bond {i}-{j} written {t!r}: built {b.order}, documented {rb["order"]}'
        if b.in_ring != rb['in_ring']:
            return 'violation', 'smarts-diff:whole:bond-in_ring', f'bond {i}-{j} written {t!r}: built in_ring {b.in_ring}, documented {rb["in_ring"]}'
    return 'accepted', None, None


def _w_whole(recs):
    _setup()
    acc = _Acc()
    for rec in recs:
        acc.note(rec['text'], judge_whole(rec), keep=True)
    return acc.result()


def _w_fuzz(args):
    """raises-contract only: every string over the whole-string alphabet either parses or raises the invalid-SMARTS error"""
    alphabet, prefix, depth = args
    S = _setup()
    from chython.exceptions import MappingError
    from bounded.d08_extra import fuzz_class
    acc = _Acc()
    base = ''.join(prefix)
    for k in range(depth + 1):
        for suf in itertools.product(alphabet, repeat=k):
            t = base + ''.join(suf)
            acc.n += 1
            cls = fuzz_class(t)
            acc.member('whole:' + cls)
            try:
                S['smarts'](t)
            except (S['Bad'], MappingError):
                continue
            except Exception as e:
                acc.push(f'smarts-exc:{type(e).__name__}@{_where(e)}:whole:{cls}', t, f'{type(e).__name__}: {e}')
    return acc.result()


def _w_whole_anchors(_):
    S = _setup()
    from bounded.d08_extra import WHOLE_ANCHORS
    from chython.exceptions import MappingError
    acc = _Acc()
    for t, cls in WHOLE_ANCHORS:
        acc.n += 1
        acc.member('whole:' + cls)
        try:
            S['smarts'](t)
        except (S['Bad'], MappingError):
            continue
        except Exception as e:
            acc.push(f'smarts-exc:{type(e).__name__}@{_where(e)}:whole:{cls}', t, f'{type(e).__name__}: {e}')
    return acc.result()


def _w_wmatch(args):
    """template strings matched against molecules: library mappings == reference embeddings"""
    S = _setup()
    Q = S['Q']
    from oracles import o08_whole as W
    recs, nmol = args
    mols = _QC['mols']
    views = _QC.setdefault('views', {})
    n, keys, fam = 0, set(), {}
    for rec in recs:
        refs = [(_ref_atom(t), i in rec['radicals']) for i, t in enumerate(rec['atoms'])]
        qb = {(min(i, j), max(i, j)): Q.read_bond(t) for i, j, t in rec['bonds']}
        q = S['smarts'](rec['text'])
        nums = list(q._atoms)
        r = __import__('random').Random(f'{env.SEED}-{rec["text"]}')
        for mi in r.sample(range(len(mols)), min(nmol, len(mols))):
            smi, mol = mols[mi]
            if len(mol) > 60:
                continue
            if mi not in views:
                views[mi] = W.target_view(mol)
            n += 1
            try:
                got = {tuple(m[x] for x in nums) for m in q.get_mapping(mol, automorphism_filter=False, _cython=False)}
            except Exception as e:
                f = f'smarts-match-exc:{type(e).__name__}@{_where(e)}'
                lst = fam.setdefault(f, [0, []])
                lst[0] += 1
                lst[1] = sorted(lst[1] + [(len(rec['text']) + len(smi), rec['text'], f'{type(e).__name__}: {e} on {smi}', smi)])[:5]
                continue
            exp = W.embeddings(refs, qb, views[mi])
            if got != exp:
                extra, miss = sorted(got - exp), sorted(exp - got)
                bad = (extra or miss)[0]
                f = 'smarts-match:whole:' + ('false-hit' if extra else 'missed') + ':' + rec['shape']
                if any(W.special_chord(mol, frozenset((bad[i], bad[j]))) for i, j, _ in rec['bonds'] if mol.has_bond(bad[i], bad[j])):
                    f = 'labels-diff:bond-in_ring:special-bond-between-ring-mates'
                lst = fam.setdefault(f, [0, []])
                lst[0] += 1
                lst[1] = sorted(lst[1] + [(len(rec['text']) + len(smi), rec['text'],
                                           f'{rec["text"]} on {smi}: extra mappings {extra[:3]}, missing {miss[:3]}', smi)])[:5]
            elif exp:
                keys.add(zlib.crc32((rec['text'] + '|' + smi).encode()))
    return n, list(keys), fam, []


# ---- (5) queries built through the Python API ------------------------------------------------------------------------------------
def _tup(v):
    if v is None:
        return ()
    if isinstance(v, int):
        return (v,)
    return tuple(sorted(v))


API_ATOMS = [
    ('sym', 'C', {}), ('sym', 'N', {'neighbors': 2}), ('sym', 'C', {'neighbors': [1, 2]}), ('sym', 'C', {'neighbors': (3, 2)}),
    ('num', 8, {'implicit_hydrogens': 1}), ('num', 8, {'implicit_hydrogens': [0, 1]}), ('sym', 'C', {'hybridization': 4}),
    ('sym', 'C', {'hybridization': [2, 4]}), ('sym', 'C', {'ring_sizes': 0}), ('sym', 'C', {'ring_sizes': 5}), ('sym', 'C', {'ring_sizes': [6, 5]}),
    ('sym', 'N', {'heteroatoms': 0}), ('sym', 'C', {'heteroatoms': (1, 2)}), ('sym', 'N', {'charge': 1}), ('sym', 'O', {'charge': -1}),
    ('sym', 'C', {'is_radical': True}), ('sym', 'C', {'isotope': 13}), ('sym', 'H', {'isotope': 2}), ('num', 26, {'charge': 2}),
    ('any', None, {}), ('any', None, {'neighbors': 0}), ('any', None, {'neighbors': [3, 4]}), ('any', None, {'hybridization': 3}),
    ('any', None, {'ring_sizes': 0}), ('any', None, {'ring_sizes': (3, 4)}), ('any', None, {'implicit_hydrogens': 3}),
    ('any', None, {'heteroatoms': [2, 3]}), ('any', None, {'charge': -1, 'neighbors': 1, 'heteroatoms': 0}),
    ('any', None, {'is_radical': True, 'implicit_hydrogens': [2, 3]}), ('any', None, {'charge': 2}),
    ('list', ['N', 'O'], {}), ('list', [6, 'S'], {'neighbors': [2, 3]}), ('list', ('Cl', 'Br', 9), {}), ('list', ['N', 'O'], {'charge': 1}),
    ('list', [7, 8, 16], {'hybridization': [2, 4], 'ring_sizes': [5, 6]}), ('list', ['C', 'N'], {'is_radical': True}),
    ('metal', None, {}), ('metal', None, {'neighbors': [0, 1]}), ('metal', None, {'hybridization': 1}), ('metal', None, {'neighbors': 4}),
    ('sym', 'C', {'neighbors': 3, 'hybridization': [2, 4], 'ring_sizes': [5, 6], 'implicit_hydrogens': 0, 'heteroatoms': [0, 1]}),
    ('add', 'C', {}), ('add', 7, {}), ('add', 'A', {}), ('add', 'M', {}), ('add', 'Cl', {}), ('add', 92, {}),
]
API_ELEMENT_SOURCES = ['[NH4+]', '[13CH4]', '[CH3]', '[O-]C', '[Fe+2]']   # first atom is passed as Element object to add_atom
API_BONDS = [1, 2, 3, 4, 8, (1, 2), [2, 4], {1, 3}, (1, 8), 'Bond2', ('QB', 1, True), ('QB', (1, 2), False), ('QB', [4], True), ('QB', 8, None),
             ('QB', (8, 1), False), ('QB', {2, 3}, None), ('from_bond', 'c1ccccc1', True), ('from_bond', 'CC', True), ('from_bond', 'C=C', False)]


def _api_ref(kind, arg, kw):
    from oracles.o03_refsmiles import SYMBOLS
    ref = dict(kind=None, elements=(), isotope=kw.get('isotope'), charge=kw.get('charge', 0), stereo=None, mapping=0,
               neighbors=_tup(kw.get('neighbors')), implicit_hydrogens=_tup(kw.get('implicit_hydrogens')), heteroatoms=_tup(kw.get('heteroatoms')),
               hybridization=_tup(kw.get('hybridization')), ring_sizes=_tup(kw.get('ring_sizes')), masked=False)
    sym = lambda x: SYMBOLS[x - 1] if isinstance(x, int) else x
    if kind in ('sym', 'num', 'add'):
        s = sym(arg)
        ref['kind'] = 'any' if s == 'A' else ('metal' if s == 'M' else 'element')
        if ref['kind'] == 'element':
            ref['elements'] = (s,)
    elif kind == 'any':
        ref['kind'] = 'any'
    elif kind == 'list':
        ref['kind'], ref['elements'] = 'list', tuple(sym(x) for x in arg)
    else:
        ref['kind'] = 'metal'
    return ref, bool(kw.get('is_radical', False))


def _api_atom(kind, arg, kw):
    from chython.periodictable import AnyElement, AnyMetal, ListElement, QueryElement
    if kind == 'sym':
        return QueryElement.from_symbol(arg)(**kw)
    if kind == 'num':
        return QueryElement.from_atomic_number(arg)(**kw)
    if kind == 'any':
        return AnyElement(**kw)
    if kind == 'list':
        return ListElement(arg, **kw)
    if kind == 'metal':
        return AnyMetal(**kw)
    return arg   # 'add': the container converts str / int itself


def _api_bond(spec):
    """-> (object passed to add_bond, reference bond)"""
    from chython.containers.bonds import Bond, QueryBond
    if spec == 'Bond2':
        return Bond(2), dict(order=(2,), in_ring=None)
    if isinstance(spec, tuple) and spec and spec[0] == 'QB':
        return QueryBond(spec[1], in_ring=spec[2]), dict(order=tuple(sorted(set(_tup(spec[1])))), in_ring=spec[2])
    if isinstance(spec, tuple) and spec and spec[0] == 'from_bond':
        m = _S['smiles'](spec[1])
        b = m.bond(1, 2)
        o = int(b)
        ring = len(m) > 2   # the three source molecules: benzene (ring bond), ethane / ethene (chain bond) - known by construction
        return QueryBond.from_bond(b, in_ring=spec[2]), dict(order=(o,), in_ring=ring if spec[2] else None)
    return spec, dict(order=tuple(sorted(set(_tup(spec)))), in_ring=None)


def api_queries():
    """-> [(label, QueryContainer, kind, refs)] kind 'atom': refs = (ref, radical); kind 'pair': refs = ((ref, rad), bond ref, (ref, rad))"""
    S = _setup()
    from chython.containers import QueryContainer
    out = []
    for kind, arg, kw in API_ATOMS:
        q = QueryContainer(f'api:{kind}:{arg}:{kw}')
        q.add_atom(_api_atom(kind, arg, dict(kw)), 5)
        out.append((str(q), q, 'atom', _api_ref(kind, arg, kw)))
    for k, (kind, arg, kw) in enumerate(API_ATOMS[:41:4]):
        q = QueryContainer(f'api-copy:{kind}:{arg}:{kw}')
        q.add_atom(_api_atom(kind, arg, dict(kw)))
        out.append((str(q), q.copy(), 'atom', _api_ref(kind, arg, kw)))
    for s in API_ELEMENT_SOURCES:
        a = S['smiles'](s).atom(1)
        q = QueryContainer(f'api:element-object:{s}')
        q.add_atom(a, 3)   # documented: only charge, radical, isotope are transferred
        ref, _ = _api_ref('sym', a.atomic_symbol, {'charge': a.charge, 'isotope': a.isotope})
        out.append((str(q), q, 'atom', (ref, bool(a.is_radical))))
    anyref = _api_ref('any', None, {})
    for spec in API_BONDS:
        from chython.periodictable import AnyElement
        for a1, a2 in ((('any', None, {}), ('any', None, {})), (('sym', 'C', {}), ('list', ['N', 'O', 'Pt'], {}))):
            obj, rb = _api_bond(spec)
            q = QueryContainer(f'api-bond:{spec!r}:{a1[0]}-{a2[0]}')
            q.add_atom(_api_atom(*a1), 2)
            q.add_atom(_api_atom(*a2), 1)
            q.add_bond(2, 1, obj)
            out.append((str(q), q, 'pair', (_api_ref(*a1), rb, _api_ref(*a2))))
    return out


FROM_ATOM_FLAGS = ('neighbors', 'hybridization', 'heteroatoms', 'hydrogens', 'ring_sizes')


def _w_api(idx):
    S = _setup()
    Q = S['Q']
    from oracles import o08_whole as W
    from oracles.o03_refsmiles import SYMBOLS
    from chython.containers import QueryContainer
    from chython.periodictable import QueryElement
    if 'api' not in _QC:
        _QC['api'] = api_queries()
    n, keys, fam = 0, set(), {}

    def push(f, text, det, smi):
        lst = fam.setdefault(f, [0, []])
        lst[0] += 1
        lst[1] = sorted(lst[1] + [(len(text) + len(smi), text, det, smi)])[:5]
    for mi in idx:
        smi, mol = _QC['mols'][mi]
        atoms, bonds = Q.environment(mol)
        for label, q, kind, refs in _QC['api']:
            n += 1
            try:
                maps = list(q.get_mapping(mol, automorphism_filter=False, _cython=False))
            except Exception as e:
                push(f'api-match-exc:{type(e).__name__}@{_where(e)}', label, f'{type(e).__name__}: {e} on {smi}', smi)
                continue
            nums = list(q._atoms)
            if kind == 'atom':
                ref, rad = refs
                hits = {m[nums[0]] for m in maps}
                exp = {a for a, e in atoms.items() if Q.atom_matches(ref, e, rad)}
                if hits != exp:
                    bad = sorted(hits ^ exp)[0]
                    push('api-match:atom:' + ('false-hit:' + '+'.join(Q.failed(ref, atoms[bad], rad)) if bad in hits else 'missed:' + '+'.join(_spec(ref))),
                         label, f'{label} on {smi}: hits {sorted(hits)} expected {sorted(exp)}; atom {bad}: {atoms[bad]}', smi)
                elif hits:
                    keys.add(zlib.crc32((label + smi).encode()))
            else:
                (r1, rad1), rb, (r2, rad2) = refs
                hits = {(m[nums[0]], m[nums[1]]) for m in maps}
                exp = set()
                for k, be in bonds.items():
                    if Q.bond_matches(rb, be):
                        x, y = tuple(k)
                        for u, v in ((x, y), (y, x)):
                            if Q.atom_matches(r1, atoms[u], rad1) and Q.atom_matches(r2, atoms[v], rad2):
                                exp.add((u, v))
                if hits != exp:
                    bad = sorted(hits ^ exp)[0]
                    f = 'api-match:pair:' + ('false-hit' if bad in hits else 'missed') + (':ring-bond' if rb['in_ring'] is not None else ':bond')
                    if mol.has_bond(*bad) and W.special_chord(mol, frozenset(bad)):
                        f = 'labels-diff:bond-in_ring:special-bond-between-ring-mates'
                    push(f, label, f'{label} on {smi}: extra {sorted(hits - exp)[:3]} missing {sorted(exp - hits)[:3]}', smi)
                elif hits:
                    keys.add(zlib.crc32((label + smi).encode()))
        # QueryElement.from_atom(atom, flag=True): the query built from an atom matches exactly the atoms sharing the flagged attribute
        if len(mol) > 30:
            continue
        for a0, e0 in atoms.items():
            base = dict(kind='element', elements=(SYMBOLS[e0['Z'] - 1],), isotope=e0['isotope'], charge=e0['charge'], stereo=None, mapping=0, neighbors=(),
                        implicit_hydrogens=(), heteroatoms=(), hybridization=(), ring_sizes=(), masked=False)
            for flag in FROM_ATOM_FLAGS:
                n += 1
                ref = dict(base)
                alt = None
                if flag == 'neighbors':
                    ref['neighbors'] = (e0['D'],)
                elif flag == 'hybridization':
                    ref['hybridization'] = (e0['z'],)
                elif flag == 'heteroatoms':
                    ref['heteroatoms'] = (e0['x'],)
                elif flag == 'hydrogens':
                    if e0['h'] is not None:
                        ref['implicit_hydrogens'] = (e0['h'],)
                elif e0['rings']:
                    ref['ring_sizes'] = tuple(sorted(e0['rings']))
                else:   # chain atom: "no constraint" and "not in a ring" are both admissible readings
                    alt = dict(base, ring_sizes=(0,))
                label = f'QueryElement.from_atom(atom {a0}, {flag}=True)'
                cls = f'{flag}:' + ('ring-atom' if e0['in_ring'] else 'chain-atom')
                try:
                    qa = QueryElement.from_atom(mol.atom(a0), **{flag: True})
                    q = QueryContainer(label)
                    q.add_atom(qa, 1)
                    hits = {m[1] for m in q.get_mapping(mol, automorphism_filter=False, _cython=False)}
                except Exception as e:
                    push(f'api-from_atom:exc:{type(e).__name__}@{_where(e)}:{cls}', label, f'{type(e).__name__}: {e} on {smi}', smi)
                    continue
                rad = e0['radical']
                exp = {a for a, e in atoms.items() if Q.atom_matches(ref, e, rad)}
                exp2 = {a for a, e in atoms.items() if Q.atom_matches(alt, e, rad)} if alt else exp
                if hits != exp and hits != exp2:
                    push(f'api-from_atom:match:{cls}', label, f'{label} on {smi}: hits {sorted(hits)} expected {sorted(exp)}', smi)
                else:
                    keys.add(zlib.crc32((cls + repr(Q.env_key(e0))).encode()))
    return n, list(keys), fam, []


# ---- (6) labels of edited molecules ----------------------------------------------------------------------------------------------------
EDIT_QUERIES = ['[A;D1]', '[A;D2]', '[A;D3]', '[A;D4]', '[A;x1]', '[A;x2]', '[A;z2]', '[A;z3]', '[A;a]', '[A;!R]', '[A;r3]', '[A;r4]', '[A;r5]', '[A;r6]',
                '[A]-;@[A]', '[A]-;!@[A]', '[A]=,:;@[A]', '[A]!-;!@[A]']


def _nonbonded_pair(m, r):
    ns = list(m._atoms)
    if len(ns) < 2:
        return None
    for _ in range(20):
        a, b = r.sample(ns, 2)
        if not m.has_bond(a, b):
            return a, b
    return None


def _apply(op, m, r):
    """play one public editing operation on the molecule; -> molecule to continue with (None: not applicable)"""
    smiles = _S['smiles']
    if op in ('add_bond', 'add_special', 'add_double'):
        p = _nonbonded_pair(m, r)
        if p is None:
            return None
        m.add_bond(p[0], p[1], 8 if op == 'add_special' else (r.choice((2, 3)) if op == 'add_double' else 1))
        return m
    if op == 'delete_bond':
        bs = [(a, b) for a, b, _ in m.bonds()]
        if not bs:
            return None
        m.delete_bond(*r.choice(bs))
        return m
    if op == 'delete_atom':
        if len(m) < 2:
            return None
        m.delete_atom(r.choice(list(m._atoms)))
        return m
    if op == 'add_atom_bond':
        old = r.choice(list(m._atoms))
        n = m.add_atom(r.choice(('C', 'N', 'O', 'Cl', 'H')))
        m.add_bond(n, old, 1)
        return m
    if op == 'transaction':
        with m:
            old = r.choice(list(m._atoms))
            n = m.add_atom(r.choice(('C', 'N', 'O')))
            m.add_bond(n, old, 1)
            p = _nonbonded_pair(m, r)
            if p is not None:
                m.add_bond(p[0], p[1], r.choice((1, 8)))
            if r.random() < .5 and m.bonds_count > 1:
                m.delete_bond(*r.choice([(a, b) for a, b, _ in m.bonds() if n not in (a, b)] or [(n, old)]))
        return m
    if op == 'copy':
        return m.copy()
    if op == 'substructure':
        start = r.choice(list(m._atoms))
        keep, front = {start}, {start}
        for _ in range(r.randint(1, 3)):
            front = {y for x in front for y in m._bonds[x]} - keep
            keep |= front
        return m.substructure(keep)
    if op == 'split_union':
        parts = m.split()
        if len(parts) < 2:
            return None
        u = parts[0]
        for p in parts[1:]:
            u = u | p
        return u
    if op == 'union_new':
        return m.union(smiles(r.choice(('C1CC1', 'c1ccccc1', 'O', 'C=O'))), remap=True)
    if op == 'remap':
        ns = list(m._atoms)
        new = r.sample(range(1, 3000), len(ns))
        if r.random() < .5:
            new.sort(reverse=True)
        m.remap(dict(zip(ns, (x + 5000 for x in new))))
        return m
    if op == 'kekule':
        m.kekule()
        return m
    if op == 'thiele':
        m.thiele()
        return m
    if op == 'explicify':
        m.kekule()
        m.explicify_hydrogens()
        return m
    if op == 'implicify':
        m.kekule()
        m.implicify_hydrogens()
        return m
    raise AssertionError(op)


def _label_diffs(m, op):
    """-> [(family, detail)] labels stored by the library vs independent attributes of a fresh container with the same atoms and bonds"""
    from oracles import o08_whole as W
    la, lb = W.library_labels(m)
    ea, eb = W.expected_labels(W.fresh_environment(m))
    out = []
    unique, gap = _ring_domain(m)
    for n in ea:
        for k, name in enumerate(W.LABEL_NAMES):
            if name == 'ring_sizes' and not unique or name in ('ring_sizes', 'in_ring') and gap:
                continue   # several minimum cycle bases: which sizes an atom gets depends on the basis picked (C06), not comparable
            if la[n][k] != ea[n][k]:
                out.append((f'labels-diff:{name}:after-{op}', f'atom {n} {name}: stored {_plain(la[n][k])}, independent {_plain(ea[n][k])}'))
    for k in eb:
        if gap:
            break
        if lb[k] != eb[k]:
            f = 'labels-diff:bond-in_ring:' + ('special-bond-between-ring-mates' if W.special_chord(m, k) else f'after-{op}')
            out.append((f, f'bond {tuple(sorted(k))} in_ring: stored {lb[k]}, independent {eb[k]}'))
    return out


def _ring_domain(m):
    """(minimum cycle basis unique, recorded gap of the ring perception C06): ring sizes are compared only where the basis is unique, ring
    membership only outside the recorded gaps of C06 (theta cores with three long bridges, dense cages: oracles/o06_gaps.py)"""
    from oracles import o06_gaps as G
    return _S['W'].mcb_unique(m), G.gap(G.graphs(m)[0])


def _plain(v):
    return sorted(v) if isinstance(v, (set, frozenset)) else v


def _w_edits(scripts):
    S = _setup()
    Q = S['Q']
    from bounded.d08_extra import EDIT_MOLS, OPS
    from oracles import o08_whole as W
    import random
    n, keys, fam, failed = 0, set(), {}, {}

    def push(f, text, det, smi):
        lst = fam.setdefault(f, [0, []])
        lst[0] += 1
        lst[1] = sorted(lst[1] + [(len(text) + len(smi), text, det, smi)])[:5]
    if 'editq' not in _QC:
        _QC['editq'] = [(t, S['smarts'](t)) for t in EDIT_QUERIES]
    for i, seed, length in scripts:
        smi = EDIT_MOLS[i]
        m = S['smiles'](smi)
        r = random.Random(seed)
        played = []
        for d in _label_diffs(m, 'parse'):
            push(d[0], f'{smi}: as parsed', d[1], smi)
        for _ in range(length):
            op = r.choice(OPS)
            try:
                m2 = _apply(op, m, r)
            except AssertionError:
                raise
            except Exception as e:   # a failing editing operation is not this property's contract (C13/C14): the script ends here
                k = f'{op}:{type(e).__name__}'
                failed[k] = failed.get(k, 0) + 1
                m = None   # the state after a failed operation is not defined by this property: nothing more is observed on it
                break
            if m2 is None:
                continue
            m = m2
            played.append(op)
            n += 1
            script = f'{smi} seed {seed!r}: ' + ' > '.join(played)
            ds = _label_diffs(m, op)
            for d in ds:
                push(d[0], script, d[1], smi)
            if not ds:
                keys.add(zlib.crc32((op + str(len(m)) + smi).encode()))
        if m is None:
            continue
        # the observable: queries on the edited molecule against the independent attributes of the fresh container
        atoms, bonds = W.fresh_environment(m)
        script = f'{smi} seed {seed!r}: ' + ' > '.join(played)
        unique, gap = _ring_domain(m)
        for text, q in _QC['editq']:
            if ';r' in text and not unique or gap and any(x in text for x in (';r', '!R', '@')):
                continue
            n += 1
            try:
                maps = list(q.get_mapping(m, automorphism_filter=False, _cython=False))
            except Exception as e:
                push(f'labels-match-exc:{type(e).__name__}@{_where(e)}', script, f'{text}: {type(e).__name__}: {e}', smi)
                continue
            nums = list(q._atoms)
            if len(nums) == 1:
                ref = Q.read_bracket(text[1:-1])
                hits = {x[nums[0]] for x in maps}
                exp = {a for a, e in atoms.items() if Q.atom_matches(ref, e)}
                tag = _spec(ref)[0]
            else:
                a1, rest = text[1:].split(']', 1)
                b, a2 = rest.split('[', 1)
                r1, rb, r2 = Q.read_bracket(a1), Q.read_bond(b), Q.read_bracket(a2[:-1])
                hits = {(x[nums[0]], x[nums[1]]) for x in maps}
                exp = {(u, v) for k, be in bonds.items() if Q.bond_matches(rb, be) for u, v in (tuple(k), tuple(k)[::-1])
                       if Q.atom_matches(r1, atoms[u]) and Q.atom_matches(r2, atoms[v])}
                tag = 'bond-in_ring'
            if hits != exp:
                f = f'labels-match:{tag}:edited-molecule'
                bad = sorted(hits ^ exp)[0]
                if len(nums) == 2 and m.has_bond(*bad) and W.special_chord(m, frozenset(bad)):
                    f = 'labels-diff:bond-in_ring:special-bond-between-ring-mates'
                push(f, script, f'{text} on the edited molecule {m}: extra hits {sorted(hits - exp)[:6]} missing {sorted(exp - hits)[:6]}', smi)
    return n, list(keys), fam, failed


# ---- (7) coverage lists: every element, every charge spelling, value ranges, all bond specs ----------------------------------------
def coverage_brackets():
    from oracles.o03_refsmiles import SYMBOLS
    out = []
    for z, s in enumerate(SYMBOLS, 1):
        o = SYMBOLS[(z * 7) % 118]
        out += [s, f'#{z}', f'{s},#{(z * 7) % 118 + 1}', f'#{z},{o}' if o != s else f'#{z}']
    for c in ('+', '-', '++', '--', '+++', '---', '++++', '----', '+1', '+2', '+3', '+4', '-1', '-2', '-3', '-4'):
        out += [f'C{c}', f'A{c}', f'N,O{c}', f'#8{c}', f'C;{c}', f'C{c};D1', f'13C{c}:4']
    out += ['1H', '2H', '3H', '238U', '999C', '100C:1000', 'C:12', 'C:999', 'C:1234', 'C:9999', 'A:42', 'N,O:5', 'M:6', '14C;D3:2', '12C@', '13C@@+', 'C@:3',
            'C@@;h1:3', 'M;D2;z1', 'M;M', 'A;M;D1', 'C;A', 'C;A;D2', 'C;a;A']
    for k in 'Dhx':
        out += [f'A;{k}{v}' for v in range(0, 16)] + [f'C;{k}{v},{k}{v + 1},{k}{v + 2}' for v in range(0, 13)]
    out += [f'A;z{v}' for v in range(0, 6)] + ['A;z1,z2,z3', 'A;z1,z2,z3,z4', 'A;z4,z1']
    out += [f'A;r{v}' for v in range(0, 22)] + ['A;r3,r4,r5', 'A;r6,r5', 'A;r5,r6,r7,r8', 'A;r66', 'A;r100']
    return out


MATCH_EXTRA = ['A;D0', 'A;D5', 'A;D6', 'A;h4', 'A;x3', 'A;x4', 'A;r8', 'A;r12', 'A;r3,r5,r6', 'A;D1,D2,D3', 'A;h0,h1,h2,h3', 'A;z1,z2,z3', 'A;z3,z4', 'A;D0,D1',
               'A-2', 'A+3', 'A+4', 'A-3', 'A-4', 'A++', 'A--', 'O-2', 'Ti+4', 'Al+3', 'N-3', '238U', '235U', '3H', '1H', 'A;r5,r6;D3',
               'C,N,O;D2;h1,h2', 'Cl,Br,I', 'F,Cl;D1', '#6,N;a', 'M;D0', 'M;D1,D2', 'M;D4', 'M;z1', 'S;D4', 'S;D6', 'P;D5', 'P;D4;x4']
EXTRA_MOLS2 = ['FS(F)(F)(F)(F)F', 'FP(F)(F)(F)F', '[Ti+4]', '[O-2]', '[Al+3]', '[N-3]', '[C-4]', '[238U]', '[235U]', '[3H][3H]', '[1H]O', 'C1CCCCCCC1', 'C1CCCCCCCCCCC1',
               'C12CC~1C2', 'N1(CCO2)CCO[B]2OCC1', 'N1(CCO2)CCO[B]~12', '[CH2][CH2] |^1:0,1|', 'C[CH]O |^1:1|', '[O]O |^1:0|', 'OP(O)(O)=O', 'O=S(=O)(O)O',
               'Cl[Pt](Cl)(Cl)Cl', 'C[Mg]', '[Li]C', 'C1CC1C1CC1', 'C1CC12CC2', 'c1ccc2c(c1)ccc1ccccc12', 'ClC(Cl)(Cl)Cl', 'BrC(Br)Br', 'FCl', 'II']
RAD_PAIRS = [('[C]-[O] |^1:1|', 'C', '-', 'O', (False, True)), ('[C]-[C] |^1:0|', 'C', '-', 'C', (True, False)),
             ('[A]-[A] |^1:0,1|', 'A', '-', 'A', (True, True)), ('[C]-[A] |^2:1|', 'C', '-', 'A', (False, True)),
             ('[A;h2]-,=[A] |^3:0|', 'A;h2', '-,=', 'A', (True, False))]
PAIR2_ATOMS = [('A', 'A'), ('C', 'A'), ('A;a', 'A;a'), ('C;!R', 'N,O')]


def _w_elements(zs):
    """every element query [Sym] and [#Z] against every single-element molecule"""
    S = _setup()
    from oracles.o03_refsmiles import SYMBOLS
    if 'elmols' not in _QC:
        ms = {}
        for z, s in enumerate(SYMBOLS, 1):
            try:
                ms[z] = S['smiles'](f'[{s}]')
            except ValueError:
                pass
        _QC['elmols'] = ms
    n, keys, fam = 0, [], {}
    for z in zs:
        s = SYMBOLS[z - 1]
        o = (z * 7) % 118 + 1
        for text, exp in ((f'[{s}]', {z}), (f'[#{z}]', {z}), (f'[{s},#{o}]', {z, o}), (f'[#{z},{SYMBOLS[o - 1]}]', {z, o})):
            if len(exp) == 1 and ',' in text:
                continue
            n += 1
            try:
                q = S['smarts'](text)
                hits = {t for t, m in _QC['elmols'].items() if any(True for _ in q.get_mapping(m, _cython=False))}
            except Exception as e:
                lst = fam.setdefault(f'smarts-match-exc:{type(e).__name__}@{_where(e)}', [0, []])
                lst[0] += 1
                lst[1] = sorted(lst[1] + [(len(text), text, f'{type(e).__name__}: {e}', 'single-element molecules')])[:5]
                continue
            exp = exp & set(_QC['elmols'])
            if hits != exp:
                lst = fam.setdefault('smarts-match:' + ('false-hit:element' if hits - exp else 'missed:element'), [0, []])
                lst[0] += 1
                lst[1] = sorted(lst[1] + [(len(text), text, f'{text} hits the single-atom molecules of Z={sorted(hits)}, documented {sorted(exp)}',
                                           '[' + SYMBOLS[sorted(hits ^ exp)[0] - 1] + ']')])[:5]
            else:
                keys.append('el:' + text)
    return n, keys, fam, []


def _w_list(items):
    _setup()
    acc = _Acc()
    for kind, t in items:
        if kind == 'br':
            acc.note('[' + t + ']', judge_bracket(t))
        else:
            acc.note('C' + t + 'N', judge_bond(t))
    return acc.result()


BOND_CONTEXTS = [('[C]{}[N]', 'bracket'), ('C1{}NO1', 'after-closure'), ('C({}N)O', 'in-branch'), ('C(O){}N', 'after-branch'), ('C{}1ON1', 'closure-open'),
                 ('C1ON{}1', 'closure-close'), ('C%11ON{}%11', 'closure-percent'), ('Cl{}Br', 'two-letter')]


def judge_bond_in(ctx, text):
    """the bond text between the first and the last... atom pair of the context: same contract as judge_bond, other surroundings"""
    S = _S or _setup()
    Q = S['Q']
    tpl, name = ctx
    s = tpl.format(text)
    try:
        ref = Q.read_bond(text)
        verdict = 'accept'
    except Q.Reject as e:
        ref, verdict = None, 'reject:' + e.args[0]
    except Q.Unspecified as e:
        ref, verdict = None, 'unspecified:' + e.args[0]
    if verdict == 'accept' and ref.get('direction') and 'closure' in name:
        verdict = 'unspecified:directional-closure'
    try:
        q = S['smarts'](s)
    except S['Bad'] as e:
        if verdict == 'accept':
            return 'violation', f'smarts-reject:{type(e).__name__}@{_where(e)}:{name}', f'documented SMARTS rejected: {type(e).__name__}: {e}'
        return 'rejected', None, verdict
    except Exception as e:
        return 'violation', f'smarts-exc:{type(e).__name__}@{_where(e)}:bond:{_input_class(verdict)}', f'{type(e).__name__}: {e} (reference: {verdict})'
    if verdict.startswith('unspecified'):
        return 'unspecified', None, verdict
    if verdict.startswith('reject'):
        return 'violation', f'smarts-accept:bond:{verdict[7:]}', f'unsupported SMARTS bond ({verdict[7:]}) accepted in {s}'
    nums = list(q._atoms)
    pair = {'bracket': (0, 1), 'after-closure': (0, 1), 'in-branch': (0, 1), 'after-branch': (0, 2), 'closure-open': (0, 2), 'closure-close': (0, 2),
            'closure-percent': (0, 2), 'two-letter': (0, 1)}[name]
    n, m = nums[pair[0]], nums[pair[1]]
    if not q.has_bond(n, m):
        return 'violation', f'smarts-diff:bond-missing:{name}', f'{s}: no bond between atoms {pair}'
    b = q.bond(n, m)
    if tuple(b.order) != ref['order']:
        return 'violation', f'smarts-diff:bond-order:{name}', f'{s}: order built {b.order}, documented {ref["order"]}'
    if b.in_ring != ref['in_ring']:
        return 'violation', f'smarts-diff:bond-in_ring:{name}', f'{s}: in_ring built {b.in_ring}, documented {ref["in_ring"]}'
    others = [x for u, v, x in q.bonds() if {u, v} != {n, m}]
    if any(tuple(x.order) != (1,) or x.in_ring is not None for x in others):
        return 'violation', f'smarts-diff:bond-leak:{name}', f'{s}: the other bonds became {[repr(x) for x in others]}'
    return 'accepted', None, None


def _w_bond_ctx(args):
    ci, prefix, depth = args
    _setup()
    acc = _Acc()
    ctx = BOND_CONTEXTS[ci]
    for k in range(depth + 1):
        for suf in itertools.product(BOND_CHARS, repeat=k):
            t = prefix + ''.join(suf)
            acc.note(ctx[0].format(t), judge_bond_in(ctx, t))
    return acc.result()


# ---- driver -------------------------------------------------------------------------------------------------------------------
def _merge_fam(fam, f):
    for k, (cnt, lst) in f.items():
        e = fam.setdefault(k, [0, []])
        e[0] += cnt
        e[1] = sorted(set(e[1]) | set(map(tuple, lst)))[:5]


def _chunks(lst, k):
    return [lst[i:i + k] for i in range(0, len(lst), k)]


def bounded(run):
    import time
    from bounded.domains import corpus_sample, decorated_atlas, parse
    S = _setup()
    quick = run.tier == 'quick'
    fam, stats, tm = {}, {}, {}
    run.assume('reference reading of the documented SMARTS subset: oracles/o08_refsmarts.py, written from the docstring of chython.smarts() '
               '(three verdicts: documented / documented-as-unsupported / undetermined; undetermined strings only carry the raises-contract)',
               'the invalid-SMARTS error is IncorrectSmarts or its base class IncorrectSmiles (raised by the tokenizer/parser shared with SMILES); '
               'any other class (plain ValueError, TypeError, KeyError, IndexError ...) violates the last sentence of the property',
               'independent atom attributes: neighbours = bonds of order != 8; heteroatoms = such neighbours with Z not in {1, 6}; hybridisation = 4 if an '
               'aromatic bond, else 3 if a triple or two double bonds, else 2 if a double bond, else 1; implicit H, charge, isotope, radical = stored '
               'atom fields; atom/bond in a ring = not all incident bonds / the bond not a bridge (networkx.bridges, special bonds removed)',
               'ring sizes of an atom = sizes of the mol.sssr rings through it (ring perception is C06)',
               'any-metal M: the non-metal list of the comment in algorithms/isomorphism.py (H He B C N O F Ne Si P S Cl Ar Ge As Se Br Kr Sb Te I Xe At) '
               'plus Rn and Og',
               'stereo: query configuration and target configuration are both read by the C03 reference reader (oracles/o03_refsmiles.py); a query with '
               'three neighbours has the implicit hydrogen last')

    # (1) parsing --------------------------------------------------------------------------------------------------------------
    t0 = time.time()
    res = []
    K = 3 if quick else 4
    items = [(BR_FULL, (), 1, True)] + [(BR_FULL, (a, b), K - 2, True) for a in BR_FULL for b in BR_FULL]
    res += pmap(_w_br_tokens, items, chunksize=8)
    run.bound(f'bracket strings: all {sum(len(BR_FULL) ** k for k in range(1, K + 1))} strings of 1..{K} tokens over the {len(BR_FULL)}-token alphabet {BR_FULL}')
    K2 = 4 if quick else 5
    items = [(BR_SLICE, (a, b), K2 - 2, K2 <= 4) for a in BR_SLICE for b in BR_SLICE]
    res += pmap(_w_br_tokens, items, chunksize=4)
    run.bound(f'bracket strings: all {sum(len(BR_SLICE) ** k for k in range(2, K2 + 1))} strings of 2..{K2} tokens over the {len(BR_SLICE)}-token slice {BR_SLICE}')
    K3 = 4 if quick else 5
    items = [(BR_CHARS, (a, b), K3 - 2, False) for a in BR_CHARS for b in BR_CHARS]
    res += pmap(_w_br_tokens, items, chunksize=4)
    run.bound(f'bracket strings: all {sum(len(BR_CHARS) ** k for k in range(2, K3 + 1))} strings of 2..{K3} characters over {"".join(BR_CHARS)!r}')
    KB = 4 if quick else 5
    res += pmap(_w_bonds, [('', 1)] + [(a + b, KB - 2) for a in BOND_CHARS for b in BOND_CHARS], chunksize=4)
    run.bound(f'bond strings C<b>N: all {sum(len(BOND_CHARS) ** k for k in range(0, KB + 1))} strings b of 0..{KB} characters over {"".join(BOND_CHARS)!r}')
    # audit extension: contexts of bond texts, coverage lists, whole strings from templates, raises-contract fuzz over whole strings
    from bounded import d08_extra as D
    KC = 3 if quick else 4
    res += pmap(_w_bond_ctx, [(ci, '', 1) for ci in range(len(BOND_CONTEXTS))] + [(ci, a + b, KC - 2) for ci in range(len(BOND_CONTEXTS))
                                                                                 for a in BOND_CHARS for b in BOND_CHARS], chunksize=16)
    run.bound(f'bond texts in context: all {sum(len(BOND_CHARS) ** k for k in range(0, KC + 1))} strings of 0..{KC} characters in each of '
              f'{[c[0] for c in BOND_CONTEXTS]} (after a bracket atom, after a closure digit, in / after a branch, on the opening / closing digit, %nn)')
    cov = [('br', x) for x in coverage_brackets()]
    res += pmap(_w_list, _chunks(cov, 64))
    run.bound(f'coverage brackets: {len(cov)} strings: every element as symbol, #Z and in lists, all 16 charge spellings on 7 carriers, isotope / mapping '
              f'digit lengths, every value 0..15 of D h x, z0..5, r0..21, lists of three')
    nw = 8000 if quick else 100000
    whole = D.whole_strings(nw, 'b08-whole')
    res += pmap(_w_whole, _chunks(whole, 250))
    run.bound(f'whole strings: {nw} seeded strings from {len(D.SHAPES)} templates (chains, branches, nested branches, rings with the closure bond on the '
              f'opening / closing / both digits, %nn, fused and bicyclic closures, components) x {len(D.ATOMS)} atom texts x {len(D.bond_texts())} bond '
              f'texts, 12 % implicit bonds, 25 % with CXSMARTS radicals ^1..^7; at most one anomaly (duplicate mapping, radical index out of range, '
              f'radical on [M]) per string')
    A1 = D.WHOLE_ALPHABET
    KF = 3 if quick else 4
    res += pmap(_w_fuzz, [(A1, (), 1)] + [(A1, (a, b), KF - 2) for a in A1 for b in A1], chunksize=16)
    A2 = D.WHOLE_SLICE
    KF2 = 4 if quick else 5
    res += pmap(_w_fuzz, [(A2, (a, b), KF2 - 2) for a in A2 for b in A2], chunksize=8)
    run.bound(f'whole-string fuzz (raises-contract only): all strings of 0..{KF} tokens over {A1} and of 2..{KF2} tokens over {A2}')
    res += [_w_anchors(None), _w_whole_anchors(None)]
    run.bound(f'anchors: {len(D.WHOLE_ANCHORS)} whole strings under the raises-contract, {len(ANCHORS_BR)} bracket and {len(ANCHORS_BOND)} bond strings (shortest witnesses of every family reproduced on the pinned tree)')
    for n, keys, st, f, samples in res:
        run.case(n)
        run.nontrivial.update(keys)
        for k, v in st.items():
            stats[k] = stats.get(k, 0) + v
        _merge_fam(fam, f)
        for s_ in samples:
            if len(run.samples) < 4:
                run.samples.append(s_)
    tm['parsing'] = round(time.time() - t0, 1)

    # (2) matching -------------------------------------------------------------------------------------------------------------
    t0 = time.time()
    try:
        qs = _compiled()
    except Exception as e:
        qs = None
        fam.setdefault(f'smarts-exc:{type(e).__name__}@{_where(e)}:documented-input', [1, [(0, 'query set of part (2)', f'{type(e).__name__}: {e}')]])
    if qs is not None:
        mols = []
        for s in corpus_sample(200 if quick else 1500, 'b08'):
            mols.append((s, parse(s)))
        raw = corpus_sample(40 if quick else 200, 'b08-raw')
        for s in raw:
            mols.append((s + ' (as parsed)', S['smiles'](s)))
        nat = 0
        for g, el, od, m in decorated_atlas(6 if quick else 7, trials=3, tag='b08'):
            mols.append((str(m), m))
            nat += 1
        from oracles.o03_refsmiles import SYMBOLS
        nel = 0
        for sym in SYMBOLS:
            try:
                mols.append((f'[{sym}]', S['smiles'](f'[{sym}]')))
                nel += 1
            except ValueError:
                pass
        for s in EXTRA_MOLS + EXTRA_MOLS2:
            mols.append((s, S['smiles'](s)))
        from chython.containers import MoleculeContainer
        mols.append(('(molecule without atoms)', MoleculeContainer()))
        _QC['mols'] = mols
        res = pmap(_w_match, _chunks(list(range(len(mols))), 6 if quick else 12))
        for n, keys, f, samples in res:
            run.case(n)
            run.nontrivial.update(keys)
            _merge_fam(fam, f)
            for s_ in samples:
                if len(run.samples) < 7:
                    run.samples.append(s_)
        na = sum(1 for q in qs if q[1] == 'atom')
        run.bound(f'matching: {na} single-atom queries (12 element specs x 31 primitives, all cross-kind primitive pairs on [A] and [C], charge / isotope / '
                  f'radical variants) + {len(qs) - na} two-atom queries ({len(PAIR_ATOMS)}^2 atom pairs x {len(PAIR_BONDS)} bond specs) x {len(mols)} molecules: '
                  f'{200 if quick else 1500} corpus (kekule+thiele), {len(raw)} corpus as parsed, {nat} decorated atlas graphs <= {6 if quick else 7} nodes, '
                  f'{nel} single-element molecules, {len(EXTRA_MOLS) + len(EXTRA_MOLS2)} hand-written (metals, special bonds, isotopes, radicals, '
                  f'cumulenes, small and large rings, D5/D6 centres, highly charged ions, special bonds inside rings); audit extension: '
                  f'{len(MATCH_EXTRA)} boundary-value atom queries, every determined bond text ({len(D.bond_texts())}) on {len(PAIR2_ATOMS)} atom pairs, '
                  f'{len(RAD_PAIRS)} two-atom queries with CXSMARTS radicals on either atom')
        tm['matching'] = round(time.time() - t0, 1)

        # (4) whole strings matched, (5) API-built queries, (7) element matrix -----------------------------------------------------------
        t0 = time.time()
        nm = 600 if quick else 5000
        ms = D.match_strings(nm, 'b08-wmatch')
        for n, keys, f, _ in pmap(_w_wmatch, [(c, 30 if quick else 40) for c in _chunks(ms, 25)]):
            run.case(n)
            run.nontrivial.update(keys)
            _merge_fam(fam, f)
        run.bound(f'whole strings matched: {nm} seeded template strings ({len(D.MATCH_ATOMS)} atom texts, {len(D.MATCH_BONDS)} bond texts, no implicit '
                  f'bond, 10 % with radicals) x {30 if quick else 40} seeded molecules each (<= 60 atoms) against the reference embeddings')
        for n, keys, f, _ in pmap(_w_elements, _chunks(list(range(1, 119)), 8)):
            run.case(n)
            run.nontrivial.update(keys)
            _merge_fam(fam, f)
        run.bound('element matrix: [Sym], [#Z], [Sym,#Z\'], [#Z,Sym\'] for every Z in 1..118 x the single-atom molecule of every element')
        tm['whole-match'] = round(time.time() - t0, 1)
        t0 = time.time()
        api = api_queries()
        for n, keys, f, _ in pmap(_w_api, _chunks(list(range(len(mols))), 8 if quick else 16)):
            run.case(n)
            run.nontrivial.update(keys)
            _merge_fam(fam, f)
        run.bound(f'API-built queries: {len(api)} containers (QueryElement.from_symbol / from_atomic_number / AnyElement / ListElement with str and int '
                  f'members / AnyMetal with int, list and tuple valued keywords; add_atom(str | int | Element | Query); copies; add_bond(int | tuple | list | '
                  f'set | Bond | QueryBond with in_ring | QueryBond.from_bond)) x {len(mols)} molecules; QueryElement.from_atom(atom, flag=True) for '
                  f'{len(FROM_ATOM_FLAGS)} flags x every atom of the molecules with <= 30 atoms')
        tm['api'] = round(time.time() - t0, 1)

    # (6) labels of edited molecules ---------------------------------------------------------------------------------------------------
    t0 = time.time()
    scripts = D.edit_scripts(10 if quick else 80, 6 if quick else 8, 'b08-edit')
    failed = {}
    for n, keys, f, fl in pmap(_w_edits, _chunks(scripts, 10)):
        run.case(n)
        run.nontrivial.update(keys)
        _merge_fam(fam, f)
        for k, v in fl.items():
            failed[k] = failed.get(k, 0) + v
    run.bound(f'labels under edits: {len(scripts)} seeded scripts of <= {6 if quick else 8} operations from {D.OPS} on {len(D.EDIT_MOLS)} molecules; after '
              f'every operation all atom labels (neighbors, heteroatoms, hybridization, ring_sizes, in_ring) and bond in_ring marks against a fresh '
              f'container, after the script {len(EDIT_QUERIES)} queries; ring sizes only where the minimum cycle basis is unique')
    run.assume('the independent attributes of an edited molecule are determined on a fresh container with the same atoms and bonds (oracles/'
               'o08_whole.py fresh_copy); an editing operation that raises ends the script (not this property)',
               'substructure semantics of multi-atom queries as in C07: injective, every query bond has an image satisfying it, no other target bond '
               'between images of one query component, different query components in different target components',
               'a duplicated atom mapping may be rejected with the library\'s MappingError as well as with the invalid-SMARTS error',
               'allene marks in queries: the oracle is the library\'s molecule reader (C03 / C12): a complete allene query matches iff both texts '
               'give the same canonical string')
    run.notes['b08_edit_operations_that_raised'] = failed
    tm['edits'] = round(time.time() - t0, 1)

    # (3) stereo -----------------------------------------------------------------------------------------------------------------
    t0 = time.time()
    cases = stereo_cases()
    members = {}
    for n, keys, f, mm in pmap(_w_stereo, _chunks(cases, 40)):
        run.case(n)
        run.nontrivial.update(keys)
        _merge_fam(fam, f)
        for k, (a, b) in mm.items():
            e = members.setdefault(k, [0, 0])
            e[0] += a
            e[1] += b
    run.bound(f'stereo marks: {len(cases)} (query spelling, target) pairs: all 24 neighbour orders x @/@@ in chain and first-atom position, three-neighbour '
              f'centres, 12 ring-closure spellings x both substituent orders, cis/trans spellings, centres numbered by atom mapping, targets with an '
              f'explicit hydrogen atom, allenes')
    tm['stereo'] = round(time.time() - t0, 1)

    cm = {k[14:]: v for k, v in stats.items() if k.startswith('class-members:')}
    run.notes['b08_outcomes'] = dict(sorted(((k, v) for k, v in stats.items() if not k.startswith('class-members:')), key=lambda kv: -kv[1])[:30])
    run.notes['b08_seconds'] = tm
    if os.environ.get('B08_DEBUG'):
        import sys
        print('b08 seconds', tm, file=sys.stderr)
    # tightness of the families: members of the input class of the key (independent predicate) / how many of them produce this key
    tight = {}
    for k, (cnt, _) in fam.items():
        if k.startswith('smarts-exc:'):
            c = k.split(':', 3)[3]
            tight[k] = [cm.get(c, 0), cnt]
    for k, (a, b) in members.items():
        tight[k] = [a, b]
    run.notes['b08_tightness_members_failing'] = tight
    for k in sorted(fam):
        cnt, lst = fam[k]
        _, s, det, *mol = lst[0]
        w = {'smarts': s, 'examples': [x[1] for x in lst], 'count': cnt}
        if mol:
            w['molecule'] = mol[0]
            w['example_molecules'] = [x[3] for x in lst]
        run.violation(k, f'C08 family {k}: {cnt} case(s), shortest {s!r}: {det}', witness=w, native=det)


def _replay_mol(smi):
    from bounded.domains import parse
    S = _S
    if smi == '(molecule without atoms)':
        from chython.containers import MoleculeContainer
        return MoleculeContainer()
    if smi.endswith(' (as parsed)'):
        return S['smiles'](smi[:-12])
    if smi in EXTRA_MOLS or smi in EXTRA_MOLS2 or (smi.startswith('[') and smi.endswith(']') and smi.count('[') == 1):
        return S['smiles'](smi)
    return parse(smi)


def replay(rec):
    import re
    S = _setup()
    Q = S['Q']
    w = rec['witness']
    key = rec['key']
    env.SEED = int(rec.get('seed', env.SEED) or 0)   # the seeded domains of the recorded run
    quick = rec.get('tier', 'quick') == 'quick'
    from bounded import d08_extra as D
    ok = True
    examples = list(w.get('examples', ()))
    mols = list(w.get('example_molecules', ()))

    def show(fam):
        for k, (cnt, lst) in fam.items():
            for x in lst:
                print('  ', k, '|', x[1], '|', x[2])
        return not fam
    if examples and " seed '" in examples[0]:   # edit scripts
        scripts = []
        for e in examples:
            m = re.match(r"(.*) seed '([^']*)': ", e)
            if m:
                scripts.append((D.EDIT_MOLS.index(m.group(1)), m.group(2), 6 if quick else 8))
        return show(_w_edits(scripts)[2])
    if examples and examples[0].startswith(('QueryElement.from_atom', 'api')):
        _QC['mols'] = [(smi, _replay_mol(smi)) for smi in dict.fromkeys(mols)]
        fam = _w_api(list(range(len(_QC['mols']))))[2]
        return show({k: v for k, v in fam.items() if k == key})
    if key.startswith('smarts-stereo'):
        n, keys, fam, _ = _w_stereo([c for c in stereo_cases() if c[0] in examples])
        return show(fam)
    if mols and mols[0] == 'single-element molecules' or key.endswith(':element'):
        return show(_w_elements(list(range(1, 119)))[2])
    if mols:   # matching witness: (query, molecule) pairs
        recs = {r['text']: r for r in D.match_strings(600 if quick else 5000, 'b08-wmatch')}
        for text, smi in zip(examples, mols):
            mol = _replay_mol(smi)
            if text in recs and text.count('[') + sum(text.count(x) for x in 'CNO') > 2:
                _QC['mols'] = [(smi, mol)]
                _QC.pop('views', None)
                ok = show(_w_wmatch(([recs[text]], 1))[2]) and ok
                continue
            q = S['smarts'](text)
            atoms, bonds = Q.environment(mol)
            body, *cx = text.split()
            rads = {int(i) for x in re.findall(r'\^[1-7]:([0-9,]+)', ' '.join(cx)) for i in x.split(',')}
            maps = list(q.get_mapping(mol, automorphism_filter=False, _cython=False))
            if body.count('[') == 1:
                ref = Q.read_bracket(body[1:-1])
                hits = {m[next(iter(q._atoms))] for m in maps}
                exp = {a for a, e in atoms.items() if Q.atom_matches(ref, e, 0 in rads)}
            else:
                a1, rest = body[1:].split(']', 1)
                b, a2 = rest.split('[', 1)
                r1, rb, r2 = Q.read_bracket(a1), Q.read_bond(b), Q.read_bracket(a2[:-1])
                q1, q2 = list(q._atoms)
                hits = {(m[q1], m[q2]) for m in maps}
                exp = {(u, v) for k, be in bonds.items() if Q.bond_matches(rb, be) for u, v in (tuple(k), tuple(k)[::-1])
                       if Q.atom_matches(r1, atoms[u], 0 in rads) and Q.atom_matches(r2, atoms[v], 1 in rads)}
            print(f'  {text} on {smi}: hits {sorted(hits)} expected {sorted(exp)}')
            ok = ok and hits == exp
        return ok
    whole = None
    for s in dict.fromkeys([w['smarts']] + examples):
        if s.startswith('[') and s.endswith(']') and '[' not in s[1:] and ']' not in s[:-1]:
            st, fam, det = judge_bracket(s[1:-1])
        elif s.startswith('C') and s.endswith('N') and '[' not in s and len(s) > 1 and not any(c in s[1:-1] for c in 'CNOl()1%'):
            st, fam, det = judge_bond(s[1:-1])
        else:
            st = None
            for ctx in BOND_CONTEXTS:   # a bond text in one of the contexts
                a, b = ctx[0].split('{}')
                if s.startswith(a) and s.endswith(b) and len(s) >= len(a) + len(b) and all(c in BOND_CHARS for c in s[len(a):len(s) - len(b)]):
                    st, fam, det = judge_bond_in(ctx, s[len(a):len(s) - len(b)])
                    break
            if st is None:
                if whole is None:
                    whole = {r['text']: r for r in D.whole_strings(8000 if quick else 100000, 'b08-whole')}
                if s in whole:
                    st, fam, det = judge_whole(whole[s])
                else:   # whole-string fuzz: raises-contract only
                    from chython.exceptions import MappingError
                    try:
                        S['smarts'](s)
                        st, fam, det = 'accepted', None, None
                    except (S['Bad'], MappingError) as e:
                        st, fam, det = 'rejected', None, f'{type(e).__name__}: {e}'
                    except Exception as e:
                        st, fam, det = 'violation', f'smarts-exc:{type(e).__name__}@{_where(e)}', f'{type(e).__name__}: {e}'
        print(f'  {s!r}: {st} {fam or ""} {det or ""}')
        ok = ok and st != 'violation'
    return ok
