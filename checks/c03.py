"""C03 - the SMILES reader builds exactly the molecule the text denotes, rejects the rest (DESIGN §2 C03).
P/fixpoint: `_tokenize` raises only ValueError subclasses for EVERY string (finite-state induction over the real loop body);
B (checks/b03.py): token strings, grammar strings, corpus and corruptions against a reference reader and RDKit."""
from vlib import env
from checks.common import anchored, bounded_part, want, make_replay

LEVEL = 'other'
replay = make_replay('C03')
FINISH = dict(
    rule='fixpoint: one obligation per (reachable abstract tokenizer state, character class) and per reachable state for the post-loop block; '
         'B: strings, non-trivial = accepted string with at least two atoms or any rejected string with a distinct reason',
    explanation='The raises-contract of _tokenize is an inductive invariant: the loop body, cut from the current AST, is run on a representative of '
                'every reachable abstract state x character class until the state set is closed; an exception outside ValueError in any reachable '
                'state is a failed obligation whose witness string is replayed on the real function. What the text denotes (reference reader, '
                'RDKit) is decided by the bounded stand-in only.',
    trusted_base=['CPython', 'the abstraction (token_type, token kind, last two tokens) justified by a syntactic dependency check of the loop body',
                  'oracles/o03_refsmiles.py', 'RDKit (second opinion)'])


def main(run):
    env.setup()
    if want(run, 'P'):
      with anchored(run, 'C03/P'):
        from contracts import tokenizer
        r = tokenizer.fixpoint()
        run.under_contract(tokenizer.FILE, '_tokenize', r['text'])
        sound = not r['problems']
        if not sound:
            # the abstraction's soundness argument does not cover this shape of the loop body: agreement proves nothing (reported UNANCHORED, the
            # steps are counted as bounded cases); a witness string that makes the real _tokenize raise a non-ValueError stays a replayed violation
            run.unanchored('C03/P:tokenizer-fixpoint', 'dependency check: ' + '; '.join(r['problems']))
        unsafe = {}
        for w, e, name in r['unsafe']:
            unsafe.setdefault(e, []).append(w)
        known = {}
        for e, ws in unsafe.items():
            w = min(ws, key=lambda x: (len(x), x))
            nat = tokenizer.replay(w)
            if not sound and nat != e:
                continue            # without the abstraction argument only a string that fails on the real function counts
            known[e] = run.violation(f'tokenize-fixpoint:{e}', f'_tokenize({w!r}) raises {e} (not a ValueError): reachable tokenizer state, {len(ws)} witness strings',
                                     witness={'string': w, 'more': sorted(ws, key=len)[:5]}, obligation=f'_tokenize raises only ValueError [{e}]', native=nat,
                                     found_input=(nat == e))
        bad = {name: e for w, e, name in r['unsafe']}
        if sound:
            for name, ok in r['rows']:
                run.oblig(name, ok, 'P', 'fixpoint', 0.0, known=(not ok and known.get(bad.get(name)) == 'known'))
        else:
            run.case(len(r['rows']))
            run.bound('tokenizer steps without the abstraction argument: one representative per (reached abstract state, character class)')
        run.notes['tokenizer_fixpoint'] = {'abstract_states': r['states'], 'character_classes': len(tokenizer.CLASSES)}
    bounded_part(run, 'C03')
    run.assume('tokenizer abstraction: behaviour of the loop body depends only on token_type, the kind of `token`, the last two tokens and the class of the '
               'character (checked syntactically: s is only compared with literals / isnumeric / upper, tokens only appended, popped or read at -1)')
    return FINISH
