"""C04 bounded stand-in (engine B): implicit hydrogens / valence errors / derived totals.

Contracts (from the property statement; DESIGN.md §2 C04):
  grid  - every (element of the organic subset, charge -2..+2, radical flag, multiset of <= 4 bonds of orders 1-3 to
          {C,N,O,S,F,Cl,H}) built as a real molecule (central atom + neighbour atoms):
          H1 `atom.implicit_hydrogens` of *every* atom of the molecule == re-derivation from the raw element tables
             (oracles/o04_valence.py; first candidate wins);
          H2 `mol.check_valence()` == atoms for which the re-derivation has no candidate;
          H3 `check_implicit(n, h)` <=> h among the candidates, h = 0..4;
          H4 lower-bound ("textbook") model: octet / normal valence states must carry v - S hydrogens;
          H5 one-directional RDKit (central atoms of the organic subset only; As, Se excluded): chython assigns a count => RDKit accepts the
             atom and reports the same total;
          T  brutto / int(mol) / mol.is_radical / float(mol) == sums over atoms including implicit hydrogens.
  arom  - the aromatic-carbon special cases of calc_implicit on ring carbons built with order-4 bonds (H1, H2, T).
  corpus- whole molecules after kekule()+thiele(): atom by atom vs RDKit (total H, charge), formula, charge, radical, MolWt;
          H1/H3 on the Kekule form; aromatic carbons: parse-time count == Kekule-derived count == recalculated count.
Coverage audit extension (same contracts, input classes the domains above never contained):
  gridq - charges -4,-3,+3,+4 (boundary of the documented charge range of Element.charge) and hydrogen as the central atom (H, H+, H-, H*).
  numb  - the star states built through the *public* incremental API (add_atom / add_bond with their own recalculation over `_changed`)
          under atom numbers that are not 1..N (descending, gaps, >= 999, 65530+), neighbours inserted in seeded order.
  gen   - whole generated molecules WITHOUT validity filter (bounded/d04_gen.py): over-valent atoms, charges / radicals anywhere, isotopes,
          explicit H, second components, "any" bonds to metals, non-trivial numbering: H1-H3 on every atom, T with isotope masses;
          copy() / substructure() / split() / union keep or recompute the counts (H1 on the result, totals add up).
  edit  - seeded scripts of public edits (add_atom, add_bond, delete_bond, delete_atom, transactions changing charge / radical) on generated
          molecules and on Kekule forms of corpus molecules: H1, H2, T after every step.
  reader- star states written as SMILES bracket atoms with every stated hydrogen count 0..4 (reader options: default, ignore_carbon_radicals,
          keep_implicit, ignore=False, remap; radicals through CXSMILES) and as V2000 molfiles (charge field / M  CHG, M  RAD, M  ISO; remap):
          every atom without a stated count has the first candidate; a stated count is kept only if it is a candidate of the final state;
          no count <=> no candidate <=> reported by check_valence().
  special- empty molecule, single isotopic atoms, multi-component totals (radical / charge only in a later component), explicit-H forms
          (explicify_hydrogens keeps brutto, charge, mass).
"""
import itertools
from collections import Counter

from vlib import env
from vlib.report import pmap

RULE = ('non-trivial = an atom state for which a valence state exists (library or reference model assigns a hydrogen count); '
        'corpus: distinct canonical molecules compared atom by atom')

ORDERS = (1, 2, 3)
CHARGES = (-2, -1, 0, 1, 2)
MAXV = 6         # violations reported per work item
HYPERVALENT_HALOGENS = ('Cl', 'Br', 'I')
RDKIT_ELEMENTS = ('B', 'C', 'N', 'O', 'F', 'Si', 'P', 'S', 'Cl', 'Br', 'I')   # organic subset: RDKit comparison (H5) only here


def _setup():
    env.setup()
    from rdkit import RDLogger
    RDLogger.DisableLog('rdApp.*')


def envtext(envt):
    return ','.join(f'{o}{e}' for o, e in envt) or '-'


def statekey(sym, ch, rad, envt, ring=''):
    return f'{ring}{sym}{ch:+d}{"*" if rad else ""}|{envtext(envt)}'


# ---- construction of the real molecules ------------------------------------------------------------------------------------
def build_star(sym, ch, rad, envt):
    from chython.containers import MoleculeContainer
    from chython.periodictable import Element
    m = MoleculeContainer()
    m.add_atom(Element.from_symbol(sym)(charge=ch, is_radical=rad), 1, _skip_calculation=True)
    for j, (o, e) in enumerate(envt, 2):
        m.add_atom(e, j, _skip_calculation=True)
        m.add_bond(1, j, o, _skip_calculation=True)
    m.fix_structure()
    return m


def build_ring(kind, sym, ch, rad, envt):
    """central atom 1 in an all-aromatic-bond (order 4) carbocycle: kind 'a2' benzene position, 'a3' naphthalene fusion
    position, 'a1' one aromatic bond (dangling), 'a4' four aromatic bonds (spiro-like)"""
    from chython.containers import MoleculeContainer
    from chython.periodictable import Element
    m = MoleculeContainer()
    m.add_atom(Element.from_symbol(sym)(charge=ch, is_radical=rad), 1, _skip_calculation=True)
    if kind == 'x8':   # no ring: the star of the plain grid plus one "any" bond (order 8) to a metal atom, which must not count
        m.add_atom('Fe', 2, _skip_calculation=True)
        m.add_bond(1, 2, 8, _skip_calculation=True)
        for j, (o, e) in enumerate(envt, 3):
            m.add_atom(e, j, _skip_calculation=True)
            m.add_bond(1, j, o, _skip_calculation=True)
        m.fix_structure()
        return m
    if kind == 'a2':
        cyc = [[1, 2, 3, 4, 5, 6]]
    elif kind == 'a3':
        cyc = [[1, 2, 3, 4, 5, 6], [1, 6, 7, 8, 9, 10]]   # shares bond 1-6
    elif kind == 'a4':
        cyc = [[1, 2, 3, 4, 5, 6], [1, 7, 8, 9, 10, 11]]  # shares atom 1 only
    else:
        cyc = [[2, 3, 4, 5, 6, 7]]
    n_ring = max(x for c in cyc for x in c)
    for i in range(2, n_ring + 1):
        m.add_atom('C', i, _skip_calculation=True)
    done = set()
    for c in cyc:
        for a, b in zip(c, c[1:] + c[:1]):
            if frozenset((a, b)) not in done:
                done.add(frozenset((a, b)))
                m.add_bond(a, b, 4, _skip_calculation=True)
    if kind == 'a1':
        m.add_bond(1, 2, 4, _skip_calculation=True)
    for j, (o, e) in enumerate(envt, n_ring + 1):
        m.add_atom(e, j, _skip_calculation=True)
        m.add_bond(1, j, o, _skip_calculation=True)
    m.fix_structure()
    return m


def atom_env(m, n):
    return tuple(sorted((b.order, m._atoms[k].atomic_symbol) for k, b in m._bonds[n].items()))


# ---- contracts on one molecule -------------------------------------------------------------------------------------------------
def check_atoms(m, tag, aromatic=False, h3=None, atoms=None, none_other=None):
    """H1, H3 for the atoms `atoms` (default all; H3 for atoms in h3, default all) and H2 for the molecule.
    none_other: atoms outside `atoms` already known to have no valence state by the reference.
    returns (list of (contract, what, detail), atoms without state by the reference among `atoms`)"""
    from oracles import o04_valence as O
    bad = []
    none_expected = []
    for n in (m._atoms if atoms is None else atoms):
        a = m._atoms[n]
        envn = atom_env(m, n)
        arom = any(o == 4 for o, _ in envn)
        if arom:
            cand = []
            exp = O.expected_with_aromatic(a.atomic_symbol, a.charge, a.is_radical, envn) if aromatic else None
        else:
            cand = O.candidates(a.atomic_symbol, a.charge, a.is_radical, [x for x in envn if x[0] != 8])
            exp = cand[0] if cand else None
        if exp is None:
            none_expected.append(n)
        if a.implicit_hydrogens != exp:
            bad.append(('H1-table-rederivation', f'{tag}: atom {n} {a.atomic_symbol}{a.charge:+d}{"*" if a.is_radical else ""} with bonds '
                        f'[{envtext(envn)}] has implicit_hydrogens={a.implicit_hydrogens}, the element tables give {exp}',
                        {'atom': n, 'library': a.implicit_hydrogens, 'reference': exp}))
        if h3 is None or n in h3:
            for h in range(5):
                got = m.check_implicit(n, h)
                if got != (h in cand):
                    bad.append(('H3-check_implicit', f'{tag}: check_implicit({n}, {h}) = {got} for {a.atomic_symbol}{a.charge:+d}'
                                f'{"*" if a.is_radical else ""} [{envtext(envn)}]; candidates from the tables {cand}',
                                {'atom': n, 'h': h, 'library': got, 'candidates': cand}))
                    break
    cv = sorted(m.check_valence())
    ref = sorted(set(none_expected) | set(none_other or ()))
    if cv != ref:
        bad.append(('H2-check_valence', f'{tag}: check_valence() = {cv}, atoms without a valence state by the element tables = {ref}',
                    {'library': cv, 'reference': ref}))
    return bad, none_expected


def check_totals(m, tag):
    """T: derived totals are sums over atoms including implicit hydrogens (only when every atom has a count)"""
    from oracles import o04_valence as O
    from oracles import o04_masses as O5
    bad = []
    hs = [a.implicit_hydrogens for _, a in m.atoms()]
    if any(h is None for h in hs):
        return bad, False
    m.flush_cache()
    c = Counter(a.atomic_symbol for _, a in m.atoms())
    nh = sum(hs)
    if nh or 'H' in c:
        c['H'] += nh
    br = {k: v for k, v in m.brutto.items() if v}
    if br != {k: v for k, v in c.items() if v}:
        bad.append(('T-brutto', f'{tag}: brutto {br} != atoms + implicit hydrogens {dict(c)}', {'library': br, 'reference': dict(c)}))
    q = sum(a.charge for _, a in m.atoms())
    if int(m) != q or m.molecular_charge != q:
        bad.append(('T-charge', f'{tag}: int(mol) = {int(m)} != sum of atom charges {q}', {'library': int(m), 'reference': q}))
    r = any(a.is_radical for _, a in m.atoms())
    if m.is_radical is not r:
        bad.append(('T-radical', f'{tag}: mol.is_radical = {m.is_radical} != any(atom radical) {r}', {'library': m.is_radical, 'reference': r}))
    w = sum(O.rdkit_weight(a.atomic_number) if a.isotope is None else O5.isotope_mass(a.atomic_number, a.isotope) for _, a in m.atoms()) \
        + nh * O.rdkit_weight(1)
    fm = float(m)
    if abs(fm - w) > 0.05:
        bad.append(('T-mass', f'{tag}: float(mol) = {fm:.4f} != sum of standard atomic weights incl. implicit H {w:.4f}',
                    {'library': fm, 'reference': w}))
    return bad, True


def check_state(sym, ch, rad, envt, ring='', reuse=None):
    """all contracts for one grid state; returns (violations [(key, what, witness, native)], nontrivial?, info).
    reuse = (molecule built for another charge/radical state of the same environment, reference-None atoms among the neighbours):
    the state of the central atom is set through the public setters and calc_implicit(1) is called again - the labels of the
    molecule do not depend on charge / radical flag.  Without `reuse` (first state of each environment, replay) the molecule is built afresh
    and every atom is checked."""
    from oracles import o04_valence as O
    envt = tuple(tuple(x) for x in envt)
    tag = statekey(sym, ch, rad, envt, ring + ':' if ring else '')
    wit = {'kind': 'grid', 'ring': ring, 'element': sym, 'charge': ch, 'radical': rad, 'bonds': [list(x) for x in envt]}
    if reuse is None:
        m = build_ring(ring, sym, ch, rad, envt) if ring else build_star(sym, ch, rad, envt)
        bad, none_all = check_atoms(m, tag, aromatic=bool(ring), h3=(1,))
        none_other = [n for n in none_all if n != 1]
    else:
        m, none_other = reuse
        a = m._atoms[1]
        a.charge = ch
        a.is_radical = rad
        m.flush_cache()
        m.calc_implicit(1)
        bad, _ = check_atoms(m, tag, aromatic=bool(ring), h3=(1,), atoms=(1,), none_other=none_other)
    h = m._atoms[1].implicit_hydrogens
    tb, ok = check_totals(m, tag)
    bad += tb
    info = {'h': h, 'totals': ok, 'rdkit': None, 'mol': m, 'none_other': none_other}
    if not ring:
        t = O.textbook(sym, ch, rad, envt)
        if t is not None and t != h:
            bad.append(('H4-textbook-state', f'{tag}: textbook valence state must carry {t} hydrogens, implicit_hydrogens={h}',
                        {'library': h, 'reference': t}))
        if h is not None and sym in RDKIT_ELEMENTS:
            rh = O.rdkit_total_h(sym, ch, rad, envt)
            th = h + sum(1 for _, e in envt if e == 'H')
            info['rdkit'] = rh
            if rh is None:
                if sym in HYPERVALENT_HALOGENS and sum(o for o, _ in envt) > 1:
                    info['rdkit'] = 'out-of-domain'
                else:
                    bad.append(('H5-rdkit-accepts', f'{tag}: library assigns {th} hydrogens in total, RDKit rejects the atom (no valence state)',
                                {'library_total_h': th, 'rdkit': None}))
            elif rh != th:
                bad.append(('H5-rdkit-total', f'{tag}: library total hydrogens {th}, RDKit {rh}', {'library_total_h': th, 'rdkit': rh}))
    out = [(f'grid:{tag}:{c}', what, wit, native) for c, what, native in bad]
    return out, h is not None or O.expected_with_aromatic(sym, ch, rad, atom_env(m, 1)) is not None, info


# ---- workers ----------------------------------------------------------------------------------------------------------------------
def _multisets(neigh, sizes, orders=ORDERS):
    bt = [(o, e) for o in orders for e in neigh]
    for k in sizes:
        yield from itertools.combinations_with_replacement(bt, k)


def w_grid(item):
    _setup()
    sym, charges, neigh, sizes, orders, part, parts, ring = item
    n = 0
    keys, samples, viol = [], [], []
    stats = Counter()
    for i, envt in enumerate(_multisets(neigh, sizes, orders)):
        if i % parts != part:
            continue
        reuse = None
        for ch in charges:
            for rad in (False, True):
                v, nt, info = check_state(sym, ch, rad, envt, ring, reuse)
                reuse = (info['mol'], info['none_other'])
                n += 1
                if nt:
                    keys.append(statekey(sym, ch, rad, envt, ring))
                    if len(samples) < 1 and info['h']:
                        samples.append({'state': statekey(sym, ch, rad, envt, ring), 'implicit_hydrogens': info['h'], 'rdkit_total_h': info['rdkit']})
                if info['totals']:
                    stats['totals'] += 1
                if info['rdkit'] == 'out-of-domain':
                    stats['rdkit_out_of_domain'] += 1
                elif info['rdkit'] is not None:
                    stats['rdkit_agree'] += 1
                elif info['h'] is None and not ring:
                    stats['library_none'] += 1
                if v and len(viol) < MAXV:
                    viol.extend(v[:MAXV - len(viol)])
                stats['violating_states'] += bool(v)
    return n, keys, samples, viol, dict(stats)


def check_corpus_smiles(s):
    """returns (violations, key or None)"""
    from chython import smiles
    from rdkit import Chem
    from rdkit.Chem import Descriptors
    from oracles import o04_valence as O
    bad = []
    wit = {'kind': 'corpus', 'smiles': s}
    raw = smiles(s)
    parsed_h = {n: a.implicit_hydrogens for n, a in raw.atoms()}
    parsed_arom_c = {n for n, a in raw.atoms() if a.atomic_symbol == 'C' and not a.charge and not a.is_radical
                     and any(b.order == 4 for b in raw._bonds[n].values())}
    m = raw.copy()
    m.kekule()
    kek = m.copy()
    m.thiele()
    tag = s
    # Kekule form: table re-derivation, check_valence, check_implicit
    bad += check_atoms(kek, tag + ' (kekule form)', aromatic=False)[0]
    tb, _ = check_totals(kek, tag + ' (kekule form)')
    bad += tb
    # aromatic form: same counts atom by atom; aromatic-carbon rule == Kekule-derived count == parse-time count
    c = m.copy()
    for n, a in m.atoms():
        hk = kek._atoms[n].implicit_hydrogens
        if a.implicit_hydrogens != hk and not any(b.order == 4 for b in m._bonds[n].values()):
            bad.append(('A-nonaromatic-atom-changed', f'{tag}: atom {n} H {hk} -> {a.implicit_hydrogens} by thiele()', {'atom': n}))
        if a.atomic_symbol == 'C' and not a.charge and not a.is_radical and any(b.order == 4 for b in m._bonds[n].values()):
            c.calc_implicit(n)
            rc = c._atoms[n].implicit_hydrogens
            if rc is not None and rc != a.implicit_hydrogens:
                bad.append(('A-aromatic-carbon-rule', f'{tag}: aromatic carbon {n}: calc_implicit gives {rc}, Kekule-derived count {a.implicit_hydrogens}',
                            {'atom': n, 'library_aromatic_rule': rc, 'kekule_derived': a.implicit_hydrogens}))
        if n in parsed_arom_c and parsed_h[n] is not None and parsed_h[n] != hk:
            bad.append(('A-parse-time-aromatic-carbon', f'{tag}: aromatic carbon {n}: count at parse time {parsed_h[n]}, after kekule() {hk}',
                        {'atom': n, 'parse_time': parsed_h[n], 'kekule_derived': hk}))
    tb, ok = check_totals(m, tag + ' (aromatic form)')
    bad += tb
    # RDKit atom by atom
    r = Chem.MolFromSmiles(s)
    key = None
    if r is not None and r.GetNumAtoms() == len(m):
        key = str(m)
        for (n, a), ra in zip(m.atoms(), r.GetAtoms()):
            if a.atomic_number != ra.GetAtomicNum():
                raise RuntimeError(f'atom order mismatch between chython and RDKit for {s}')  # harness problem, not a violation
            th = None if a.implicit_hydrogens is None else a.implicit_hydrogens + a.explicit_hydrogens
            if th != ra.GetTotalNumHs() or a.charge != ra.GetFormalCharge():
                bad.append(('R-atom', f'{tag}: atom {n} {a.atomic_symbol}: library H={th} charge={a.charge}; RDKit H={ra.GetTotalNumHs()} charge={ra.GetFormalCharge()}',
                            {'atom': n, 'library': [th, a.charge], 'rdkit': [ra.GetTotalNumHs(), ra.GetFormalCharge()]}))
        if ok:
            rc = Counter(a.GetSymbol() for a in r.GetAtoms())
            rc['H'] += sum(a.GetTotalNumHs() for a in r.GetAtoms())
            if {k: v for k, v in rc.items() if v} != {k: v for k, v in m.brutto.items() if v}:
                bad.append(('R-formula', f'{tag}: brutto {m.brutto} != RDKit {dict(rc)}', {'library': m.brutto, 'rdkit': dict(rc)}))
            if abs(float(m) - Descriptors.MolWt(r)) > 0.05:
                bad.append(('R-mass', f'{tag}: float(mol) {float(m):.3f} != RDKit MolWt {Descriptors.MolWt(r):.3f}', {'library': float(m), 'rdkit': Descriptors.MolWt(r)}))
            if int(m) != sum(a.GetFormalCharge() for a in r.GetAtoms()):
                bad.append(('R-charge', f'{tag}: int(mol) {int(m)} != RDKit total charge', {'library': int(m)}))
            if m.is_radical != any(a.GetNumRadicalElectrons() for a in r.GetAtoms()):
                bad.append(('R-radical', f'{tag}: is_radical {m.is_radical} != RDKit', {'library': m.is_radical}))
    return [(f'corpus:{s}:{cn}', what, wit, native) for cn, what, native in bad], key


def w_corpus(chunk):
    _setup()
    n = 0
    keys, samples, viol = [], [], []
    stats = Counter()
    for s in chunk:
        try:
            v, key = check_corpus_smiles(s)
        except RuntimeError:
            raise
        except Exception as e:  # the corpus is valid drug-like input: the library must handle it
            v, key = [(f'corpus:{s}:exception', f'{s}: {type(e).__name__}: {e}', {'kind': 'corpus', 'smiles': s}, repr(e))], None
        n += 1
        if key is not None:
            keys.append(key)
            if not samples:
                samples.append({'corpus_smiles': s, 'canonical': key})
        else:
            stats['rdkit_unaligned'] += 1
        if v and len(viol) < MAXV:
            viol.extend(v[:MAXV - len(viol)])
    return n, keys, samples, viol, dict(stats)


# ---- entry points ------------------------------------------------------------------------------------------------------------------
def bounded(run):
    from oracles import o04_valence as O
    from bounded import domains
    thorough = run.tier == 'thorough'
    stats = Counter()
    vcount = Counter()

    def collect(results, label):
        for n, keys, samples, viol, st in results:
            run.case(n)
            for k in keys:
                run.case(0, key=(label, k))
            for s in samples:
                run.case(0, sample=s)
            for k, v in st.items():
                stats[f'{label}.{k}'] += v
            for key, what, wit, native in viol:
                contract = key.rsplit(':', 1)[1]
                vcount[contract] += 1
                if vcount[contract] <= 8:   # keep the report readable: at most 8 replay files per contract
                    run.violation(key, what, witness=wit, native=native)

    # 1. the exhaustive grid of the property
    parts = 32
    items = [(sym, CHARGES, O.NEIGHBOURS, (0, 1, 2, 3, 4), ORDERS, p, parts, '') for sym in O.ORGANIC for p in range(parts)]
    collect(pmap(w_grid, items), 'grid')
    nm = sum(1 for _ in _multisets(O.NEIGHBOURS, (0, 1, 2, 3, 4)))
    run.bound(f'grid (exhaustive, seed independent): {len(O.ORGANIC)} elements {O.ORGANIC} x charge -2..+2 x radical flag x all {nm} multisets of '
              f'<= 4 bonds of orders 1-3 to {O.NEIGHBOURS} = {len(O.ORGANIC) * 10 * nm} real molecules; every atom of each molecule is checked')
    # 2. rows with five and six neighbours (SF6, PF6-, IF5 ...): single/double bonds to F, O, C
    items = [(sym, CHARGES, ('F', 'O', 'C'), (5, 6), (1, 2), 0, 1, '') for sym in O.ORGANIC]
    collect(pmap(w_grid, items), 'grid56')
    run.bound('grid56 (exhaustive): same states x all 714 multisets of 5-6 bonds of orders 1-2 to (F, O, C)')
    # 3. aromatic-carbon special cases on real rings
    items = []
    for kind, sizes in (('a2', (0, 1, 2)), ('a3', (0, 1)), ('a1', (0, 1)), ('a4', (0,)), ('x8', (0, 1, 2))):
        for sym in O.ORGANIC:
            items.append((sym, CHARGES if sym == 'C' else (-1, 0, 1), O.NEIGHBOURS, sizes, ORDERS, 0, 1, kind))
    collect(pmap(w_grid, items), 'arom')
    run.bound('arom (exhaustive): ring position with 2 / 3 / 1 / 4 aromatic (order 4) bonds in benzene / naphthalene-fusion / dangling / spiro '
              'carbocycles x 13 elements x charges x radical flag x all multisets of <= 2 / 1 / 1 / 0 further bonds; plus (x8) the plain star with one '
              'additional "any" bond (order 8) to Fe x all multisets of <= 2 bonds: the count must ignore it')
    if thorough:
        ext = ('Br', 'I', 'P', 'B', 'Se', 'Si', 'C', 'O')
        items = [(sym, CHARGES, ext, (1, 2, 3), ORDERS, p, 8, '') for sym in O.ORGANIC for p in range(8)]
        collect(pmap(w_grid, items), 'gridx')
        run.bound(f'gridx (thorough, exhaustive): same states x all multisets of 1-3 bonds of orders 1-3 to the extended neighbour set {ext}')
    # 4. corpus
    k = None if thorough else 300
    sm = domains.corpus_sample(k, 'c04')
    chunks = [sm[i::64] for i in range(64) if sm[i::64]]
    collect(pmap(w_corpus, chunks), 'corpus')
    run.bound(f'corpus: {len(sm)} of the 4200 SMILES of pach/lipophilicity.csv (seeded sample in the quick tier), after kekule() + thiele()')

    run.assume('reference model oracles/o04_valence.py: hydrogen count re-derived from the raw _common_valences/_valences_exceptions tables of the '
               'tree under verification following the docstring of Element._valences_exceptions (first candidate wins); a change of a table row '
               'changes the reference too - table content is checked only by the lower-bound model and RDKit',
               'lower-bound model: octet valences of B C N O F with |charge| <= 1, their neutral radicals, normal valences of Si P S Cl Br I Se and '
               'simple anions must have a hydrogen count (TEXTBOOK table in oracles/o04_valence.py)',
               'RDKit 2026.03 valence model is trusted where it accepts an atom (Atom.UpdatePropertyCache(strict=True), GetTotalNumHs); the comparison is '
               'one-directional (library assigns a count => RDKit accepts and agrees); RDKit rejections of hypervalent Cl/Br/I states (sum of bond '
               'orders > 1: RDKit valence lists are Cl [1], Br [1], I [1,3,5]; ClF3, BrF3, HXOn, IO3F, polyhalide anions) are outside the oracle and '
               'only counted (rdkit_out_of_domain)',
               'the RDKit comparison (H5) is made only for central atoms of the organic subset B C N O F Si P S Cl Br I; As and Se are in the grid for the '
               'table re-derivation, check_valence, check_implicit and totals contracts only (RDKit\'s valence model against the library tables for '
               'elements outside the organic subset is outside the property: e.g. bare As is As(0) by the tables, AsH3 for RDKit)',
               'corpus molecules are valence-valid drug-like structures: RDKit (full sanitization) and the library must agree on every atom in both directions',
               'standard atomic weights of RDKit\'s periodic table; masses compared within 0.05')
    run.notes['c04_bounded_stats'] = dict(stats)
    run.notes['c04_violations_per_contract'] = dict(vcount)


def replay(rec):
    _setup()
    w = rec.get('witness') or {}
    if w.get('kind') == 'grid':
        v, _, _ = check_state(w['element'], w['charge'], w['radical'], [tuple(x) for x in w['bonds']], w.get('ring') or '')
    elif w.get('kind') == 'corpus':
        try:
            v, _ = check_corpus_smiles(w['smiles'])
        except Exception as e:
            print('exception', repr(e))
            return False
    else:
        return False
    want = rec['key'].rsplit(':', 1)[1]
    hit = [x for x in v if x[0].rsplit(':', 1)[1] == want]
    for x in hit:
        print('  ', x[1])
    return not hit
