"""C04 bounded stand-in (engine B): implicit hydrogens / valence errors / derived totals.

Contracts (from the property statement; DESIGN.md §2 C04):
  grid  - every (element of the organic subset, charge -2..+2, radical flag, multiset of <= 4 bonds of orders 1-3 to
          {C,N,O,S,F,Cl,H}) built as a real molecule (central atom + neighbour atoms):
          H1 `atom.implicit_hydrogens` of *every* atom of the molecule == re-derivation from the raw element tables
             (oracles/o04_valence.py; first candidate wins);
          H2 `mol.check_valence()` == atoms for which the re-derivation has no candidate;
          H3 `check_implicit(n, h)` <=> h among the candidates, h = 0..4;
          H4 lower-bound ("textbook") model: octet / normal valence states must carry v - S hydrogens;
          H5 one-directional RDKit (central atoms of the organic subset only; As, Se excluded): chython assigns a count => RDKit accepts the
             atom and reports the same total;
          T  brutto / int(mol) / mol.is_radical / float(mol) == sums over atoms including implicit hydrogens.
  arom  - the aromatic-carbon special cases of calc_implicit on ring carbons built with order-4 bonds (H1, H2, T).
  corpus- whole molecules after kekule()+thiele(): atom by atom vs RDKit (total H, charge), formula, charge, radical, MolWt;
          H1/H3 on the Kekule form; aromatic carbons: parse-time count == Kekule-derived count == recalculated count.
Coverage audit extension (same contracts, input classes the domains above never contained):
  gridq - charges -4,-3,+3,+4 (boundary of the documented charge range of Element.charge) and hydrogen as the central atom (H, H+, H-, H*).
  numb  - the star states built through the *public* incremental API (add_atom / add_bond with their own recalculation over `_changed`)
          under atom numbers that are not 1..N (descending, gaps, >= 999, 65530+), neighbours inserted in seeded order.
  gen   - whole generated molecules WITHOUT validity filter (bounded/d04_gen.py): over-valent atoms, charges / radicals anywhere, isotopes,
          explicit H, second components, "any" bonds to metals, non-trivial numbering: H1-H3 on every atom, T with isotope masses;
          copy() / substructure() / split() / union keep or recompute the counts (H1 on the result, totals add up).
  edit  - seeded scripts of public edits (add_atom, add_bond, delete_bond, delete_atom, transactions changing charge / radical) on generated
          molecules and on Kekule forms of corpus molecules: H1, H2, T after every step.
  reader- star states written as SMILES bracket atoms with every stated hydrogen count 0..4 (reader options: default, ignore_carbon_radicals,
          keep_implicit, ignore=False, remap; radicals through CXSMILES) and as V2000 molfiles (charge field / M  CHG, M  RAD, M  ISO; remap):
          every atom without a stated count has the first candidate; a stated count is kept only if it is a candidate of the final state;
          no count <=> no candidate <=> reported by check_valence().
  special- empty molecule, single isotopic atoms, multi-component totals (radical / charge only in a later component), explicit-H forms
          (explicify_hydrogens keeps brutto, charge, mass).
"""
import itertools
from collections import Counter

from vlib import env
from vlib.report import pmap

RULE = ('non-trivial = an atom state for which a valence state exists (library or reference model assigns a hydrogen count); '
        'corpus: distinct canonical molecules compared atom by atom')

ORDERS = (1, 2, 3)
CHARGES = (-2, -1, 0, 1, 2)
MAXV = 6         # violations reported per work item
HYPERVALENT_HALOGENS = ('Cl', 'Br', 'I')
RDKIT_ELEMENTS = ('B', 'C', 'N', 'O', 'F', 'Si', 'P', 'S', 'Cl', 'Br', 'I')   # organic subset: RDKit comparison (H5) only here


def _setup():
    env.setup()
    from rdkit import RDLogger
    RDLogger.DisableLog('rdApp.*')


def envtext(envt):
    return ','.join(f'{o}{e}' for o, e in envt) or '-'


def statekey(sym, ch, rad, envt, ring=''):
    return f'{ring}{sym}{ch:+d}{"*" if rad else ""}|{envtext(envt)}'


# ---- construction of the real molecules ------------------------------------------------------------------------------------
def build_star(sym, ch, rad, envt):
    from chython.containers import MoleculeContainer
    from chython.periodictable import Element
    m = MoleculeContainer()
    m.add_atom(Element.from_symbol(sym)(charge=ch, is_radical=rad), 1, _skip_calculation=True)
    for j, (o, e) in enumerate(envt, 2):
        m.add_atom(e, j, _skip_calculation=True)
        m.add_bond(1, j, o, _skip_calculation=True)
    m.fix_structure()
    return m


def build_ring(kind, sym, ch, rad, envt):
    """central atom 1 in an all-aromatic-bond (order 4) carbocycle: kind 'a2' benzene position, 'a3' naphthalene fusion
    position, 'a1' one aromatic bond (dangling), 'a4' four aromatic bonds (spiro-like)"""
    from chython.containers import MoleculeContainer
    from chython.periodictable import Element
    m = MoleculeContainer()
    m.add_atom(Element.from_symbol(sym)(charge=ch, is_radical=rad), 1, _skip_calculation=True)
    if kind == 'x8':   # no ring: the star of the plain grid plus one "any" bond (order 8) to a metal atom, which must not count
        m.add_atom('Fe', 2, _skip_calculation=True)
        m.add_bond(1, 2, 8, _skip_calculation=True)
        for j, (o, e) in enumerate(envt, 3):
            m.add_atom(e, j, _skip_calculation=True)
            m.add_bond(1, j, o, _skip_calculation=True)
        m.fix_structure()
        return m
    if kind == 'a2':
        cyc = [[1, 2, 3, 4, 5, 6]]
    elif kind == 'a3':
        cyc = [[1, 2, 3, 4, 5, 6], [1, 6, 7, 8, 9, 10]]   # shares bond 1-6
    elif kind == 'a4':
        cyc = [[1, 2, 3, 4, 5, 6], [1, 7, 8, 9, 10, 11]]  # shares atom 1 only
    else:
        cyc = [[2, 3, 4, 5, 6, 7]]
    n_ring = max(x for c in cyc for x in c)
    for i in range(2, n_ring + 1):
        m.add_atom('C', i, _skip_calculation=True)
    done = set()
    for c in cyc:
        for a, b in zip(c, c[1:] + c[:1]):
            if frozenset((a, b)) not in done:
                done.add(frozenset((a, b)))
                m.add_bond(a, b, 4, _skip_calculation=True)
    if kind == 'a1':
        m.add_bond(1, 2, 4, _skip_calculation=True)
    for j, (o, e) in enumerate(envt, n_ring + 1):
        m.add_atom(e, j, _skip_calculation=True)
        m.add_bond(1, j, o, _skip_calculation=True)
    m.fix_structure()
    return m


def atom_env(m, n):
    return tuple(sorted((b.order, m._atoms[k].atomic_symbol) for k, b in m._bonds[n].items()))


# ---- contracts on one molecule -------------------------------------------------------------------------------------------------
def check_atoms(m, tag, aromatic=False, h3=None, atoms=None, none_other=None):
    """H1, H3 for the atoms `atoms` (default all; H3 for atoms in h3, default all) and H2 for the molecule.
    none_other: atoms outside `atoms` already known to have no valence state by the reference.
    returns (list of (contract, what, detail), atoms without state by the reference among `atoms`)"""
    from oracles import o04_valence as O
    bad = []
    none_expected = []
    for n in (m._atoms if atoms is None else atoms):
        a = m._atoms[n]
        envn = atom_env(m, n)
        arom = any(o == 4 for o, _ in envn)
        if arom:
            cand = []
            exp = O.expected_with_aromatic(a.atomic_symbol, a.charge, a.is_radical, envn) if aromatic else None
        else:
            cand = O.candidates(a.atomic_symbol, a.charge, a.is_radical, [x for x in envn if x[0] != 8])
            exp = cand[0] if cand else None
        if exp is None:
            none_expected.append(n)
        if a.implicit_hydrogens != exp:
            bad.append(('H1-table-rederivation', f'{tag}: atom {n} {a.atomic_symbol}{a.charge:+d}{"*" if a.is_radical else ""} with bonds '
                        f'[{envtext(envn)}] has implicit_hydrogens={a.implicit_hydrogens}, the element tables give {exp}',
                        {'atom': n, 'library': a.implicit_hydrogens, 'reference': exp}))
        if h3 is None or n in h3:
            for h in range(5):
                got = m.check_implicit(n, h)
                if got != (h in cand):
                    bad.append(('H3-check_implicit', f'{tag}: check_implicit({n}, {h}) = {got} for {a.atomic_symbol}{a.charge:+d}'
                                f'{"*" if a.is_radical else ""} [{envtext(envn)}]; candidates from the tables {cand}',
                                {'atom': n, 'h': h, 'library': got, 'candidates': cand}))
                    break
    cv = sorted(m.check_valence())
    ref = sorted(set(none_expected) | set(none_other or ()))
    if cv != ref:
        bad.append(('H2-check_valence', f'{tag}: check_valence() = {cv}, atoms without a valence state by the element tables = {ref}',
                    {'library': cv, 'reference': ref}))
    return bad, none_expected


def check_totals(m, tag):
    """T: derived totals are sums over atoms including implicit hydrogens (only when every atom has a count)"""
    from oracles import o04_valence as O
    from oracles import o04_masses as O5
    bad = []
    hs = [a.implicit_hydrogens for _, a in m.atoms()]
    if any(h is None for h in hs):
        return bad, False
    m.flush_cache()
    c = Counter(a.atomic_symbol for _, a in m.atoms())
    nh = sum(hs)
    if nh or 'H' in c:
        c['H'] += nh
    br = {k: v for k, v in m.brutto.items() if v}
    if br != {k: v for k, v in c.items() if v}:
        bad.append(('T-brutto', f'{tag}: brutto {br} != atoms + implicit hydrogens {dict(c)}', {'library': br, 'reference': dict(c)}))
    q = sum(a.charge for _, a in m.atoms())
    if int(m) != q or m.molecular_charge != q:
        bad.append(('T-charge', f'{tag}: int(mol) = {int(m)} != sum of atom charges {q}', {'library': int(m), 'reference': q}))
    r = any(a.is_radical for _, a in m.atoms())
    if m.is_radical is not r:
        bad.append(('T-radical', f'{tag}: mol.is_radical = {m.is_radical} != any(atom radical) {r}', {'library': m.is_radical, 'reference': r}))
    w = sum(O.rdkit_weight(a.atomic_number) if a.isotope is None else O5.isotope_mass(a.atomic_number, a.isotope) for _, a in m.atoms()) \
        + nh * O.rdkit_weight(1)
    fm = float(m)
    if abs(fm - w) > 0.05:
        bad.append(('T-mass', f'{tag}: float(mol) = {fm:.4f} != sum of standard atomic weights incl. implicit H {w:.4f}',
                    {'library': fm, 'reference': w}))
    return bad, True


def check_state(sym, ch, rad, envt, ring='', reuse=None):
    """all contracts for one grid state; returns (violations [(key, what, witness, native)], nontrivial?, info).
    reuse = (molecule built for another charge/radical state of the same environment, reference-None atoms among the neighbours):
    the state of the central atom is set through the public setters and calc_implicit(1) is called again - the labels of the
    molecule do not depend on charge / radical flag.  Without `reuse` (first state of each environment, replay) the molecule is built afresh
    and every atom is checked."""
    from oracles import o04_valence as O
    envt = tuple(tuple(x) for x in envt)
    tag = statekey(sym, ch, rad, envt, ring + ':' if ring else '')
    wit = {'kind': 'grid', 'ring': ring, 'element': sym, 'charge': ch, 'radical': rad, 'bonds': [list(x) for x in envt]}
    if reuse is None:
        m = build_ring(ring, sym, ch, rad, envt) if ring else build_star(sym, ch, rad, envt)
        bad, none_all = check_atoms(m, tag, aromatic=bool(ring), h3=(1,))
        none_other = [n for n in none_all if n != 1]
    else:
        m, none_other = reuse
        a = m._atoms[1]
        a.charge = ch
        a.is_radical = rad
        m.flush_cache()
        m.calc_implicit(1)
        bad, _ = check_atoms(m, tag, aromatic=bool(ring), h3=(1,), atoms=(1,), none_other=none_other)
    h = m._atoms[1].implicit_hydrogens
    tb, ok = check_totals(m, tag)
    bad += tb
    info = {'h': h, 'totals': ok, 'rdkit': None, 'mol': m, 'none_other': none_other}
    if not ring:
        t = O.textbook(sym, ch, rad, envt)
        if t is not None and t != h:
            bad.append(('H4-textbook-state', f'{tag}: textbook valence state must carry {t} hydrogens, implicit_hydrogens={h}',
                        {'library': h, 'reference': t}))
        if h is not None and sym in RDKIT_ELEMENTS:
            rh = O.rdkit_total_h(sym, ch, rad, envt)
            th = h + sum(1 for _, e in envt if e == 'H')
            info['rdkit'] = rh
            if rh is None:
                if sym in HYPERVALENT_HALOGENS and sum(o for o, _ in envt) > 1:
                    info['rdkit'] = 'out-of-domain'
                else:
                    bad.append(('H5-rdkit-accepts', f'{tag}: library assigns {th} hydrogens in total, RDKit rejects the atom (no valence state)',
                                {'library_total_h': th, 'rdkit': None}))
            elif rh != th:
                bad.append(('H5-rdkit-total', f'{tag}: library total hydrogens {th}, RDKit {rh}', {'library_total_h': th, 'rdkit': rh}))
    out = [(f'grid:{tag}:{c}', what, wit, native) for c, what, native in bad]
    return out, h is not None or O.expected_with_aromatic(sym, ch, rad, atom_env(m, 1)) is not None, info


# ---- workers ----------------------------------------------------------------------------------------------------------------------
def _multisets(neigh, sizes, orders=ORDERS):
    bt = [(o, e) for o in orders for e in neigh]
    for k in sizes:
        yield from itertools.combinations_with_replacement(bt, k)


def w_grid(item):
    _setup()
    sym, charges, neigh, sizes, orders, part, parts, ring = item
    n = 0
    keys, samples, viol = [], [], []
    stats = Counter()
    for i, envt in enumerate(_multisets(neigh, sizes, orders)):
        if i % parts != part:
            continue
        reuse = None
        for ch in charges:
            for rad in (False, True):
                v, nt, info = check_state(sym, ch, rad, envt, ring, reuse)
                reuse = (info['mol'], info['none_other'])
                n += 1
                if nt:
                    keys.append(statekey(sym, ch, rad, envt, ring))
                    if len(samples) < 1 and info['h']:
                        samples.append({'state': statekey(sym, ch, rad, envt, ring), 'implicit_hydrogens': info['h'], 'rdkit_total_h': info['rdkit']})
                if info['totals']:
                    stats['totals'] += 1
                if info['rdkit'] == 'out-of-domain':
                    stats['rdkit_out_of_domain'] += 1
                elif info['rdkit'] is not None:
                    stats['rdkit_agree'] += 1
                elif info['h'] is None and not ring:
                    stats['library_none'] += 1
                if v and len(viol) < MAXV:
                    viol.extend(v[:MAXV - len(viol)])
                stats['violating_states'] += bool(v)
    return n, keys, samples, viol, dict(stats)


def check_corpus_smiles(s):
    """returns (violations, key or None)"""
    from chython import smiles
    from rdkit import Chem
    from rdkit.Chem import Descriptors
    from oracles import o04_valence as O
    bad = []
    wit = {'kind': 'corpus', 'smiles': s}
    raw = smiles(s)
    parsed_h = {n: a.implicit_hydrogens for n, a in raw.atoms()}
    parsed_arom_c = {n for n, a in raw.atoms() if a.atomic_symbol == 'C' and not a.charge and not a.is_radical
                     and any(b.order == 4 for b in raw._bonds[n].values())}
    m = raw.copy()
    m.kekule()
    kek = m.copy()
    m.thiele()
    tag = s
    # Kekule form: table re-derivation, check_valence, check_implicit
    bad += check_atoms(kek, tag + ' (kekule form)', aromatic=False)[0]
    tb, _ = check_totals(kek, tag + ' (kekule form)')
    bad += tb
    # aromatic form: same counts atom by atom; aromatic-carbon rule == Kekule-derived count == parse-time count
    c = m.copy()
    for n, a in m.atoms():
        hk = kek._atoms[n].implicit_hydrogens
        if a.implicit_hydrogens != hk and not any(b.order == 4 for b in m._bonds[n].values()):
            bad.append(('A-nonaromatic-atom-changed', f'{tag}: atom {n} H {hk} -> {a.implicit_hydrogens} by thiele()', {'atom': n}))
        if a.atomic_symbol == 'C' and not a.charge and not a.is_radical and any(b.order == 4 for b in m._bonds[n].values()):
            c.calc_implicit(n)
            rc = c._atoms[n].implicit_hydrogens
            if rc is not None and rc != a.implicit_hydrogens:
                bad.append(('A-aromatic-carbon-rule', f'{tag}: aromatic carbon {n}: calc_implicit gives {rc}, Kekule-derived count {a.implicit_hydrogens}',
                            {'atom': n, 'library_aromatic_rule': rc, 'kekule_derived': a.implicit_hydrogens}))
        if n in parsed_arom_c and parsed_h[n] is not None and parsed_h[n] != hk:
            bad.append(('A-parse-time-aromatic-carbon', f'{tag}: aromatic carbon {n}: count at parse time {parsed_h[n]}, after kekule() {hk}',
                        {'atom': n, 'parse_time': parsed_h[n], 'kekule_derived': hk}))
    tb, ok = check_totals(m, tag + ' (aromatic form)')
    bad += tb
    # RDKit atom by atom
    r = Chem.MolFromSmiles(s)
    key = None
    if r is not None and r.GetNumAtoms() == len(m):
        key = str(m)
        for (n, a), ra in zip(m.atoms(), r.GetAtoms()):
            if a.atomic_number != ra.GetAtomicNum():
                raise RuntimeError(f'atom order mismatch between chython and RDKit for {s}')  # harness problem, not a violation
            th = None if a.implicit_hydrogens is None else a.implicit_hydrogens + a.explicit_hydrogens
            if th != ra.GetTotalNumHs() or a.charge != ra.GetFormalCharge():
                bad.append(('R-atom', f'{tag}: atom {n} {a.atomic_symbol}: library H={th} charge={a.charge}; RDKit H={ra.GetTotalNumHs()} charge={ra.GetFormalCharge()}',
                            {'atom': n, 'library': [th, a.charge], 'rdkit': [ra.GetTotalNumHs(), ra.GetFormalCharge()]}))
        if ok:
            rc = Counter(a.GetSymbol() for a in r.GetAtoms())
            rc['H'] += sum(a.GetTotalNumHs() for a in r.GetAtoms())
            if {k: v for k, v in rc.items() if v} != {k: v for k, v in m.brutto.items() if v}:
                bad.append(('R-formula', f'{tag}: brutto {m.brutto} != RDKit {dict(rc)}', {'library': m.brutto, 'rdkit': dict(rc)}))
            if abs(float(m) - Descriptors.MolWt(r)) > 0.05:
                bad.append(('R-mass', f'{tag}: float(mol) {float(m):.3f} != RDKit MolWt {Descriptors.MolWt(r):.3f}', {'library': float(m), 'rdkit': Descriptors.MolWt(r)}))
            if int(m) != sum(a.GetFormalCharge() for a in r.GetAtoms()):
                bad.append(('R-charge', f'{tag}: int(mol) {int(m)} != RDKit total charge', {'library': int(m)}))
            if m.is_radical != any(a.GetNumRadicalElectrons() for a in r.GetAtoms()):
                bad.append(('R-radical', f'{tag}: is_radical {m.is_radical} != RDKit', {'library': m.is_radical}))
    return [(f'corpus:{s}:{cn}', what, wit, native) for cn, what, native in bad], key


def w_corpus(chunk):
    _setup()
    n = 0
    keys, samples, viol = [], [], []
    stats = Counter()
    for s in chunk:
        try:
            v, key = check_corpus_smiles(s)
        except RuntimeError:
            raise
        except Exception as e:  # the corpus is valid drug-like input: the library must handle it
            v, key = [(f'corpus:{s}:exception', f'{s}: {type(e).__name__}: {e}', {'kind': 'corpus', 'smiles': s}, repr(e))], None
        n += 1
        if key is not None:
            keys.append(key)
            if not samples:
                samples.append({'corpus_smiles': s, 'canonical': key})
        else:
            stats['rdkit_unaligned'] += 1
        if v and len(viol) < MAXV:
            viol.extend(v[:MAXV - len(viol)])
    return n, keys, samples, viol, dict(stats)


# ==== coverage-audit extension ======================================================================================================
# ---- numb: star states through the public incremental API under non-trivial atom numbers -------------------------------------------
NUMBERINGS = ('desc', 'gaps', 'k999', 'big')


def star_numbers(scheme, k, r):
    """(centre number, neighbour numbers) - never 1..N in order"""
    if scheme == 'desc':
        return k + 1, list(range(k, 0, -1))
    if scheme == 'gaps':
        nums = r.sample(range(1, 500), k + 1)
        return nums[0], nums[1:]
    if scheme == 'k999':
        nums = list(range(998, 998 + k + 1))
        r.shuffle(nums)
        return nums[0], nums[1:]
    nums = r.sample(range(65530, 70000), k + 1)
    return nums[0], nums[1:]


def build_star_public(sym, ch, rad, envt, centre, nums, centre_pos):
    """public API only: every add_atom / add_bond runs fix_structure over the atoms it changed; the centre is inserted at position
    centre_pos among the neighbours, each bond directly after both of its ends exist"""
    from chython.containers import MoleculeContainer
    from chython.periodictable import Element
    m = MoleculeContainer()
    pending = []
    have_centre = False
    for i, ((o, e), j) in enumerate(zip(envt, nums)):
        if i == centre_pos:
            m.add_atom(Element.from_symbol(sym)(charge=ch, is_radical=rad), centre)
            have_centre = True
            for oo, jj in pending:
                m.add_bond(jj, centre, oo)
            pending = []
        m.add_atom(e, j)
        if have_centre:
            m.add_bond(centre, j, o)
        else:
            pending.append((o, j))
    if not have_centre:
        m.add_atom(Element.from_symbol(sym)(charge=ch, is_radical=rad), centre)
        for oo, jj in pending:
            m.add_bond(jj, centre, oo)
    return m


def check_numb(sym, ch, rad, envt, scheme, centre, nums, centre_pos):
    envt = tuple(tuple(x) for x in envt)
    tag = f'{statekey(sym, ch, rad, envt)}@{scheme}:{centre}/{",".join(map(str, nums))}/{centre_pos}'
    wit = {'kind': 'numb', 'element': sym, 'charge': ch, 'radical': rad, 'bonds': [list(x) for x in envt], 'scheme': scheme,
           'centre': centre, 'numbers': list(nums), 'centre_pos': centre_pos}
    m = build_star_public(sym, ch, rad, envt, centre, nums, centre_pos)
    if atom_env(m, centre) != tuple(sorted(envt)):
        raise RuntimeError(f'harness: star {tag} not built as specified')
    bad, _ = check_atoms(m, tag, h3=(centre,))
    tb, _ = check_totals(m, tag)
    bad += tb
    key = f'numb:{statekey(sym, ch, rad, envt)}@{scheme}'
    return [(f'{key}:{c}', what, wit, native) for c, what, native in bad], m._atoms[centre].implicit_hydrogens


def w_numb(item):
    _setup()
    from bounded import domains
    sym, charges, neigh, sizes, part, parts = item
    n = 0
    keys, samples, viol = [], [], []
    stats = Counter()
    r = domains.rnd(f'c04numb:{sym}:{part}')
    for i, envt in enumerate(_multisets(neigh, sizes)):
        if i % parts != part:
            continue
        for ch in charges:
            for rad in (False, True):
                scheme = NUMBERINGS[(i + ch + rad) % len(NUMBERINGS)]
                envs = list(envt)
                r.shuffle(envs)
                centre, nums = star_numbers(scheme, len(envs), r)
                v, h = check_numb(sym, ch, rad, envs, scheme, centre, nums, r.randrange(len(envs) + 1))
                n += 1
                stats[scheme] += 1
                if h is not None:
                    keys.append(statekey(sym, ch, rad, envt) + '@' + scheme)
                if v and len(viol) < MAXV:
                    viol.extend(v[:MAXV - len(viol)])
    return n, keys, samples, viol, dict(stats)


# ---- gen: whole generated molecules, derived containers ------------------------------------------------------------------------------
def _brutto_sum(parts):
    c = Counter()
    for p in parts:
        for k, v in p.brutto.items():
            c[k] += v
    return {k: v for k, v in c.items() if v}


def check_derived(m, tag, r):
    """copy / substructure / split / union: the counts of the result are again the determined ones (H1, H2) and totals add up"""
    bad = []
    c = m.copy()
    for n, a in m._atoms.items():
        if c._atoms[n].implicit_hydrogens != a.implicit_hydrogens:
            bad.append(('D-copy', f'{tag}: copy() changed implicit_hydrogens of atom {n}: {a.implicit_hydrogens} -> {c._atoms[n].implicit_hydrogens}',
                        {'atom': n}))
    atoms = list(m._atoms)
    if len(atoms) > 1:
        sub_atoms = r.sample(atoms, r.randrange(1, len(atoms)))
        sub = m.substructure(sub_atoms)
        b, _ = check_atoms(sub, f'{tag} substructure({sorted(sub_atoms)})', h3=())
        bad += [('D-substructure.' + cn.split('-')[0], what, nat) for cn, what, nat in b]
        sub = m.substructure(sub_atoms, recalculate_hydrogens=False)
        for n in sub_atoms:
            if sub._atoms[n].implicit_hydrogens != m._atoms[n].implicit_hydrogens:
                bad.append(('D-substructure-keep', f'{tag}: substructure({sorted(sub_atoms)}, recalculate_hydrogens=False) atom {n}: '
                            f'{m._atoms[n].implicit_hydrogens} -> {sub._atoms[n].implicit_hydrogens}', {'atom': n}))
    parts = m.split()
    if sorted(n for p in parts for n in p._atoms) != sorted(atoms):
        raise RuntimeError(f'harness: split() of {tag} lost atoms')   # C13/C15 territory, not judged here
    for p in parts:
        b, _ = check_atoms(p, f'{tag} split part {sorted(p._atoms)}', h3=())
        bad += [('D-split.' + cn.split('-')[0], what, nat) for cn, what, nat in b]
    if all(a.implicit_hydrogens is not None for a in m._atoms.values()):
        m.flush_cache()
        if _brutto_sum(parts) != {k: v for k, v in m.brutto.items() if v}:
            bad.append(('D-split-brutto', f'{tag}: brutto of the split() parts {_brutto_sum(parts)} != brutto {m.brutto}', {'library': m.brutto}))
        if sum(int(p) for p in parts) != int(m) or abs(sum(float(p) for p in parts) - float(m)) > 1e-6 or any(p.is_radical for p in parts) != m.is_radical:
            bad.append(('D-split-totals', f'{tag}: charge / mass / radical of the split() parts do not add up to the molecule', {}))
        if len(parts) > 1:
            u = parts[-1]
            for p in parts[-2::-1]:
                u = u | p
            b, _ = check_atoms(u, f'{tag} union of the parts in reverse order', h3=())
            bad += [('D-union.' + cn.split('-')[0], what, nat) for cn, what, nat in b]
            u.flush_cache()
            if {k: v for k, v in u.brutto.items() if v} != {k: v for k, v in m.brutto.items() if v} or int(u) != int(m) or abs(float(u) - float(m)) > 1e-6:
                bad.append(('D-union-totals', f'{tag}: totals of the union of the parts differ from the molecule', {'library': u.brutto}))
    return bad


def check_gen(rec):
    from bounded import d04_gen as G, domains
    desc = G.describe(rec)
    tag = f'generated {desc} numbers {rec["numbers"]}{" (public build)" if rec["public"] else ""}'
    wit = {'kind': 'gen', 'record': rec}
    m = G.build(rec)
    bad, _ = check_atoms(m, tag)
    tb, ok = check_totals(m, tag)
    bad += tb
    bad += check_derived(m, tag, domains.rnd('c04derived:' + desc))
    return [(f'gen:{desc}:{c}', what, wit, native) for c, what, native in bad], ok, m


# ---- edit: scripts of public edits ---------------------------------------------------------------------------------------------------
EDIT_ELEMENTS = ('C', 'N', 'O', 'S', 'F', 'Cl', 'H', 'P', 'B')


def make_script(rec, r, steps):
    """seeded script of edits on the *record* (own bookkeeping, independent of the library).  Ops use node indices:
    ('delete_bond', i, j, order before) ('delete_atom', i) ('add_bond', i, j, o) ('add_atom', sym, ch, rad, number, (i, o) | None)
    ('txn', [op | ('charge', i, c) | ('radical', i, flag), ...])"""
    n = len(rec['atoms'])
    alive = set(range(n))
    adj = {i: {} for i in range(n)}
    for a, b, o in rec['bonds']:
        adj[a][b] = adj[b][a] = o
    numbers = list(rec['numbers'])
    script = []

    def structural():
        kinds = ['add_atom', 'add_bond', 'delete_bond', 'delete_atom']
        r.shuffle(kinds)
        for k in kinds:
            if k == 'delete_bond':
                bs = sorted((a, b) for a in alive for b in adj[a] if a < b)
                if bs:
                    a, b = r.choice(bs)
                    o = adj[a][b]
                    del adj[a][b], adj[b][a]
                    return ('delete_bond', a, b, o) if r.random() < .5 else ('delete_bond', b, a, o)
            elif k == 'delete_atom':
                if len(alive) > 2:
                    a = r.choice(sorted(alive))
                    alive.discard(a)
                    for b in adj.pop(a):
                        del adj[b][a]
                    return ('delete_atom', a)
            elif k == 'add_bond':
                free = sorted((a, b) for a in alive for b in alive if a < b and b not in adj[a])
                if free:
                    a, b = r.choice(free)
                    o = r.choice((1, 1, 1, 2, 3))
                    adj[a][b] = adj[b][a] = o
                    return ('add_bond', a, b, o) if r.random() < .5 else ('add_bond', b, a, o)
            else:
                i = len(numbers)
                num = r.choice((max(numbers) + 1, max(numbers) + r.randrange(2, 3000), min(set(range(1, max(numbers) + 2)) - set(numbers))))
                numbers.append(num)
                alive.add(i)
                adj[i] = {}
                att = None
                if r.random() < .8:
                    a = r.choice(sorted(alive - {i}))
                    o = r.choice((1, 1, 1, 2))
                    adj[a][i] = adj[i][a] = o
                    att = (a, o)
                return ('add_atom', r.choice(EDIT_ELEMENTS), r.choice((0, 0, 0, 1, -1)), r.random() < .1, num, att)
        raise RuntimeError('harness: no structural edit possible')

    def attribute():
        a = r.choice(sorted(alive))
        if r.random() < .7:
            return ('charge', a, r.choice((-1, 0, 1, 1, -1, 2, -2)))
        return ('radical', a, r.random() < .6)

    for _ in range(steps):
        x = r.random()
        if x < .5:
            script.append(structural())
        elif x < .65:
            script.append(('txn', [attribute() for _ in range(r.choice((1, 1, 2)))]))
        elif x < .8:
            script.append(('txn', [structural() for _ in range(r.choice((1, 2, 3)))]))
        else:
            order = ['a'] * r.choice((1, 2)) + ['s'] * r.choice((1, 2))
            r.shuffle(order)     # ops are generated in their final order: the bookkeeping above stays valid
            script.append(('txn', [attribute() if x == 'a' else structural() for x in order]))
    return script, numbers


def _apply(m, op, num, nb_before):
    """apply one op through the public API; returns the set of atoms whose *bonds* the op changed (ends of added / deleted bonds,
    neighbours of a deleted atom, a new atom), decided from the op and the bonds before it"""
    from chython.periodictable import Element
    k = op[0]
    if k == 'delete_bond':   # op[3] = order of the bond by the script's own bookkeeping; an "any" bond (8) is not a bond of the valence model
        m.delete_bond(num[op[1]], num[op[2]])
        return set() if op[3] == 8 else {num[op[1]], num[op[2]]}
    if k == 'delete_atom':
        touched = set(nb_before(num[op[1]]))
        m.delete_atom(num[op[1]])
        return touched
    if k == 'add_bond':
        m.add_bond(num[op[1]], num[op[2]], op[3])
        return {num[op[1]], num[op[2]]}
    if k == 'add_atom':
        _, sym, ch, rad, number, att = op
        m.add_atom(Element.from_symbol(sym)(charge=ch, is_radical=rad), number)
        if att is not None:
            m.add_bond(num[att[0]], number, att[1])
            return {number, num[att[0]]}
        return {number}
    raise RuntimeError(f'harness: unknown op {op}')


def op_text(op):
    if op[0] == 'txn':
        return 'with[' + ' '.join(op_text(o) for o in op[1]) + ']'
    return op[0] + '(' + ','.join(str(x) for x in op[1:]) + ')'


def run_script(rec, script, numbers, tag0, key0):
    """returns (violations [(key, what, native)], steps done, stats)"""
    from bounded import d04_gen as G
    m = G.build(rec)
    num = dict(enumerate(numbers))
    out = []
    stats = Counter()
    done = 0

    def nb_before(n):
        return [k for k, b in m._bonds[n].items() if b.order != 8]

    for si, op in enumerate(script):
        tag = f'{tag0} after step {si + 1} of [{" ".join(op_text(o) for o in script[:si + 1])}]'
        attr_atoms, touched = set(), set()
        cls = op[0]
        try:
            if op[0] == 'txn':
                kinds = {'attr' if o[0] in ('charge', 'radical') else 'struct' for o in op[1]}
                cls = 'txn-' + '+'.join(sorted(kinds))
                with m:
                    for o in op[1]:
                        if o[0] == 'charge':
                            m.atom(num[o[1]]).charge = o[2]
                            attr_atoms.add(num[o[1]])
                        elif o[0] == 'radical':
                            m.atom(num[o[1]]).is_radical = o[2]
                            attr_atoms.add(num[o[1]])
                        else:
                            touched |= _apply(m, o, num, nb_before)
            else:
                touched = _apply(m, op, num, nb_before)
        except RuntimeError:
            raise
        except Exception as e:   # an exception of an edit is not C04's claim (C13): counted, script abandoned
            stats[f'edit_exception:{type(e).__name__}'] += 1
            break
        done += 1
        stats[cls] += 1
        # the input class of the recorded family: a transaction that changes charge / radical of an atom whose bonds no edit of the same
        # transaction touches, together with at least one structural edit (predicate on the script only)
        stale_class = {n for n in attr_atoms if n not in touched and n in m._atoms} if cls == 'txn-attr+struct' else set()
        rest = [n for n in m._atoms if n not in stale_class]
        from oracles import o04_valence as O
        lib_none_stale = [n for n in stale_class if m._atoms[n].implicit_hydrogens is None]
        b, _ = check_atoms(m, tag, h3=(), atoms=rest, none_other=lib_none_stale)
        out += [(f'{key0}:{op_text(op)}#{si + 1}:{c}', what, nat) for c, what, nat in b]
        for n in sorted(stale_class):
            a = m._atoms[n]
            exp = O.expected(a.atomic_symbol, a.charge, a.is_radical, [x for x in atom_env(m, n) if x[0] != 8])
            if a.implicit_hydrogens != exp:
                out.append(('edit:transaction changing charge/radical of an atom plus a structural edit elsewhere:H1-untouched-atom',
                            f'{tag}: atom {n} {a.atomic_symbol}{a.charge:+d}{"*" if a.is_radical else ""} [{envtext(atom_env(m, n))}] has '
                            f'implicit_hydrogens={a.implicit_hydrogens}, the element tables give {exp} (its charge / radical flag was changed inside the '
                            f'transaction, its bonds were not)', {'atom': n, 'library': a.implicit_hydrogens, 'reference': exp}))
                stats['stale_class_fired'] += 1
            else:
                stats['stale_class_ok'] += 1
            # judge every step on its own: the atoms of this input class are recalculated by the harness before the next step, otherwise one
            # stale count would be re-reported (under input-specific keys) by every later step that does not touch the atom
            m.calc_implicit(n)
        if stale_class:
            m.flush_cache()
        tb, _ = check_totals(m, tag)
        out += [(f'{key0}:{op_text(op)}#{si + 1}:{c}', what, nat) for c, what, nat in tb]
    return out, done, stats


def check_edit(rec, seed_tag, steps):
    from bounded import d04_gen as G, domains
    desc = G.describe(rec)
    r = domains.rnd(f'c04edit:{seed_tag}:{desc}')
    script, numbers = make_script(rec, r, steps)
    wit = {'kind': 'edit', 'record': rec, 'script': script, 'numbers': numbers}
    v, done, stats = run_script(rec, script, numbers, f'edited {desc} numbers {rec["numbers"]}', f'edit:{desc}')
    return [(k, what, wit, nat) for k, what, nat in v], done, stats


def w_gen(chunk):
    _setup()
    from bounded import d04_gen as G
    n = 0
    keys, samples, viol = [], [], []
    stats = Counter()
    for rec, steps in chunk:
        v, ok, m = check_gen(rec)
        n += 1
        stats['molecules'] += 1
        stats['with_valence_error'] += bool(m.check_valence())
        stats['totals'] += ok
        stats['public_build'] += rec['public']
        keys.append(G.describe(rec))
        if not samples and ok:
            samples.append({'generated': G.describe(rec), 'numbers': rec['numbers'], 'brutto': m.brutto})
        if steps:
            ve, done, st = check_edit(rec, 'gen', steps)
            v += ve
            n += done
            for k, x in st.items():
                stats[k] += x
        if v and len(viol) < MAXV:
            viol.extend(v[:MAXV - len(viol)])
    return n, keys, samples, viol, dict(stats)


def w_corpus_edit(chunk):
    """Kekule forms of corpus molecules rebuilt from a record (seeded numbering / insertion order, half of them through the public
    incremental API): same counts as the parsed molecule; then an edit script"""
    _setup()
    from chython import smiles
    from bounded import d04_gen as G, domains
    n = 0
    keys, samples, viol = [], [], []
    stats = Counter()
    for s, steps in chunk:
        m = smiles(s)
        m.kekule()
        r = domains.rnd('c04corpusrec:' + s)
        rec = G.record_of(m, r)
        b = G.build(rec)
        v = []
        for (n0, a), num in zip(m._atoms.items(), rec['numbers']):
            if b._atoms[num].implicit_hydrogens != a.implicit_hydrogens:
                v.append((f'rebuild:{s}:H1-rebuilt', f'{s}: atom {n0} has {a.implicit_hydrogens} hydrogens after parsing + kekule(), the same atom of the '
                          f'molecule rebuilt with numbers {rec["numbers"]} (public={rec["public"]}) has {b._atoms[num].implicit_hydrogens}',
                          {'kind': 'rebuild', 'smiles': s, 'record': rec}, {'atom': n0}))
                break
        n += 1
        keys.append(s)
        ve, done, st = check_edit(rec, 'corpus', steps)
        for x in ve:
            x[2]['smiles'] = s
        v += ve
        n += done
        for k, x in st.items():
            stats[k] += x
        if v and len(viol) < MAXV:
            viol.extend(v[:MAXV - len(viol)])
    return n, keys, samples, viol, dict(stats)


# ---- reader: stated hydrogen counts, reader options, molfile property lines -------------------------------------------------------------
SMILES_OPTIONS = ({}, {'ignore_carbon_radicals': True}, {'keep_implicit': True}, {'ignore': False}, {'remap': True},
                  {'ignore_aromatic_radicals': False})
UNBRACKETED = ('B', 'C', 'N', 'O', 'P', 'S', 'F', 'Cl', 'Br', 'I')
_BONDCHAR = {1: '-', 2: '=', 3: '#'}


def star_smiles(sym, ch, rad, envt, h, position):
    """centre written as a bracket atom with stated hydrogen count h (None: unbracketed, only neutral non-radical organic-subset atoms);
    position: index of the centre among the written atoms (0 = first; k > 0: the k-th neighbour is written first as a prefix)"""
    if h is None:
        c = sym
    else:
        c = f'[{sym}{"H" + (str(h) if h != 1 else "") if h else ""}{("+" * ch if ch > 0 else "-" * -ch)}]'
    nb = [(_BONDCHAR[o], '[H]' if e == 'H' else e) for o, e in envt]
    pre = ''
    if position and nb:
        b, e = nb.pop(0)
        pre = e + b
    text = pre + c + ''.join(f'({b}{e})' for b, e in nb)
    ci = 1 if pre else 0
    if rad:
        text += f' |^1:{ci}|'
    return text, ci


def check_reader_smiles(sym, ch, rad, envt, h, opt, position):
    from chython import smiles
    from oracles import o04_valence as O
    text, ci = star_smiles(sym, ch, rad, envt, h, position)
    kw = SMILES_OPTIONS[opt]
    tag = f'smiles({text!r}{"".join(f", {k}={v}" for k, v in kw.items())})'
    wit = {'kind': 'reader-smiles', 'element': sym, 'charge': ch, 'radical': rad, 'bonds': [list(x) for x in envt], 'h': h, 'option': opt,
           'position': position}
    try:
        m = smiles(text, **kw)
    except ValueError as e:
        if kw.get('ignore') is False:
            return [], 'rejected'     # ignore=False documents "do not skip checks": refusing a mismatching count is allowed
        return [(f'reader:{text}:{opt}:R-exception', f'{tag}: {type(e).__name__}: {e}', wit, repr(e))], 'exception'
    bad = []
    centre = list(m._atoms)[ci]
    a = m._atoms[centre]
    if a.atomic_symbol != sym or a.charge != ch or len(m._bonds[centre]) != len(envt):
        raise RuntimeError(f'harness: {tag} centre not where expected')
    none_ref = []
    for n, at in m._atoms.items():
        cand = O.candidates(at.atomic_symbol, at.charge, at.is_radical, atom_env(m, n))
        stated = n == centre and h is not None
        if not cand:
            none_ref.append(n)
        got = at.implicit_hydrogens
        if stated and kw.get('keep_implicit'):
            if got != h:
                bad.append(('R-keep_implicit', f'{tag}: keep_implicit=True but atom {n} has {got} hydrogens, written {h}', {'library': got}))
            if got is None or got not in cand:
                none_ref = [x for x in none_ref if x != n]   # a kept count need not be a valence state: out of H2's domain
                if got is None:
                    none_ref.append(n)
            continue
        if stated:
            ok = (got is None and not cand) or (got is not None and got in cand)
            # the written count selects the valence state whenever it is one of the candidates of the written charge / radical state
            c0 = O.candidates(sym, ch, rad, atom_env(m, n))
            if ok and h in c0 and (got != h or at.is_radical != rad):
                bad.append(('R-stated-count', f'{tag}: the written count {h} is a valence state of the written atom (candidates {c0}) but the atom has '
                            f'{got} hydrogens, radical={at.is_radical}', {'atom': n, 'library': got, 'candidates': c0}))
        else:
            ok = got == (cand[0] if cand else None)
        if not ok:
            bad.append(('R-count', f'{tag}: atom {n} {at.atomic_symbol}{at.charge:+d}{"*" if at.is_radical else ""} [{envtext(atom_env(m, n))}] has '
                        f'implicit_hydrogens={got}; candidates of this state by the element tables {cand}'
                        f'{f" (written count {h})" if stated else ""}', {'atom': n, 'library': got, 'candidates': cand}))
    cv = sorted(m.check_valence())
    if cv != sorted(none_ref):
        bad.append(('R-check_valence', f'{tag}: check_valence() = {cv}, atoms without a valence state by the element tables = {sorted(none_ref)}',
                    {'library': cv, 'reference': sorted(none_ref)}))
    if not (kw.get('keep_implicit') and h is not None):
        tb, _ = check_totals(m, tag)
        bad += tb
    return [(f'reader:{text}:{opt}:{c}', what, wit, native) for c, what, native in bad], a.implicit_hydrogens


_CHARGE_FIELD = {0: 0, 3: 1, 2: 2, 1: 3, -1: 5, -2: 6, -3: 7}
MOL_ISOTOPES = {'C': 13, 'N': 15, 'O': 18, 'H': 2, 'S': 34, 'Cl': 37, 'Br': 81, 'B': 10}


def star_molfile(sym, ch, rad, envt, variant):
    """V2000 text; variant bit 0: charge in the atom block field (else M  CHG), bit 1: centre is the last atom, bit 2: isotope on the centre"""
    k = len(envt)
    last = bool(variant & 2)
    atoms = [(e, 0) for _, e in envt]
    ci = k if last else 0
    atoms.insert(ci, (sym, ch))
    field = bool(variant & 1) and ch in _CHARGE_FIELD
    lines = ['star', '  c04', '', f'{k + 1:3d}{k:3d}  0  0  0  0  0  0  0  0999 V2000']
    for i, (e, c) in enumerate(atoms):
        lines.append(f'{float(i):10.4f}{0.:10.4f}{0.:10.4f} {e:<3s} 0{_CHARGE_FIELD[c] if field and i == ci else 0:3d}  0  0  0  0  0  0  0  0  0  0')
    for i, (o, _) in enumerate(envt):
        j = i + 1 if last else i + 2
        lines.append(f'{ci + 1:3d}{j:3d}{o:3d}  0  0  0  0')
    if ch and not field:
        lines.append(f'M  CHG  1{ci + 1:4d}{ch:4d}')
    if rad:
        lines.append(f'M  RAD  1{ci + 1:4d}   2')
    iso = MOL_ISOTOPES.get(sym) if variant & 4 else None
    if iso:
        lines.append(f'M  ISO  1{ci + 1:4d}{iso:4d}')
    lines.append('M  END')
    return '\n'.join(lines) + '\n', ci, iso


def check_reader_mol(sym, ch, rad, envt, variant):
    from chython import mdl_mol
    text, ci, iso = star_molfile(sym, ch, rad, envt, variant)
    kw = {'remap': True} if variant & 8 else {}
    tag = f'mdl_mol(star {statekey(sym, ch, rad, envt)} variant {variant})'
    wit = {'kind': 'reader-mol', 'element': sym, 'charge': ch, 'radical': rad, 'bonds': [list(x) for x in envt], 'variant': variant}
    m = mdl_mol(text, **kw)
    centre = list(m._atoms)[ci]
    a = m._atoms[centre]
    if (a.atomic_symbol, a.charge, a.is_radical, a.isotope) != (sym, ch, rad, iso) or atom_env(m, centre) != tuple(sorted(tuple(x) for x in envt)):
        return [(f'readermol:{statekey(sym, ch, rad, envt)}:{variant}:R-mol-state', f'{tag}: the centre was read as {a.atomic_symbol} charge {a.charge} '
                 f'radical {a.is_radical} isotope {a.isotope} [{envtext(atom_env(m, centre))}]', wit, None)], None
    bad, _ = check_atoms(m, tag, h3=(centre,))
    tb, _ = check_totals(m, tag)
    bad += tb
    return [(f'readermol:{statekey(sym, ch, rad, envt)}:{variant}:{c}', what, wit, native) for c, what, native in bad], a.implicit_hydrogens


def w_reader(item):
    _setup()
    sym, charges, neigh, sizes, part, parts = item
    n = 0
    keys, samples, viol = [], [], []
    stats = Counter()
    for i, envt in enumerate(_multisets(neigh, sizes)):
        if i % parts != part:
            continue
        for ch in charges:
            for rad in (False, True):
                hs = [0, 1, 2, 3, 4]
                if not ch and not rad and sym in UNBRACKETED:
                    hs.append(None)
                for h in hs:
                    opt = (i + ch + (h or 0) + 3 * rad) % len(SMILES_OPTIONS)
                    v, res = check_reader_smiles(sym, ch, rad, envt, h, opt, (i + (h or 0)) % 2)
                    n += 1
                    stats[f'smiles_option_{opt}'] += 1
                    if res == 'rejected':
                        stats['smiles_rejected_ignore_False'] += 1
                    elif res is not None and res != 'exception':
                        keys.append(f'smi:{statekey(sym, ch, rad, envt)}:{h}:{opt}')
                    if v and len(viol) < MAXV:
                        viol.extend(v[:MAXV - len(viol)])
                if abs(ch) <= 3:
                    variant = (i + ch + 5 * rad) % 16
                    v, res = check_reader_mol(sym, ch, rad, envt, variant)
                    n += 1
                    stats['molfiles'] += 1
                    if res is not None:
                        keys.append(f'mol:{statekey(sym, ch, rad, envt)}:{variant}')
                    if v and len(viol) < MAXV:
                        viol.extend(v[:MAXV - len(viol)])
    return n, keys, samples, viol, dict(stats)


# ---- special: boundary inputs of the derived totals -----------------------------------------------------------------------------------
SPECIAL_SMILES = (
    '[13CH4]', '[2H]O[2H]', '[3H][3H]', '[H+]', '[H-]', '[H]', '[H][H]', '[2H+]', '[18OH2]', '[37Cl-].[Na+]', '[81Br]C', '[125I]I', '[15NH4+].[35Cl-]',
    'C.[CH3]', 'CC.[O][O]', 'C.C.[OH-]', '[Na+].[Na+].[O-]S(=O)(=O)[O-]', 'CCO.[CH2]C', 'O.O.O.[Fe+3].[Cl-].[Cl-].[Cl-]', 'N#N.[C-]#[O+]',
    'C[N+](C)(C)C.[I-]', '[O-][N+](=O)C([N+]([O-])=O)[N+]([O-])=O', '[CH2+]C[CH2-]', '[14CH3][14CH3]', 'F[B-](F)(F)F.[K+]', '[He]', '[U+4]',
    'ClC(Cl)(Cl)Cl', 'O=C=O', 'S=C=S', '[SiH4]', '[PH4+]', '[BH4-]', '[SeH2]', 'C[Se]C', 'O=[As](O)(O)O', 'C#C', '[C-]#[C-]', '[O-][O-]', '[NH2-]',
)


def check_special(s):
    """totals (T) + table re-derivation on hand-written boundary molecules and on their explicit-hydrogen forms"""
    from chython import smiles
    wit = {'kind': 'special', 'smiles': s}
    bad = []
    if s == '':
        from chython.containers import MoleculeContainer
        m = MoleculeContainer()
        tag = 'empty MoleculeContainer()'
        try:
            f = float(m)
        except Exception as e:
            f = None
            bad.append(('T-mass', f'{tag}: float(mol) raises {type(e).__name__}: {e}; the sum over no atoms is 0.0', repr(e)))
        if f is not None and (not isinstance(f, float) or f != 0.):
            bad.append(('T-mass', f'{tag}: float(mol) = {f!r}, the sum over no atoms is 0.0', f))
        if int(m) != 0 or m.is_radical is not False or {k: v for k, v in m.brutto.items() if v} or m.check_valence() != []:
            bad.append(('T-empty', f'{tag}: int {int(m)}, is_radical {m.is_radical}, brutto {m.brutto}, check_valence {m.check_valence()}', None))
        return [(f'special:empty-molecule:{c}', what, wit, nat) for c, what, nat in bad], True
    m = smiles(s)
    tag = s
    b, _ = check_atoms(m, tag)
    bad += b
    tb, ok = check_totals(m, tag)
    bad += tb
    if ok:
        before = ({k: v for k, v in m.brutto.items() if v}, int(m), m.is_radical, float(m))
        e = m.copy()
        e.explicify_hydrogens()
        e.flush_cache()
        tb, _ = check_totals(e, tag + ' after explicify_hydrogens()')
        bad += [('X-' + c, what, nat) for c, what, nat in tb]
        after = ({k: v for k, v in e.brutto.items() if v}, int(e), e.is_radical, float(e))
        if before[:3] != after[:3] or abs(before[3] - after[3]) > 1e-6:
            bad.append(('X-explicit-form-totals', f'{tag}: totals {before} before, {after} after explicify_hydrogens()', {'before': before, 'after': after}))
        if any(a.implicit_hydrogens for _, a in e.atoms()):
            bad.append(('X-explicit-form-implicit', f'{tag}: atoms keep implicit hydrogens after explicify_hydrogens()', None))
    return [(f'special:{s}:{c}', what, wit, nat) for c, what, nat in bad], ok


def w_special(chunk):
    _setup()
    n = 0
    keys, samples, viol = [], [], []
    stats = Counter()
    for s in chunk:
        v, ok = check_special(s)
        n += 1
        if ok:
            keys.append('special:' + s)
        viol.extend(v)
    return n, keys, samples, viol, dict(stats)


def w_corpus_explicit(chunk):
    """corpus molecules (Kekule form): explicify_hydrogens() keeps formula, charge, radical flag and mass; no implicit hydrogen remains"""
    _setup()
    from chython import smiles
    n = 0
    keys, samples, viol = [], [], []
    for s in chunk:
        m = smiles(s)
        m.kekule()
        if m.check_valence():
            continue
        before = ({k: v for k, v in m.brutto.items() if v}, int(m), m.is_radical, float(m))
        try:
            m.explicify_hydrogens()
        except KeyError:
            continue    # recorded C13/C14 family (stale not_special_connectivity); not C04's claim
        m.flush_cache()
        tb, _ = check_totals(m, s + ' after explicify_hydrogens()')
        after = ({k: v for k, v in m.brutto.items() if v}, int(m), m.is_radical, float(m))
        if before[:3] != after[:3] or abs(before[3] - after[3]) > 1e-6:
            tb.append(('explicit-form-totals', f'{s}: totals {before} before, {after} after explicify_hydrogens()', {'before': before, 'after': after}))
        n += 1
        keys.append('explicit:' + s)
        for c, what, nat in tb[:MAXV]:
            viol.append((f'explicit:{s}:X-{c}', what, {'kind': 'explicit', 'smiles': s}, nat))
    return n, keys, samples, viol, {}


# ---- entry points ------------------------------------------------------------------------------------------------------------------
def bounded(run):
    from oracles import o04_valence as O
    from bounded import domains
    thorough = run.tier == 'thorough'
    stats = Counter()
    vcount = Counter()

    def collect(results, label):
        for n, keys, samples, viol, st in results:
            run.case(n)
            for k in keys:
                run.case(0, key=(label, k))
            for s in samples:
                run.case(0, sample=s)
            for k, v in st.items():
                stats[f'{label}.{k}'] += v
            for key, what, wit, native in viol:
                contract = key.rsplit(':', 1)[1]
                vcount[contract] += 1
                if vcount[contract] <= 8:   # keep the report readable: at most 8 replay files per contract
                    run.violation(key, what, witness=wit, native=native)

    # 1. the exhaustive grid of the property
    parts = 32
    items = [(sym, CHARGES, O.NEIGHBOURS, (0, 1, 2, 3, 4), ORDERS, p, parts, '') for sym in O.ORGANIC for p in range(parts)]
    collect(pmap(w_grid, items), 'grid')
    nm = sum(1 for _ in _multisets(O.NEIGHBOURS, (0, 1, 2, 3, 4)))
    run.bound(f'grid (exhaustive, seed independent): {len(O.ORGANIC)} elements {O.ORGANIC} x charge -2..+2 x radical flag x all {nm} multisets of '
              f'<= 4 bonds of orders 1-3 to {O.NEIGHBOURS} = {len(O.ORGANIC) * 10 * nm} real molecules; every atom of each molecule is checked')
    # 2. rows with five and six neighbours (SF6, PF6-, IF5 ...): single/double bonds to F, O, C
    items = [(sym, CHARGES, ('F', 'O', 'C'), (5, 6), (1, 2), 0, 1, '') for sym in O.ORGANIC]
    collect(pmap(w_grid, items), 'grid56')
    run.bound('grid56 (exhaustive): same states x all 714 multisets of 5-6 bonds of orders 1-2 to (F, O, C)')
    # 3. aromatic-carbon special cases on real rings
    items = []
    for kind, sizes in (('a2', (0, 1, 2)), ('a3', (0, 1)), ('a1', (0, 1)), ('a4', (0,)), ('x8', (0, 1, 2))):
        for sym in O.ORGANIC:
            items.append((sym, CHARGES if sym == 'C' else (-1, 0, 1), O.NEIGHBOURS, sizes, ORDERS, 0, 1, kind))
    collect(pmap(w_grid, items), 'arom')
    run.bound('arom (exhaustive): ring position with 2 / 3 / 1 / 4 aromatic (order 4) bonds in benzene / naphthalene-fusion / dangling / spiro '
              'carbocycles x 13 elements x charges x radical flag x all multisets of <= 2 / 1 / 1 / 0 further bonds; plus (x8) the plain star with one '
              'additional "any" bond (order 8) to Fe x all multisets of <= 2 bonds: the count must ignore it')
    if thorough:
        ext = ('Br', 'I', 'P', 'B', 'Se', 'Si', 'C', 'O')
        items = [(sym, CHARGES, ext, (1, 2, 3), ORDERS, p, 8, '') for sym in O.ORGANIC for p in range(8)]
        collect(pmap(w_grid, items), 'gridx')
        run.bound(f'gridx (thorough, exhaustive): same states x all multisets of 1-3 bonds of orders 1-3 to the extended neighbour set {ext}')
    # 3b. audit extension: boundary charges and hydrogen as the central atom
    qs = (0, 1, 2, 3) if thorough else (0, 1, 2)
    items = [(sym, (-4, -3, 3, 4), O.NEIGHBOURS, qs, ORDERS, 0, 1, '') for sym in O.ORGANIC]
    items += [('H', CHARGES, O.NEIGHBOURS, qs, ORDERS, 0, 1, '')]
    collect(pmap(w_grid, items), 'gridq')
    run.bound(f'gridq (exhaustive): the 13 elements x charges -4,-3,+3,+4 (documented range of Element.charge is [-4, 4]) and central hydrogen x charge '
              f'-2..+2, x radical flag x all multisets of <= {qs[-1]} bonds of orders 1-3 to {O.NEIGHBOURS}')
    # 3c. public incremental construction under non-trivial numbering
    parts = 8 if thorough else 2
    items = [(sym, CHARGES, O.NEIGHBOURS, qs, p, parts) for sym in O.ORGANIC for p in range(parts)]
    collect(pmap(w_numb, items), 'numb')
    run.bound(f'numb (states exhaustive, numbering / insertion order seeded): 13 elements x charge -2..+2 x radical flag x all multisets of <= {qs[-1]} '
              f'bonds, each built once through add_atom / add_bond with the library\'s own incremental recalculation, atom numbers by scheme '
              f'{NUMBERINGS} (descending, gaps, 998.., 65530..), centre inserted at a seeded position')
    # 3d. generated whole molecules without validity filter + edit scripts
    from bounded import d04_gen as G
    recs = G.records(7 if thorough else 6, 8 if thorough else 5, tag='c04gen')
    steps = 10 if thorough else 6
    work = [(rec, steps) for rec in recs]
    chunks = [work[i::64] for i in range(64) if work[i::64]]
    collect(pmap(w_gen, chunks), 'gen')
    run.bound(f'gen (seeded): {len(recs)} unconstrained decorations of the connected atlas graphs with <= {7 if thorough else 6} nodes (elements incl. H '
              f'leaves, orders 1-3, charges up to +-4, radicals, isotopes, second components, "any" bond to a metal; atom numbers seq / descending / '
              f'gaps / >= 999 / shuffled; half built through the public incremental API): every atom H1-H3, totals with isotope masses, '
              f'copy / substructure (one seeded atom subset) / split / union of the parts; then one seeded script of {steps} public edits each '
              f'(add_atom, add_bond, delete_bond, delete_atom, transactions with charge / radical changes, mixed transactions), H1 H2 T after every step')
    ks = 1200 if thorough else 160
    sm = domains.corpus_sample(ks, 'c04edit')
    work = [(x, steps) for x in sm]
    chunks = [work[i::64] for i in range(64) if work[i::64]]
    collect(pmap(w_corpus_edit, chunks), 'corpusedit')
    run.bound(f'corpusedit (seeded): Kekule forms of {len(sm)} corpus molecules rebuilt atom by atom under a seeded numbering / insertion order '
              f'(same counts as the parsed molecule), then one script of {steps} public edits each')
    # 3e. readers
    parts = 8 if thorough else 2
    items = [(sym, CHARGES, O.NEIGHBOURS, qs, p, parts) for sym in O.ORGANIC + ('H',) for p in range(parts)]
    collect(pmap(w_reader, items), 'reader')
    run.bound(f'reader (exhaustive states, options / variants round-robin): 14 central elements (13 + H) x charge -2..+2 x radical flag x all multisets '
              f'of <= {qs[-1]} bonds written as SMILES with the stated hydrogen count 0..4 (and unbracketed where the subset allows) under the reader '
              f'options {SMILES_OPTIONS}, centre first or second, radicals through CXSMILES; and as V2000 molfiles (16 variants: charge field / M  CHG, '
              f'centre first / last, M  ISO, remap)')
    # 3f. boundary inputs of the totals
    collect(pmap(w_special, [[x] for x in ('',) + SPECIAL_SMILES]), 'special')
    run.bound(f'special: the empty molecule and {len(SPECIAL_SMILES)} hand-written isotopic / ionic / radical / multi-component molecules, implicit and '
              f'explicit-hydrogen form')
    # 4. corpus
    k = None if thorough else 300
    sm = domains.corpus_sample(k, 'c04')
    chunks = [sm[i::64] for i in range(64) if sm[i::64]]
    collect(pmap(w_corpus, chunks), 'corpus')
    run.bound(f'corpus: {len(sm)} of the 4200 SMILES of pach/lipophilicity.csv (seeded sample in the quick tier), after kekule() + thiele()')
    chunks = [sm[i::32] for i in range(32) if sm[i::32]]
    collect(pmap(w_corpus_explicit, chunks), 'explicit')
    run.bound('explicit: the same corpus molecules (Kekule form): totals before == totals after explicify_hydrogens(), T on the explicit form')

    run.assume('reference model oracles/o04_valence.py: hydrogen count re-derived from the raw _common_valences/_valences_exceptions tables of the '
               'tree under verification following the docstring of Element._valences_exceptions (first candidate wins); a change of a table row '
               'changes the reference too - table content is checked only by the lower-bound model and RDKit',
               'lower-bound model: octet valences of B C N O F with |charge| <= 1, their neutral radicals, normal valences of Si P S Cl Br I Se and '
               'simple anions must have a hydrogen count (TEXTBOOK table in oracles/o04_valence.py)',
               'RDKit 2026.03 valence model is trusted where it accepts an atom (Atom.UpdatePropertyCache(strict=True), GetTotalNumHs); the comparison is '
               'one-directional (library assigns a count => RDKit accepts and agrees); RDKit rejections of hypervalent Cl/Br/I states (sum of bond '
               'orders > 1: RDKit valence lists are Cl [1], Br [1], I [1,3,5]; ClF3, BrF3, HXOn, IO3F, polyhalide anions) are outside the oracle and '
               'only counted (rdkit_out_of_domain)',
               'the RDKit comparison (H5) is made only for central atoms of the organic subset B C N O F Si P S Cl Br I; As and Se are in the grid for the '
               'table re-derivation, check_valence, check_implicit and totals contracts only (RDKit\'s valence model against the library tables for '
               'elements outside the organic subset is outside the property: e.g. bare As is As(0) by the tables, AsH3 for RDKit)',
               'corpus molecules are valence-valid drug-like structures: RDKit (full sanitization) and the library must agree on every atom in both directions',
               'standard atomic weights of RDKit\'s periodic table; masses compared within 0.05',
               'isotope masses of RDKit\'s periodic table (oracles/o04_masses.py) for the 22 isotopes used in the gen / reader / special domains',
               'reader domain: a hydrogen count written in a SMILES bracket atom may select any candidate of the final charge / radical state '
               '(docstring of Element._valences_exceptions, files/_convert.py); with keep_implicit=True the written atom is outside the contracts; '
               'with ignore=False a ValueError is an accepted answer',
               'edit scripts: an exception raised by an edit is not judged here (C13); the script is abandoned and counted')
    run.notes['c04_bounded_stats'] = dict(stats)
    run.notes['c04_violations_per_contract'] = dict(vcount)


def _rec(d):
    """record back from its JSON form"""
    d = dict(d)
    d['atoms'] = [tuple(a) for a in d['atoms']]
    d['bonds'] = [tuple(b) for b in d['bonds']]
    return d


def _script(ops):
    out = []
    for op in ops:
        if op[0] == 'txn':
            out.append(('txn', _script(op[1])))
        elif op[0] == 'add_atom':
            out.append(tuple(op[:5]) + (None if op[5] is None else tuple(op[5]),))
        else:
            out.append(tuple(op))
    return out


def replay(rec):
    _setup()
    w = rec.get('witness') or {}
    if w.get('kind') == 'grid':
        v, _, _ = check_state(w['element'], w['charge'], w['radical'], [tuple(x) for x in w['bonds']], w.get('ring') or '')
    elif w.get('kind') == 'numb':
        v, _ = check_numb(w['element'], w['charge'], w['radical'], [tuple(x) for x in w['bonds']], w['scheme'], w['centre'], w['numbers'], w['centre_pos'])
    elif w.get('kind') == 'gen':
        v, _, _ = check_gen(_rec(w['record']))
    elif w.get('kind') == 'edit':
        from bounded import d04_gen as G
        rc = _rec(w['record'])
        desc = G.describe(rc)
        vv, _, _ = run_script(rc, _script(w['script']), w['numbers'], f'edited {desc}', f'edit:{desc}')
        v = [(k, what, w, nat) for k, what, nat in vv]
    elif w.get('kind') == 'rebuild':
        from bounded import d04_gen as G
        from chython import smiles
        m = smiles(w['smiles'])
        m.kekule()
        rc = _rec(w['record'])
        b = G.build(rc)
        v = [('rebuild:x:H1-rebuilt', f'atom {n0}: {a.implicit_hydrogens} vs {b._atoms[num].implicit_hydrogens}', w, None)
             for (n0, a), num in zip(m._atoms.items(), rc['numbers']) if b._atoms[num].implicit_hydrogens != a.implicit_hydrogens]
    elif w.get('kind') == 'reader-smiles':
        v, _ = check_reader_smiles(w['element'], w['charge'], w['radical'], [tuple(x) for x in w['bonds']], w['h'], w['option'], w['position'])
    elif w.get('kind') == 'reader-mol':
        v, _ = check_reader_mol(w['element'], w['charge'], w['radical'], [tuple(x) for x in w['bonds']], w['variant'])
    elif w.get('kind') == 'special':
        v, _ = check_special(w['smiles'])
    elif w.get('kind') == 'explicit':
        _, _, _, v, _ = w_corpus_explicit([w['smiles']])
    elif w.get('kind') == 'corpus':
        try:
            v, _ = check_corpus_smiles(w['smiles'])
        except Exception as e:
            print('exception', repr(e))
            return False
    else:
        return False
    want = rec['key'].rsplit(':', 1)[1]
    hit = [x for x in v if x[0].rsplit(':', 1)[1] == want]
    for x in hit:
        print('  ', x[1])
    return not hit
