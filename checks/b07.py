"""C07 bounded stand-in (engine B): substructure search returns exactly the set of valid embeddings.

Contracts (DESIGN §2 C07), all evaluated on the REAL functions of the tree under verification:

 (1) search semantics, pattern p (molecule or query) against target molecule t, reference R = oracles.o07_ref.embeddings(p, t)
     (exhaustive backtracking, same semantics as the brute force oracles.iso.embeddings; the two are cross-checked on small pairs):
       all      multiset(p.get_mapping(t, automorphism_filter=False)) == R   (nothing missing, nothing extra, no duplicate)
       filter   p.get_mapping(t) yields members of R, pairwise different image sets, and every image set of R exactly once
       scope    p.get_mapping(t, searching_scope=S, automorphism_filter=False) == {e in R : image(e) subset of S}, S given as
                set or list; + filtered variant
       ops      p <= t, p.is_substructure(t), t >= p  <=>  R != {} ;  p < t, t > p  <=>  R != {} and len(p) < len(t) ;
                p.is_equal(t)  <=>  R != {} and len(p) == len(t)
       auto     multiset(m.get_automorphism_mapping()) == non-identity automorphisms of the graph whose atom labels are the
                library's own atom classes `m._chiral_morgan` (that is the key `_get_automorphism_mapping` receives) and whose
                bonds are compared by ==.  For stereo-free molecules additionally == automorphisms under the independent atom key
                (element, isotope, charge, radical, implicit H) of oracles.iso.
 (2) `_compile_query(atoms, bonds)`: every atom exactly once over all component orders; one order per connected component;
     first entry (start, None, atom, None); every later entry (front, back, atoms[front], bonds[back][front]) has `back` earlier
     in the same order; every bond is a tree edge or recorded exactly once as a closure (front -> earlier atom) with the right
     bond object - never both, never twice.
 (3) `lazy_product(*gens)`: multiset equal to itertools.product for <= 3 one-shot generators of <= 4 items (empty ones
     included, repeated values included), 4 generators of <= 3 items, and plain re-iterable arguments (lists / tuples / ranges);
     lazy: when the k-th tuple is produced no generator has been asked for more than k items.

Coverage audit extension (same contracts, wider domain; every addition has its own run.bound line):
  * targets whose atom numbers are NOT 1..N in insertion order (seeded sample of 1..2999: gaps, descending, > 999; atoms and bonds
    inserted in shuffled order); radicals, explicit hydrogens, deuterium, charged aromatic rings, stereo labels among the fixed targets;
  * patterns: 3- and 4-component patterns (more components than the target has included), queries built through the public
    QueryContainer.add_atom(Element) / add_bond(Bond) API on sparse shuffled numbers, SMARTS instances re-numbered with remap(),
    masked / mapped / radical / isotope / hydrogen SMARTS, in-place unions of queries; the EMPTY pattern and the EMPTY target;
  * options: the default `_cython` switch of QueryIsomorphism.get_mapping (import fallback), scopes given as tuple / frozenset / dict
    view and with numbers that are not atoms of the target, `match_stereo=True` of MoleculeIsomorphism.get_mapping, `is_automorphic`;
  * stereo filter of QueryIsomorphism.get_mapping (clause `stereo`): the returned mappings are members of the stereo-blind reference
    set without duplicates; a mapping never survives on a target AND on its mirror image (every atom / bond label inverted); for a
    query with ONE stereo mark the two result sets partition the reference embeddings whose image of the marked atom / bond carries a
    label; the filtered search keeps exactly one mapping per image set of the unfiltered result; scope and operators agree;
  * `match_stereo=True` (clause `ms`): every mapping is a reference embedding, filtered ones have pairwise different image sets,
    unfiltered ones are pairwise different; for label-free connected patterns cut WITH hydrogen recalculation from a label-free target
    the image sets (filtered) and the mapping set (unfiltered) equal the reference's; a fixed table of whole-molecule stereo pairs
    (enantiomers do not match, identical and meso forms do);
  * call sequences (clause `seq`): search - edit pattern or target through the public editing API - search again (cached linear
    order / connected components must follow the edit); two and three generators of one pattern consumed interleaved.
"""
import itertools
import json
from collections import Counter

from vlib import env
from vlib.report import pmap
from bounded import domains
from oracles import iso, o07_ref, o01_gaps, o01_families

RULE = ('bounded: library mapping multisets == exhaustive reference enumerator on enumerated (pattern, target) pairs; '
        '_compile_query structural contract on every graph of the atlas; lazy_product == itertools.product on all small shapes')

# one pattern per supported primitive (files/daylight/smarts.py docstring), plus combinations, rings and multi-component queries
SMARTS = ['[C;D2]', '[N,O]', '[A]', '[C;r5,r6]', 'C-,=C', 'C-;!@C', 'C-;@C', 'C=;!@[A]', '[C;z2]', '[C;z1;x1]', '[C;h1,h2]',
          '[C;h0]', '[C;a]', '[N;a]', 'C:C', 'C=,:C', '[O;D1]=C', '[C;!R]', '[A;D3]', '[N;+]', '[O;-]', '[C;x2]', '[C,N;D2;r6]',
          'C=[A]', '[C;z2]=[O,N]', 'C#N', '[C;r3]', '[C;r4]', '[C;z3]', '[C;z4]', 'C!-C', 'C!=C', '[C;D3]([A])([A])[A]',
          '[A]-[A]-[A]', '[A]=[A]-[A]', '[N,O;D1]-[C;D2,D3]', '[C;D2][C;D2][C;D2]', '[O,N;x0;z1]C', '[C;D1;h3]C',
          'C1CC1', 'C1CCC1', '[A]1-[A]-[A]-[A]-[A]1', 'C1=CC=CC=C1', 'C:1:C:C:C:C:C1', '[C,N]1[A][A]1', 'C1C[N,O]C1',
          '[M]', '[M]-C', '[13C]', '[13C]C',
          '[C;D2].[O;D1]', '[N,O].[N,O]', '[A].[A]', 'CC.CC', 'C=C.[N,O]', '[C;D1]-[C;D2].[C;D1]-[A;D3]', 'C1CC1.C',
          # audit extension: masked atoms (numbers > 10**9), mapped atoms (numbers given by the text), CXSMARTS radicals, hydrogen and
          # deuterium atoms, three and four components
          '[C;M]', '[C;M]-[O,N]', '[C:7]-[A:3]', '[C:12][C:5][A:9]', '[C;D1] |^1:0|', 'C-[C] |^1:1|', '[H]', '[H]C', '[2H]', '[2H]C',
          '[C;a]:[N;a;+]', '[N;a;h1]', '[A].[A].[A]', '[C;D1].[O,N].[C;D2]', 'CC.[O;D1].[N,O]', '[A].[A].[A].[A]']

# whole-graph automorphism contract on molecules with several components is evaluated on this fixed list (see bounded())
MULTI_AUTO = ['C.C', 'CC.CC', 'C1CC1.C1CC1', 'CO.CO', 'C.CC', 'CO.CC', 'CC.CCC', 'CN.CO', 'C=C.CC']

# fixed targets: charges, isotope, metal, a Kekule ring that is not aromatised, salts
FIXED = ['C[N+](C)(C)C', 'CC(=O)[O-]', '[O-][N+](=O)c1ccccc1', 'c1ccccc1C', 'C[13CH2]C', '[13CH3]C.C[13CH3]', 'C#N.CC#N', '[Na+].[Cl-]', 'C[Mg]Br',
         'C[N+](C)(C)C.CC(=O)[O-]', 'NC(=O)C1CC1', 'C[Li].C[Li]']
FIXED_RAW = ['C1=CC=CC=C1', 'C1=CC=CC=C1.C1=CC=CC=C1']  # parsed without thiele(): Kekule form kept
# audit extension: radicals, explicit hydrogens, deuterium, single atoms, charged / N-H aromatic rings, labelled stereo centres and double
# bonds, an allene, three and four components
FIXED2 = ['C[CH2]', 'C[CH]C', '[CH3].[CH3]', 'C[CH2].CC', '[H]C([H])([H])O', '[2H]C([2H])O', '[H][H]', '[H]O[H].O', 'O', '[NH4+]', '[H+].[OH-]',
          'c1cc[nH]c1', 'C[n+]1ccccc1', '[O-][n+]1ccccc1', 'c1ccncc1.c1cc[nH]c1', 'C[C@H](N)O', 'C[C@H](N)O.C[C@@H](N)O', 'C/C=C/C',
          'C/C=C\\C.C/C=C/C', 'CC=[C@]=CC', 'C[C@H](O)[C@@H](O)C', 'C.C.C', 'C.CC.C', 'CO.CN.CO', 'C.C.C.C', 'CC.O.N.CC', 'C[S+](C)[O-]',
          'C[Zn]C', '[Cu+2].[O-]C=O.[O-]C=O']

MAXV = 6  # violations reported per work item


# ---------------------------------------------------------------------------------------------------------------- helpers
def dump_mol(m):
    return {'kind': 'mol',
            'atoms': [[n, a.atomic_symbol, a.isotope, a.charge, a.is_radical, a.implicit_hydrogens, a.stereo] for n, a in m.atoms()],
            'bonds': [[n, k, b.order, b.stereo] for n, k, b in m.bonds()], 'smiles': str(m)}


def load_mol(d):
    from chython.containers import MoleculeContainer
    from chython.containers.bonds import Bond
    from chython.periodictable import Element
    m = MoleculeContainer()
    for n, sym, iso_, ch, rad, h, st in d['atoms']:
        m.add_atom(Element.from_symbol(sym)(iso_, charge=ch, is_radical=rad, implicit_hydrogens=h, stereo=st), n,
                   _skip_calculation=True)
    for n, k, o, st in d['bonds']:
        b = Bond(o)
        b._stereo = st
        m.add_bond(n, k, b, _skip_calculation=True)
    m.calc_labels()
    m._changed = None
    return m


_QDUMP = {}  # id(query built by this module) -> JSON-able recipe (the objects stay alive in the pattern lists)


def dump_pat(p):
    from chython.containers import QueryContainer
    if isinstance(p, QueryContainer):
        if id(p) in _QDUMP:
            return _QDUMP[id(p)]
        return {'kind': 'smarts', 'smarts': str(p)}
    return dump_mol(p)


def load_pat(d):
    if d['kind'] == 'smarts':
        from chython import smarts
        q = smarts(d['smarts'])
        if d.get('remap'):
            # masked atoms get a fresh number > 10**9 at every parse: address atoms by position
            nums = list(q)
            q = renumbered_query(q, {nums[i]: new for i, new in d['remap']}, d['smarts'])
        return q
    if d['kind'] == 'qmol':
        return as_query(d['atoms'], d['bonds'])
    if d['kind'] == 'qunion':
        return query_union([load_pat(x) for x in d['parts']], d['inplace'])
    return load_mol(d)


def scramble(m, r):
    """the same molecule with atom numbers that are NOT 1..N in insertion order: atoms and bonds inserted in shuffled order, numbers = seeded
    sample of 1..2999 (gaps, descending runs, > 999)"""
    c = domains.rebuild(m, r)
    nums = list(c)
    c.remap(dict(zip(nums, r.sample(range(1, 3000), len(nums)))))
    return c


def as_query(atoms, bonds):
    """QueryContainer built through the public API from plain records: add_atom(Element) (QueryElement.from_atom: element, isotope,
    charge, radical) and add_bond(Bond) (QueryBond.from_bond: order) in the given insertion order with the given numbers"""
    from chython.containers import QueryContainer
    from chython.containers.bonds import Bond
    from chython.periodictable import Element
    q = QueryContainer('built:' + json.dumps([atoms, bonds]))
    for n, sym, iso_, ch, rad in atoms:
        q.add_atom(Element.from_symbol(sym)(iso_, charge=ch, is_radical=rad), n)
    for n, k, o in bonds:
        q.add_bond(n, k, Bond(o))
    _QDUMP[id(q)] = {'kind': 'qmol', 'atoms': atoms, 'bonds': bonds}
    _KEEP.append(q)
    return q


def query_twin(p, r, offset=5000):
    """query twin of molecule p (order 1-3 bonds only): shuffled insertion order, sparse shuffled numbers"""
    nums = list(p)
    new = dict(zip(nums, r.sample(range(offset, offset + 4000), len(nums))))
    atoms = [[new[n], a.atomic_symbol, a.isotope, a.charge, a.is_radical] for n, a in p.atoms()]
    bonds = [[new[n], new[k], b.order] if r.random() < .5 else [new[k], new[n], b.order] for n, k, b in p.bonds()]
    r.shuffle(atoms)
    r.shuffle(bonds)
    return as_query(atoms, bonds)


def renumbered_query(q, mp, text):
    """another instance of a parsed SMARTS: copy() + remap() to numbers unrelated to the text"""
    nums = list(q)
    c = q.copy()
    c._smarts = f'{text} renumbered'  # Graph.copy() does not carry the text slot over (str() of the copy raises; not C07's business)
    c.remap(mp)
    _QDUMP[id(c)] = {'kind': 'smarts', 'smarts': text, 'remap': [[nums.index(n), v] for n, v in mp.items()]}
    _KEEP.append(c)
    return c


def query_union(parts, inplace):
    """multi-component query from queries with disjoint numbers: union() (copy) or |= (in place: the caches of the left operand must go)"""
    u = parts[0]
    if inplace:
        u = u.copy()
        u._smarts = 'union'
        u._compiled_query  # fill the cache that the in-place union has to flush
        for x in parts[1:]:
            u.union(x, copy=False)
    else:
        for x in parts[1:]:
            u = u.union(x)
        u._smarts = 'union'
    _QDUMP[id(u)] = {'kind': 'qunion', 'parts': [dump_pat(x) for x in parts], 'inplace': inplace}
    _KEEP.append(u)
    return u


_KEEP = []


def tup(mp):
    return tuple(sorted(mp.items()))


def get_all(p, t, switch=False, **kw):
    """switch=True: leave QueryIsomorphism.get_mapping's `_cython` at its default, i.e. go through the real import switch (the compiled
    module is not installed here: the ImportError fallback must behave exactly like _cython=False)"""
    from chython.containers import QueryContainer
    if isinstance(p, QueryContainer) and not switch:
        kw['_cython'] = False
    # collect the yielded dict objects FIRST and convert afterwards: a caller that keeps the results must see distinct, final mappings
    # (a generator that reuses / mutates a yielded dict is a defect that eager conversion would hide)
    got = list(p.get_mapping(t, **kw))
    return [tup(x) for x in got]


def connected_subsets(bonds, kmax):
    """every connected vertex subset with <= kmax atoms (simple growth with de-duplication)"""
    seen = set()
    layer = {frozenset((n,)) for n in bonds}
    out = []
    while layer:
        out.extend(layer)
        seen |= layer
        nxt = set()
        for s in layer:
            if len(s) >= kmax:
                continue
            for n in s:
                for k in bonds[n]:
                    if k not in s:
                        f = s | {k}
                        if f not in seen:
                            nxt.add(f)
        layer = nxt
    return sorted(out, key=lambda s: (len(s), sorted(s)))


def cut(t, subset, r, offset=100):
    """pattern molecule = induced subgraph of t on subset: independent rebuild with shuffled insertion order and fresh numbers"""
    sub = t.substructure(subset, recalculate_hydrogens=False)
    p = domains.rebuild(sub, r, keep_stereo=r.random() < .5)  # labels of a molecule pattern are ignored by a search without match_stereo
    nums = list(p)
    new = [offset + i for i in range(len(nums))]
    r.shuffle(new)
    p.remap(dict(zip(nums, new)))
    return p


def union(p1, p2):
    """disjoint union of two molecules (second one renumbered above the first)"""
    q = p2.copy()
    top = max(max(p1), max(p2)) + 1
    q.remap({n: top + i for i, n in enumerate(list(q))})
    return p1.union(q)


def has_ring(p):
    return sum(len(x) for x in p._bonds.values()) // 2 >= len(p._atoms) - len(set(o07_ref.components(p._bonds).values())) + 1


# ------------------------------------------------------------------------------------------------ contract (2) _compile_query
def compiled_contract(atoms, bonds, components, closures):
    """returns None or a text describing the broken clause"""
    comp = o07_ref.components(bonds)
    visited = [e[0] for order in components for e in order]
    if sorted(visited, key=repr) != sorted(atoms, key=repr) or len(set(visited)) != len(visited):
        return f'linear orders visit {visited}, atoms are {list(atoms)}'
    if len(components) != len(set(comp.values())):
        return f'{len(components)} orders for {len(set(comp.values()))} connected components'
    tree = set()
    pos = {}
    for order in components:
        if len({comp[e[0]] for e in order}) != 1:
            return 'one linear order spans several connected components'
        first = order[0]
        if not (len(first) == 4 and first[1] is None and first[3] is None and first[2] is atoms[first[0]]):
            return f'bad first entry {first!r}'
        for i, e in enumerate(order):
            pos[e[0]] = i
        for i, (front, back, atom, bond) in enumerate(order[1:], 1):
            if back not in pos or comp[back] != comp[front] or pos[back] >= i or back not in {x[0] for x in order[:i]}:
                return f'back reference {back} of {front} does not precede it'
            if front not in bonds[back] or bonds[back][front] is not bond:
                return f'entry {front}: back reference {back} is not bonded to it with the recorded bond'
            if atom is not atoms[front]:
                return f'entry {front} carries a foreign atom object'
            tree.add(frozenset((front, back)))
    clos = Counter()
    for front, lst in closures.items():
        for n, bond in lst:
            if n not in bonds.get(front, {}) or bonds[front][n] is not bond:
                return f'closure {front}-{n} is not a bond of the graph / wrong bond object'
            if comp[n] != comp[front] or pos[n] >= pos[front]:
                return f'closure {front}->{n} points to an atom that is not earlier in the order'
            clos[frozenset((front, n))] += 1
    for n, ms in bonds.items():
        for m in ms:
            e = frozenset((n, m))
            c = clos.get(e, 0) + (e in tree)
            if c != 1:
                return f'bond {n}-{m}: tree edge {e in tree}, recorded {clos.get(e, 0)} times as closure'
    return None


def _cq_item(i):
    from chython.algorithms.isomorphism import _compile_query
    g, tag = _GRAPHS[i]
    r = domains.rnd(f'b07cq{i}')
    nodes = list(g.nodes)
    n = len(nodes)
    if n <= 4:
        orders = [list(p) for p in itertools.permutations(nodes)]
    else:
        orders = [nodes] + [r.sample(nodes, n) for _ in range(_NORD)]
    cases, keys, samples, viol = 0, [], [], []
    edges = sorted(tuple(sorted(e)) for e in g.edges)
    for od in orders:
        lab = {v: 10 + j for j, v in enumerate(od)}  # numbers unrelated to insertion order
        r.shuffle(od)
        atoms = {lab[v]: ('atom', lab[v]) for v in od}
        bonds = {a: {} for a in atoms}
        obj = {}
        es = list(g.edges)
        r.shuffle(es)
        for a, b in es:
            bo = ['bond', lab[a], lab[b]]
            bonds[lab[a]][lab[b]] = bo
            bonds[lab[b]][lab[a]] = bo
        try:
            components, closures = _compile_query(atoms, bonds)
            bad = compiled_contract(atoms, bonds, components, closures)
        except Exception as e:  # the contract says: total on every finite graph
            bad = f'raised {type(e).__name__}: {e}'
            components = closures = None
        cases += 1
        if bad and len(viol) < MAXV:
            viol.append({'key': f'compile_query:{tag}:atoms={list(atoms)}:adj={[(a, list(b)) for a, b in bonds.items()]}',
                         'what': f'_compile_query contract broken on graph {tag}: {bad}',
                         'witness': {'contract': 'compile', 'atoms': list(atoms), 'adjacency': [[a, list(b)] for a, b in bonds.items()]},
                         'native': {'components': repr(components)[:600], 'closures': repr(dict(closures or {}))[:600]}})
    cyc = len(edges) - n + len(list(__import__('networkx').connected_components(g)))
    if cyc > 0 or len(edges) < n - 1 or n > 1 and not edges:
        keys.append(f'cq:{tag}')  # non-trivial: has a ring closure or several components
    if i % 97 == 0:
        samples.append({'contract': 'compile_query', 'graph': tag, 'edges': edges, 'orders': len(orders)})
    return cases, keys, samples, viol


def check_compile_witness(w):
    from chython.algorithms.isomorphism import _compile_query
    atoms = {a: ('atom', a) for a in w['atoms']}
    bonds = {a: {} for a in atoms}
    for a, nb in w['adjacency']:
        for b in nb:
            if a in bonds[b]:
                bonds[a][b] = bonds[b][a]
            else:
                bonds[a][b] = ['bond', a, b]
    try:
        return compiled_contract(atoms, bonds, *_compile_query(atoms, bonds)) is None
    except Exception:
        return False


# ------------------------------------------------------------------------------------------------- contract (3) lazy_product
def lazy_contract(lists, plain=False):
    """None or text; lists: tuple of lists of items; plain=True: the arguments are re-iterable collections (list / tuple / range in turn),
    laziness is not observable then"""
    from chython._functions import lazy_product
    pulls = [0] * len(lists)

    def gen(i, lst):
        if plain:
            return [list, tuple, lambda x: range(len(x)) if list(x) == list(range(len(x))) else list(x)][i % 3](lst)
        return gen_(i, lst)

    def gen_(i, lst):
        for x in lst:
            pulls[i] += 1
            yield x
    got = []
    try:
        for k, x in enumerate(lazy_product(*(gen(i, lst) for i, lst in enumerate(lists))), 1):
            if not isinstance(x, tuple):
                return f'yields {type(x).__name__}, not tuple'
            got.append(x)
            if any(p > k for p in pulls):
                return f'not lazy: {pulls} items pulled when tuple {k} was produced'
            if len(got) > 200:
                return 'more than 200 tuples'
    except Exception as e:
        return f'raised {type(e).__name__}: {e}'
    exp = list(itertools.product(*lists))
    if Counter(got) != Counter(exp):
        miss = list((Counter(exp) - Counter(got)).elements())[:4]
        extra = list((Counter(got) - Counter(exp)).elements())[:4]
        return f'{len(got)} tuples, itertools.product has {len(exp)}; missing {miss} extra {extra}'
    return None


def lazy_part(run):
    n = 0
    nv = [0]

    def violation(*a, **k):
        nv[0] += 1
        if nv[0] <= 40:
            run.violation(*a, **k)
    for k in range(0, 4):
        # all shapes, distinct items
        for shape in itertools.product(range(0, 5), repeat=k):
            lists = tuple([(i, j) for j in range(s)] for i, s in enumerate(shape))
            bad = lazy_contract(lists)
            n += 1
            nt = k >= 2 and all(shape) and max(shape) > 1
            run.case(1, key=f'lazy:{shape}' if nt else None,
                     sample={'contract': 'lazy_product', 'shape': shape} if shape in ((2, 3), (4, 1, 3)) else None)
            if bad:
                violation(f'lazy_product:shape={list(shape)}', f'lazy_product over generators of sizes {shape}: {bad}',
                              witness={'contract': 'lazy', 'lists': lists}, native=bad)
        # repeated values: every list over {0, 1} with <= 3 items
        pool = [list(x) for ln in range(0, 4) for x in itertools.product((0, 1), repeat=ln)]
        if k:
            for lists in itertools.product(pool, repeat=k):
                bad = lazy_contract(lists)
                n += 1
                run.case(1)
                if bad:
                    violation(f'lazy_product:values={json.dumps(lists)}', f'lazy_product over {lists}: {bad}',
                                  witness={'contract': 'lazy', 'lists': lists}, native=bad)
    # audit extension: four generators (patterns with four components) with 0..3 items; plain re-iterable arguments
    n4 = 0
    for shape in itertools.product(range(0, 4), repeat=4):
        lists = tuple([(i, j) for j in range(s)] for i, s in enumerate(shape))
        bad = lazy_contract(lists)
        n4 += 1
        run.case(1, key=f'lazy:{shape}' if all(shape) and max(shape) > 1 else None)
        if bad:
            violation(f'lazy_product:shape={list(shape)}', f'lazy_product over generators of sizes {shape}: {bad}',
                      witness={'contract': 'lazy', 'lists': lists}, native=bad)
    for k in range(0, 4):
        for shape in itertools.product(range(0, 4), repeat=k):
            for ints in (False, True):
                lists = tuple([j if ints else (i, j) for j in range(s)] for i, s in enumerate(shape))
                bad = lazy_contract(lists, plain=True)
                n4 += 1
                run.case(1)
                if bad:
                    violation(f'lazy_product:plain:shape={list(shape)}:{ints}', f'lazy_product over plain collections (list/tuple/range) of sizes '
                              f'{shape}: {bad}', witness={'contract': 'lazy', 'lists': lists, 'plain': True}, native=bad)
    run.bound(f'lazy_product, audit extension: every shape of 4 one-shot generators with 0..3 items (256 shapes); every shape of <= 3 plain '
              f're-iterable arguments (list / tuple / range by position) with 0..3 items: {n4} calls, exhaustive')
    run.bound(f'lazy_product: every shape of <= 3 one-shot generators with 0..4 distinct items each (156 shapes) and every tuple of <= 3 '
              f'lists over {{0,1}} with <= 3 items (repeated values): {n} calls, exhaustive')


# ---------------------------------------------------------------------------------------------------- contract (1) matching
def pair_contracts(p, t, r, pname, tname, xcheck, out, scopes=True):
    """evaluate every clause of contract (1) for one pair; appends to out = [cases, keys, samples, viol]"""
    from chython.containers import QueryContainer
    isq = isinstance(p, QueryContainer)
    ref = o07_ref.embeddings(p, t)
    if xcheck:
        brute = o07_ref.brute_embeddings(p, t) if isq else iso.embeddings(p, t)
        if brute != ref:  # harness error, never a violation
            raise RuntimeError(f'reference enumerators disagree on {pname} >> {tname}: {len(brute)} vs {len(ref)}')
    viol = out[3]

    def fire(clause, what, native, **extra):
        if len(viol) < MAXV:
            viol.append({'key': f'{clause}:{pname}>>{tname}' + (':scope=' + ','.join(map(str, sorted(extra['scope']))) if 'scope' in extra else ''),
                         'what': f'{clause}: pattern {pname} target {tname}: {what}',
                         'witness': {'contract': clause, 'pattern': dump_pat(p), 'target': dump_mol(t), **{k: sorted(v) for k, v in extra.items()}},
                         'native': native})

    def differ(got, exp):
        c = Counter(got)
        dup = [k for k, v in c.items() if v > 1]
        miss = exp - set(c)
        extra = set(c) - exp
        if dup or miss or extra:
            return (f'{len(got)} mappings returned, reference has {len(exp)}; missing {sorted(miss)[:3]} spurious {sorted(extra)[:3]} '
                    f'duplicated {dup[:3]}')

    # all
    try:
        got = get_all(p, t, automorphism_filter=False)
    except Exception as e:
        got = None
        fire('all', f'raised {type(e).__name__}: {e}', repr(e))
    if got is not None:
        d = differ(got, ref)
        if d:
            fire('all', d, got[:20])
    out[0] += 1
    # filter
    try:
        gotf = get_all(p, t, switch=True)
    except Exception as e:
        gotf = None
        fire('filter', f'raised {type(e).__name__}: {e}', repr(e))
    if gotf is not None:
        imgs = [frozenset(v for _, v in x) for x in gotf]
        rimgs = {frozenset(v for _, v in x) for x in ref}
        if any(x not in ref for x in gotf):
            fire('filter', 'a filtered mapping is not a valid embedding', gotf[:20])
        elif len(set(imgs)) != len(imgs):
            fire('filter', f'{len(imgs)} filtered mappings but only {len(set(imgs))} distinct image sets', gotf[:20])
        elif set(imgs) != rimgs:
            fire('filter', f'{len(set(imgs))} image sets returned, reference has {len(rimgs)}', gotf[:20])
    out[0] += 1
    # operators
    n, k, some = len(p), len(t), bool(ref)
    exp = {'<=': some, 'is_substructure': some, '<': some and n < k, 'is_equal': some and n == k, 'rev>=': some, 'rev>': some and n < k}
    try:
        nat = {'<=': p <= t, 'is_substructure': p.is_substructure(t), '<': p < t, 'is_equal': p.is_equal(t), 'rev>=': t >= p, 'rev>': t > p}
    except Exception as e:
        nat = {'raised': repr(e)}
    if nat != exp:
        fire('ops', f'operators give {nat}, embeddings say {exp}', nat)
    out[0] += 1
    # scope
    if scopes:
        tn = list(t)
        ss = []
        if ref:
            e0 = min(ref)
            img = [v for _, v in e0]
            ss.append(set(img))                                            # exactly one image
            rest = [x for x in tn if x not in img]
            if rest:
                ss.append(img + r.sample(rest, max(1, len(rest) // 2)))    # list on purpose: any collection is accepted
                ss.append(set(tn) - {r.choice(img)})                       # everything but one matched atom
            # a tuple that also holds numbers that are no atoms of the target (a scope is any collection of numbers)
            ss.append(tuple(img) + (max(tn) + 7, 0, -3) + tuple(r.sample(rest, len(rest) // 3)))
        ss.append(frozenset(r.sample(tn, max(1, (len(tn) * 3) // 5))))
        ss.append(dict.fromkeys([x for x in tn if r.random() < .5] or [tn[0]]).keys())
        for s in ss:
            sset = set(s)
            expd = {e for e in ref if all(v in sset for _, v in e)}
            try:
                gs = get_all(p, t, automorphism_filter=False, searching_scope=s)
                gf = get_all(p, t, searching_scope=s, switch=True)
                if set(s) != sset:  # the caller's collection is an input, not a work area
                    fire('scope', f'the scope collection was modified by the search: {sorted(s)}', sorted(s), scope=sset)
            except Exception as e:
                fire('scope', f'raised {type(e).__name__}: {e}', repr(e), scope=sset)
                continue
            d = differ(gs, expd)
            if d:
                fire('scope', d, gs[:20], scope=sset)
            else:
                fi = [frozenset(v for _, v in x) for x in gf]
                if any(x not in expd for x in gf) or len(set(fi)) != len(fi) or set(fi) != {frozenset(v for _, v in x) for x in expd}:
                    fire('scope-filter', f'filtered search in scope: {len(gf)} mappings / {len(set(fi))} image sets, reference has '
                                         f'{len({frozenset(v for _, v in x) for x in expd})}', gf[:20], scope=sset)
            out[0] += 1
    if len(p) >= 2 and ref:
        out[1].append(f'{pname}>>{tname}')
        if has_ring(p):
            out[1].append(f'ring:{pname}>>{tname}')
        if len(set(o07_ref.components(p._bonds).values())) > 1:
            out[1].append(f'multi:{pname}>>{tname}')
    # compiled form of this very pattern obeys contract (2)
    bad = compiled_contract(p._atoms, p._bonds, *p._compiled_query)
    if bad:
        fire('compile', bad, repr(p._compiled_query)[:600])
    return ref


def auto_contract(m, name, out, whole=True):
    """get_automorphism_mapping vs reference; whole=False: only automorphisms that map every component onto itself are expected"""
    keys = dict(m._chiral_morgan)
    try:
        got = list(m.get_automorphism_mapping())  # collect the yielded objects first, convert afterwards (see get_all)
        got = [tup(x) for x in got]
        flag = m.is_automorphic()
    except Exception as e:
        got = None
        bad = f'raised {type(e).__name__}: {e}'
    if got is not None:
        ref = o07_ref.automorphisms(keys, m._bonds)
        if not whole:
            comp = o07_ref.components(m._bonds)
            ref = [x for x in ref if all(comp[a] == comp[b] for a, b in x.items())]
        ref = {tup(x) for x in ref}
        c = Counter(got)
        bad = None
        if set(c) != ref or any(v > 1 for v in c.values()):
            bad = (f'{len(got)} mappings returned ({len(set(got))} distinct), reference has {len(ref)} non-identity automorphisms; '
                   f'missing {sorted(ref - set(c))[:2]} spurious {sorted(set(c) - ref)[:2]}')
        elif whole and not any(a.stereo is not None for _, a in m.atoms()) and not any(b.stereo is not None for *_, b in m.bonds()):
            k2 = {n: iso.atom_key(a) for n, a in m.atoms()}
            ref2 = {tup(x) for x in o07_ref.automorphisms(k2, m._bonds)}
            if ref2 != ref:
                bad = (f'atom classes are not the constitutional symmetry classes: {len(ref)} automorphisms under _chiral_morgan labels, '
                       f'{len(ref2)} under (element, isotope, charge, radical, H)')
        if not bad and flag != bool(got):
            bad = f'is_automorphic() is {flag} but get_automorphism_mapping() yields {len(got)} mappings'
        if not bad and ref:
            out[1].append(f'auto:{name}')
    out[0] += 1
    if bad and len(out[3]) < MAXV:
        out[3].append({'key': f'auto{"" if whole else "-within"}:{name}', 'what': f'get_automorphism_mapping of {name}: {bad}',
                       'witness': {'contract': 'auto' if whole else 'auto-within', 'target': dump_mol(m)},
                       'native': (got or [])[:20]})


def _target_item(i):
    from chython import smarts
    kind, name, t = _TARGETS[i]
    r = domains.rnd(f'b07t{i}')
    out = [0, [], [], []]
    tname = f'{name}[{",".join(map(str, t))}]'
    multi = len(set(o07_ref.components(t._bonds).values())) > 1
    small = len(t) <= 7
    # (a) patterns cut from the target itself: every connected induced subgraph <= 5 atoms (sampled above the cap)
    subs = connected_subsets(t._bonds, 5)
    if len(subs) > _CAP_SELF:
        subs = r.sample(subs, _CAP_SELF)
    pats = []
    for s in subs:
        p = cut(t, s, r)
        pats.append((f'cut{sorted(s)}:{p}[{",".join(map(str, p))}]', p))
    # near misses: one bond order (every bond of ring patterns: second and later closures matter) or one element changed
    near = []
    for pn, p in pats:
        if len(p) < 2:
            continue
        d = dump_mol(p)
        ring = has_ring(p)
        idx = list(range(len(d['bonds']))) if ring else [r.randrange(len(d['bonds']))]
        if len(near) > _CAP_NEAR:
            break
        for j in idx:
            d2 = {**d, 'bonds': [list(x) for x in d['bonds']]}
            d2['bonds'][j][2] = 2 if d2['bonds'][j][2] == 1 else 1
            near.append((f'near-bond{j}:{pn}', load_mol(d2)))
        j = r.randrange(len(d['atoms']))
        d3 = {**d, 'atoms': [list(x) for x in d['atoms']]}
        d3['atoms'][j][1] = 'N' if d3['atoms'][j][1] == 'C' else 'C'
        d3['atoms'][j][2] = None  # the isotope number of the old element need not exist for the new one
        near.append((f'near-atom{j}:{pn}', load_mol(d3)))
    pats.extend(near)
    # whole target against itself (is_equal positive branch)
    pats.append((f'self:{t}', cut(t, list(t), r)))
    # (b) patterns cut from other molecules
    for j in r.sample(range(len(_POOL)), min(_N_FOREIGN, len(_POOL))):
        pn, p = _POOL[j]
        if len(p) <= len(t) + 1:
            pats.append((pn, p))
    # (c) two-component patterns: pairs of small patterns (from the target and from the pool)
    sm = [x for x in pats if len(x[1]) <= 3]
    for _ in range(_N_TWO):
        if len(sm) < 2:
            break
        (n1, p1), (n2, p2) = r.choice(sm), r.choice(sm)
        pats.append((f'{n1} . {n2}', union(p1, p2)))
    # (c2) audit extension: three- and four-component patterns (more components than the target has included)
    for _ in range(_N_THREE):
        if len(sm) < 2:
            break
        ps = [r.choice(sm) for _ in range(4 if r.random() < .25 else 3)]
        u = ps[0][1]
        for _, x in ps[1:]:
            u = union(u, x)
        if len(u) <= 8:
            pats.append((' . '.join(n for n, _ in ps), u))
    # (c3) audit extension: query twins built through QueryContainer.add_atom(Element) / add_bond(Bond) on sparse shuffled numbers
    # (aromatic bonds have no plain query twin here: order 4 needs ring context), unions of them (copying and in-place)
    qt = []
    cand = [x for x in pats if 1 <= len(x[1]) <= 5 and all(b.order in (1, 2, 3) for *_, b in x[1].bonds())]
    for pn, p in r.sample(cand, min(_N_QTWIN, len(cand))):
        qt.append((f'query-twin:{pn}', query_twin(p, r)))
    if len(qt) >= 3:
        a, b, c = r.sample(qt, 3)
        if len({*a[1], *b[1], *c[1]}) == len(a[1]) + len(b[1]) + len(c[1]) <= 8:
            qt.append((f'union({a[0]} | {b[0]} | {c[0]})', query_union([a[1], b[1], c[1]], inplace=False)))
            qt.append((f'inplace-union({b[0]} | {a[0]})', query_union([b[1], a[1]], inplace=True)))
    nx = 0
    for pn, p in pats + qt:
        ref = pair_contracts(p, t, r, pn, tname, small and len(p) <= 5 and (nx % _XCHECK == 0), out)
        nx += 1
        if i % 37 == 0 and nx == 3:
            out[2].append({'contract': 'search', 'pattern': pn, 'target': tname, 'embeddings': len(ref)})
    # (d) queries
    for js, s in enumerate(SMARTS):
        q = smarts(s)
        if len(q) > len(t) + 1:
            continue
        qn = f'smarts({s})'
        if (i + js) % 3 == 0:  # audit extension: every third (target, SMARTS) pair uses a re-numbered instance of the query
            nums = list(q)
            mp = dict(zip(nums, r.sample(range(20, 900), len(nums))))
            q = renumbered_query(q, mp, s)
            qn = f'smarts({s})@{list(q)}'
        ref = pair_contracts(q, t, r, qn, tname, small and len(q) <= 5 and (nx % _XCHECK == 0), out, scopes=bool(nx % 2))
        nx += 1
        if ref:
            out[1].append(f'q:{s}')
    # automorphisms
    auto_contract(t, tname, out, whole=not multi)
    return tuple(out)


def _multi_auto_item(s):
    m = domains.parse(s)
    out = [0, [], [], []]
    auto_contract(m, s, out, whole=True)
    return tuple(out)


# ------------------------------------------------------------------------ audit extension: stereo filter of QueryIsomorphism.get_mapping
# every query has marks of ONE kind; '1' = exactly one mark (partition contract), '+' = several marks (weaker contracts)
STEREO_Q = ['[C@](C)(N)O', '[C@@](C)(N)O', 'N[C@](C)O', 'C[C@](N)O', '[C@]([A])([A])[A]', '[C@@]([A])([A])([A])[A]', '[C@](C)(C)(N)O',
            '[C@]([C;D1])(O)[C;D3,D4]', '[A][C@]([A])[N,O]', '[C@](C)(N)(O)S', '[C@](C)(N)O.[O;D1]', '[O;D1].[C@@](C)(N)O', 'O[C@](C)CC',
            '[C@](C)(O)[C@](C)O', '[C@](C)(O)[C@@](C)O', 'C[C@](O)-[C;D3]', '[C;D1][C@]([O,N])[C;D2,D3]',
            'C/C=C/C', 'C/C=C\\C', '[A]/C=C/[A]', '[A]/C=C\\[A]', 'N/C=C/O', 'C/C=C/[N,O]', 'C/C(N)=C/O', 'C/C=C/C.[O;D1]', 'C/C=C/C=C/C', 'C/C=C/C=C\\C',
            'CC=[C@]=CC', 'CC=[C@@]=CC', '[A]C=[C@]=C[A]']
STEREO_T = ['C[C@H](N)O', 'C[C@@H](N)O', 'CC(N)O', 'C[C@](N)(O)S', 'CC[C@](C)(N)O', 'CC[C@@](C)(N)O', 'N[C@@H](C)C(=O)O', 'C[C@H](O)[C@@H](O)C',
            'C[C@H](O)[C@H](O)C', 'C[C@H](O)C(O)C', 'C[C@H](N)O.C[C@@H](N)O', 'C[C@H](N)O.O', 'O[C@H]1CC[C@@H](O)CC1', 'C[C@]1(O)CCC[C@H]1N',
            'C[C@H](N)CC(N)C', 'O[C@@](C)(CC)C(C)C', 'C[C@@H]1OC1', 'C[C@H](N)[C@@H](O)[C@H](C)O',
            'C/C=C/C', 'C/C=C\\C', 'CC=CC', 'C/C=C/C=C/C', 'C/C=C/C=C\\C', 'N/C=C/O', 'N/C=C\\O', 'C/C(N)=C/O', 'C/C(N)=C\\O', 'C/C=C/C.C/C=C\\C', 'C/C=C/C.O',
            'C/C=C/N', 'C/C=C/[C@H](N)O', 'CC=[C@]=CC', 'CC=[C@@]=CC', 'CC=C=CC', 'OC=[C@]=CN', 'CC=[C@]=CC.CC=[C@@]=CC']


def flip(t):
    """mirror twin of a molecule: a copy() (same numbers, same neighbour order - the labels are relative to it) with every atom label and
    every bond label inverted"""
    c = t.copy()
    for n, a in c.atoms():
        if a.stereo is not None:
            a._stereo = not a._stereo
    for *_, b in c.bonds():
        if b.stereo is not None:
            b._stereo = not b._stereo
    c.flush_cache()
    if [(n, a.stereo) for n, a in c.atoms()] != [(n, None if a.stereo is None else not a.stereo) for n, a in t.atoms()] or \
            [list(x) for x in c._bonds.values()] != [list(x) for x in t._bonds.values()]:
        raise RuntimeError('flip: copy() did not keep order / labels')  # harness precondition
    return c


def stereo_contract(q, t, r, qname, tname, out):
    """clause `stereo` (module docstring); the stereo-blind reference set is the reference enumerator's (it only uses ==, which ignores marks)"""
    marks_a = [n for n, a in q.atoms() if getattr(a, 'stereo', None) is not None]
    marks_b = [(n, m) for n, m, b in q.bonds() if b.stereo is not None]
    if not marks_a and not marks_b:
        raise RuntimeError(f'{qname} carries no stereo mark')  # harness error
    ref = o07_ref.embeddings(q, t)
    tm = flip(t)
    viol = out[3]

    def fire(clause, what, native, key=None):
        if len(viol) < MAXV:
            viol.append({'key': key or f'{clause}:{qname}>>{tname}', 'what': f'{clause}: pattern {qname} target {tname}: {what}',
                         'witness': {'contract': 'stereo', 'pattern': dump_pat(q), 'target': dump_mol(t)}, 'native': native})
    try:
        got = get_all(q, t, automorphism_filter=False)
        gotm = get_all(q, tm, automorphism_filter=False)
        gotf = get_all(q, t, switch=True)
        ops = {'<=': q <= t, 'is_substructure': q.is_substructure(t), 'rev>=': t >= q, '<': q < t, 'is_equal': q.is_equal(t)}
    except Exception as e:
        fire('stereo', f'raised {type(e).__name__}: {e}', repr(e))
        out[0] += 1
        return
    gs, gms = set(got), set(gotm)

    def labelled(e):
        d = dict(e)
        return (all(t._atoms[d[n]].stereo is not None for n in marks_a) and
                all(t._bonds[d[n]][d[m]].stereo is not None for n, m in marks_b))
    lab = {e for e in ref if labelled(e)}
    if len(got) != len(gs) or not gs <= ref:
        fire('stereo', f'{len(got)} mappings, {len(gs)} distinct, {len(gs - ref)} of them are no embeddings at all', got[:20])
    elif not gs <= lab:
        fire('stereo', 'a marked query atom / bond is mapped to an unlabelled one', sorted(gs - lab)[:10])
    elif gs & gms:
        fire('stereo', f'{len(gs & gms)} mappings survive on the target and on its mirror image', sorted(gs & gms)[:10])
    elif len(marks_a) + len(marks_b) == 1 and (gs | gms) != lab:
        fire('stereo', f'one mark: {len(lab)} reference embeddings reach a labelled atom / bond, but target and mirror image together '
                       f'accept {len(gs | gms)}', {'target': got[:20], 'mirror': gotm[:20]})
    else:
        # filtered search: one mapping per image set of the unfiltered result
        fi = [frozenset(v for _, v in x) for x in gotf]
        want = {frozenset(v for _, v in x) for x in gs}
        if not set(gotf) <= gs or len(set(fi)) != len(fi) or set(fi) != want:
            # family predicate (independent of the outcome's detail): the lost image sets are reached by >= 2 reference embeddings, i.e. the
            # image set was entered into `seen` by an embedding that the stereo test rejected afterwards
            lost = want - set(fi)
            multi = lost and set(gotf) <= gs and len(set(fi)) == len(fi) and not set(fi) - want and \
                all(sum(1 for e in ref if frozenset(v for _, v in e) == im) >= 2 for im in lost)
            fire('filter', f'filtered search returns {len(gotf)} mappings / {len(set(fi))} image sets, the unfiltered result has {len(want)} '
                           f'image sets', gotf[:20], key='filter:stereo-mark-tested-after-image-set-dedup' if multi else None)
        exp = {'<=': bool(gs), 'is_substructure': bool(gs), 'rev>=': bool(gs), '<': bool(gs) and len(q) < len(t),
               'is_equal': bool(gs) and len(q) == len(t)}
        if ops != exp:
            fire('ops', f'operators give {ops}, the mapping set says {exp}', ops)
        if gs:
            e0 = min(gs)
            tn = list(t)
            sc = {v for _, v in e0} | set(r.sample(tn, len(tn) // 2))
            expd = {e for e in gs if all(v in sc for _, v in e)}
            g2 = get_all(q, t, automorphism_filter=False, searching_scope=sc)
            if Counter(g2) != Counter(expd):
                fire('scope', f'scope {sorted(sc)}: {len(g2)} mappings, expected {len(expd)}', g2[:20])
            out[1].append(f'stereo:{qname}>>{tname}')
        if gms:
            out[1].append(f'stereo-mirror:{qname}>>{tname}')
    out[0] += 4


def _stereo_item(k):
    from chython import smarts, smiles
    qs = _STQ[k]
    r = domains.rnd(f'b07st{k}')
    out = [0, [], [], []]
    for j, ts in enumerate(_STT):
        t = smiles(ts)
        if (j + k) % 2:
            t = scramble_keep(t, r)
        q = smarts(qs)
        qn = f'smarts({qs})'
        if (j + k) % 3 == 0:
            nums = list(q)
            q = renumbered_query(q, dict(zip(nums, r.sample(range(20, 900), len(nums)))), qs)
            qn += f'@{list(q)}'
        stereo_contract(q, t, r, qn, f'{ts}[{",".join(map(str, t))}]', out)
    return tuple(out)


# generic marked queries run over corpus molecules that carry labels (rings, fused systems, several centres)
STEREO_Q_CORPUS = ['[C@]([A])([A])[A]', '[C@@]([A])([A])([A])[A]', '[C@]([C])([N,O])[A]', '[A][C@@]([A])[N,O]', '[C;r5,r6;@]([A])([A])[A]',
                   '[A]/C=C/[A]', '[A]/C=C\\[A]', 'C/C=C/C', '[C@]([A])([A])[A].[O;D1]']


def _stereo_corpus_item(k):
    from chython import smarts, smiles
    r = domains.rnd(f'b07stc{k}')
    out = [0, [], [], []]
    ts = _STC[k]
    t = smiles(ts)
    if k % 2:
        t = scramble_keep(t, r)
    for j, qs in enumerate(STEREO_Q_CORPUS):
        q = smarts(qs)
        qn = f'smarts({qs})'
        if (j + k) % 3 == 0:
            nums = list(q)
            q = renumbered_query(q, dict(zip(nums, r.sample(range(20, 900), len(nums)))), qs)
            qn += f'@{list(q)}'
        stereo_contract(q, t, r, qn, f'{ts}[{",".join(map(str, t))}]', out)
    return tuple(out)


_STC = []


def scramble_keep(t, r):
    """re-numbered copy made by the library itself (copy + remap keep the configuration; a rebuild in another order would not)"""
    c = t.copy()
    nums = list(c)
    c.remap(dict(zip(nums, r.sample(range(1, 3000), len(nums)))))
    return c


_STQ = []
_STT = []


# ------------------------------------------------------------------------ audit extension: match_stereo=True of MoleculeIsomorphism.get_mapping
# (pattern, target): whole molecules only (identical / meso / enantiomer / diastereomer / cis-trans pairs; no allenes: RDKit does not perceive them).  Expected number of image
# sets under match_stereo=True = number of target components whose RDKit canonical isomeric SMILES equals the pattern's (RDKit: trusted oracle)
MS_TABLE = [('C[C@H](N)O', 'C[C@H](N)O'), ('C[C@H](N)O', 'C[C@@H](N)O'), ('N[C@@H](C)O', 'C[C@H](N)O'), ('O[C@H](C)N', 'C[C@H](N)O'),
            ('O[C@@H](C)N', 'C[C@H](N)O'), ('C[C@H](N)O', 'C[C@H](N)O.C[C@@H](N)O'), ('C[C@@H](N)O', 'C[C@H](N)O.C[C@@H](N)O'),
            ('C[C@H](O)[C@@H](O)C', 'C[C@@H](O)[C@H](O)C'), ('C[C@H](O)[C@H](O)C', 'C[C@@H](O)[C@@H](O)C'),
            ('C[C@H](O)[C@H](O)C', 'C[C@H](O)[C@H](O)C'), ('C[C@H](O)[C@H](O)C', 'C[C@H](O)[C@@H](O)C'),
            ('C/C=C/C', 'C/C=C/C'), ('C/C=C/C', 'C/C=C\\C'), ('C/C=C\\C', 'C\\C=C/C'), ('C/C=C/C', 'C/C=C/C.C/C=C\\C'), ('C/C=C\\C', 'C/C=C/C.O'),
            ('N[C@@H](C)C(=O)O', 'C[C@H](N)C(=O)O'), ('N[C@@H](C)C(=O)O', 'C[C@@H](N)C(=O)O'), ('C[C@H](N)/C=C/C', 'C[C@H](N)/C=C\\C'),
            ('C[C@H](N)/C=C/C', 'C/C=C/[C@@H](N)C'), ('C[C@H](N)/C=C/C', 'C/C=C/[C@H](N)C')]


def ms_contract(p, t, pname, tname, out, complete):
    """clause `ms` (module docstring)"""
    ref = o07_ref.embeddings(p, t)
    viol = out[3]

    def fire(what, native):
        if len(viol) < MAXV:
            viol.append({'key': f'ms:{pname}>>{tname}', 'what': f'ms: match_stereo=True, pattern {pname} target {tname}: {what}',
                         'witness': {'contract': 'ms', 'pattern': dump_mol(p), 'target': dump_mol(t), 'complete': complete}, 'native': native})
    try:
        gf = list(p.get_mapping(t, match_stereo=True))
        ga = list(p.get_mapping(t, match_stereo=True, automorphism_filter=False))
        gf, ga = [tup(x) for x in gf], [tup(x) for x in ga]
    except Exception as e:
        fire(f'raised {type(e).__name__}: {e}', repr(e))
        out[0] += 1
        return None
    fi = [frozenset(v for _, v in x) for x in gf]
    rimgs = {frozenset(v for _, v in x) for x in ref}
    if not set(gf) <= ref or not set(ga) <= ref:
        fire(f'{len(set(gf) - ref)} filtered / {len(set(ga) - ref)} unfiltered mappings are no embeddings', (sorted(set(gf + ga) - ref))[:10])
    elif len(set(fi)) != len(fi):
        fire(f'{len(fi)} filtered mappings on {len(set(fi))} image sets', gf[:20])
    elif len(set(ga)) != len(ga):
        fire(f'{len(ga)} unfiltered mappings, {len(set(ga))} distinct', ga[:20])
    elif {frozenset(v for _, v in x) for x in ga} != set(fi):
        fire('filtered and unfiltered search reach different image sets', {'filtered': gf[:10], 'unfiltered': ga[:10]})
    elif complete and set(fi) != rimgs:
        fire(f'no stereo label anywhere: {len(set(fi))} image sets returned, reference has {len(rimgs)}', gf[:20])
    elif complete and set(ga) != ref:
        fire(f'no stereo label anywhere: {len(ga)} unfiltered mappings, reference has {len(ref)}', ga[:20])
    elif ref and len(p) >= 2:
        out[1].append(f'ms:{pname}>>{tname}')
    out[0] += 2
    return set(fi)


def has_labels(m):
    return any(a.stereo is not None for _, a in m.atoms()) or any(b.stereo is not None for *_, b in m.bonds())


def _ms_item(i):
    kind, name, t = _MST[i]
    r = domains.rnd(f'b07ms{i}')
    out = [0, [], [], []]
    tname = f'{name}[{",".join(map(str, t))}]'
    subs = [s for s in connected_subsets(t._bonds, 5) if len(s) >= 2]
    if len(subs) > _N_MS:
        subs = r.sample(subs, _N_MS)
    for s in subs + [frozenset(t)]:
        sub = t.substructure(s)  # hydrogens recalculated: the pattern is a molecule in its own right
        p = domains.rebuild(sub, r)
        nums = list(p)
        p.remap(dict(zip(nums, r.sample(range(100, 999), len(nums)))))
        connected = len(set(o07_ref.components(p._bonds).values())) == 1
        if connected and has_ring(p):
            # match_stereo compares the pattern with the matched subgraph through their canonical strings (get_fast_mapping): C01's documented
            # gaps and C01's recorded defect families (independent predicates on the pattern, oracles/o01_*) are not C07's business
            orb = iso.orbits(p)
            if any(o01_gaps.gaps(p)) or o01_families.alternating_ring_tie(p, orb) or o01_families.symmetric_spiro(p, orb) or \
                    o01_families.morgan_incomplete(p, orb):
                out[1].append('ms-c01-gap')
                connected = False
        ms_contract(p, t, f'sub{sorted(s)}:{p}[{",".join(map(str, p))}]', tname, out, complete=connected and not has_labels(t) and not has_labels(p))
    return tuple(out)


def _ms_table_item(k):
    from chython import smiles
    from oracles.o12_stereo import rd_can
    ps, ts = MS_TABLE[k]
    n = sum(1 for x in ts.split('.') if rd_can(x, False) == rd_can(ps, False))
    r = domains.rnd(f'b07mst{k}')
    out = [0, [], [], []]
    p, t = smiles(ps), smiles(ts)
    p = scramble_keep(p, r)
    if k % 2:
        t = scramble_keep(t, r)
    imgs = ms_contract(p, t, f'{ps}[{",".join(map(str, p))}]', f'{ts}[{",".join(map(str, t))}]', out, complete=False)
    if imgs is not None and len(imgs) != n and len(out[3]) < MAXV:
        out[3].append({'key': f'ms-table:{ps}>>{ts}', 'what': f'ms: match_stereo=True, pattern {ps} target {ts}: {len(imgs)} image sets, '
                       f'RDKit identifies {n} target components with the pattern', 'witness': {'contract': 'ms-table', 'k': k}, 'native': sorted(map(sorted, imgs))})
    return tuple(out)


_MST = []
_N_MS = 10


# ------------------------------------------------------------------------ audit extension: call sequences
def _seq_item(k):
    """search - edit - search: after every public edit of the pattern or of the target the search answers for the CURRENT graphs; generators
    of one pattern consumed interleaved do not disturb each other"""
    from chython import smarts
    r = domains.rnd(f'b07seq{k}')
    out = [0, [], [], []]
    ps, ts, query = SEQ[k]
    t = domains.parse(ts)
    if k % 2:
        t = scramble(t, r)
    if query:
        p = smarts(ps)
    else:
        p = domains.parse(ps)
        p.remap(dict(zip(list(p), r.sample(range(100, 999), len(p)))))
    step = [0]

    def look(what):
        step[0] += 1
        pair_contracts(p, t, r, f'seq{k}.{step[0]}({what}):{"smarts" if query else "mol"}[{",".join(map(str, p))}]',
                       f'{ts}->[{",".join(map(str, t))}]', False, out, scopes=step[0] % 2 == 0)
    look('start')
    a = r.choice(list(p))
    n = p.add_atom('O')
    look('pattern.add_atom')                     # a new one-atom component
    p.add_bond(a, n, 1)
    look('pattern.add_bond')
    m = p.add_atom('C', max(p) + r.randint(2, 50))
    p.add_bond(n, m, 1)
    look('pattern.add_atom+add_bond')
    if not query:                                # QueryContainer has no delete methods
        p.delete_bond(a, n)
        look('pattern.delete_bond')              # two components now
        p.delete_atom(m)
        look('pattern.delete_atom')
    nums = list(p)
    p.remap(dict(zip(nums, r.sample(range(1000, 1999), len(nums)))))
    look('pattern.remap')
    # target edits: join two components / open a ring / split / delete / renumber
    comp = o07_ref.components(t._bonds)
    other = [x for x in t if comp[x] != comp[next(iter(t))]]
    if other:
        t.add_bond(next(iter(t)), other[0], 1)
        look('target.add_bond joining components')
    x, y, _ = r.choice(list(t.bonds()))
    t.delete_bond(x, y)
    look('target.delete_bond')
    t.delete_atom(r.choice(list(t)))
    look('target.delete_atom')
    z = t.add_atom('O')
    t.add_bond(z, r.choice([x for x in t if x != z]), 1)
    look('target.add_atom+add_bond')
    nums = list(t)
    t.remap(dict(zip(nums, r.sample(range(3000, 3999), len(nums)))))
    look('target.remap')
    # interleaved generators
    t2 = domains.parse('CCOC(C)=O.CCN')
    kw = {'_cython': False} if query else {}
    gens = [p.get_mapping(t, automorphism_filter=False, **kw), p.get_mapping(t2, automorphism_filter=False, **kw), p.get_mapping(t, **kw)]
    got = [[], [], []]
    live = [0, 1, 2]
    while live:
        for j in list(live):
            try:
                got[j].append(next(gens[j]))
            except StopIteration:
                live.remove(j)
    got = [[tup(x) for x in g] for g in got]
    r1, r2 = o07_ref.embeddings(p, t), o07_ref.embeddings(p, t2)
    f3 = [frozenset(v for _, v in x) for x in got[2]]
    if Counter(got[0]) != Counter(r1) or Counter(got[1]) != Counter(r2) or not set(got[2]) <= r1 or len(set(f3)) != len(f3) or \
            set(f3) != {frozenset(v for _, v in x) for x in r1}:
        out[3].append({'key': f'seq-interleaved:{k}:{ps}>>{ts}', 'what': f'seq: three generators of pattern {ps} consumed interleaved return '
                       f'{[len(g) for g in got]} mappings, references have {len(r1)}, {len(r2)} and {len(set(map(frozenset, [[v for _, v in x] for x in r1])))} image sets',
                       'witness': {'contract': 'seq', 'k': k}, 'native': [g[:10] for g in got]})
    out[0] += 3
    out[1].append(f'seq:{k}')
    for v in out[3]:
        v['witness'] = {'contract': 'seq', 'k': k}  # the edited graphs are reproduced by re-running the scripted sequence
    return tuple(out)


SEQ = [('CC', 'CCO.CC=O.OCCO', False), ('C=O', 'CC(=O)OC.CC=O', False), ('C1CC1', 'C1CC1CO.C1CC1', False), ('CN', 'NCCN.CNC', False),
       ('[C;D1]-[O,N]', 'CCO.CC=O.OCCO', True), ('C-,=[O,N]', 'CC(=O)OC.CC=O', True), ('[A]1[A][A]1', 'C1CC1CO.C1OC1', True), ('C.[O,N]', 'NCCN.CNC.O', True)]


def _fragment(m, r, size):
    """connected induced fragment of about `size` atoms grown from a random atom"""
    start = r.choice(list(m))
    got = {start}
    frontier = [start]
    while frontier and len(got) < size:
        x = frontier.pop(r.randrange(len(frontier)))
        for y in m._bonds[x]:
            if y not in got and len(got) < size:
                got.add(y)
                frontier.append(y)
    return got


# ---------------------------------------------------------------------------------------------------------------- driver
_TARGETS = []
_POOL = []
_GRAPHS = []
_CAP_SELF = 30
_N_FOREIGN = 12
_N_TWO = 6
_XCHECK = 3
_NORD = 12
_CAP_NEAR = 60
_N_THREE = 5
_N_QTWIN = 8


def bounded(run):
    global _CAP_SELF, _N_FOREIGN, _N_TWO, _XCHECK, _NORD, _CAP_NEAR, _N_THREE, _N_QTWIN, _N_MS
    env.setup()
    import networkx as nx
    thorough = run.tier == 'thorough'
    run.assume('oracles/o07_ref.py: exhaustive backtracking enumerator of embeddings / automorphisms (pruning by the pairwise conditions only); '
               'cross-checked in this run against the permutation brute force oracles/iso.py::embeddings (queries: the same loop with flood-fill '
               'components, o07_ref.brute_embeddings) on pairs with target <= 7 and pattern <= 5 atoms',
               'atom and bond predicates are taken from the public == of the tree under verification (predicate semantics is C08/C09 business, '
               'search semantics is C07)',
               'queries are matched with _cython=False; the compiled matcher is not installed (operators fall back to the Python matcher)')

    import time
    t0 = time.time()
    sec = run.notes.setdefault('seconds', {})
    # ---- (3)
    lazy_part(run)
    sec['lazy_product'] = round(time.time() - t0, 1)

    # ---- (2)
    _NORD = 60 if thorough else 12
    gmax = 7 if thorough else 6
    from networkx.generators.atlas import graph_atlas_g
    _GRAPHS[:] = [(g, g.name or f'G{i}') for i, g in enumerate(graph_atlas_g()) if 1 <= g.number_of_nodes() <= gmax]
    n_multi = sum(1 for g, _ in _GRAPHS if not nx.is_connected(g))
    run.bound(f'_compile_query: every graph of the atlas with 1..{gmax} nodes ({len(_GRAPHS)} graphs, {n_multi} of them disconnected = '
              f'multi-component), all insertion orders for <= 4 nodes, identity + {_NORD} seeded shuffles of atom and neighbour insertion '
              f'order otherwise; plus the compiled form of every pattern used in the search contract')
    ncq = 0
    for cases, keys, samples, viol in pmap(_cq_item, range(len(_GRAPHS)), chunksize=8):
        run.case(cases)
        for k in keys:
            run.case(0, key=k)
        for s in samples:
            run.case(0, sample=s)
        for v in viol:
            ncq += 1
            if ncq <= 40:
                run.violation(v['key'], v['what'], witness=v['witness'], native=v['native'])

    sec['compile_query'] = round(time.time() - t0, 1)
    # ---- (1) targets
    r = domains.rnd('b07')
    amax = 7 if thorough else 6
    trials = 5 if thorough else 4
    _CAP_SELF = 200 if thorough else 60
    _N_FOREIGN = 40 if thorough else 16
    _N_TWO = 16 if thorough else 8
    _XCHECK = 1 if thorough else 3
    _CAP_NEAR = 300 if thorough else 60
    _N_THREE = 10 if thorough else 5
    _N_QTWIN = 16 if thorough else 8
    kw = dict(elements=('C', 'C', 'N', 'O'), p_double=.3, p_triple=0.)
    _TARGETS.clear()
    _POOL.clear()
    deco = [(g, m) for g, el, od, m in domains.decorated_atlas(amax, trials, tag='b07atlas', valid_only=False, **kw)]
    for g, m in deco:
        _TARGETS.append(('atlas', f'{g.name}:{m}', m))
    n_atlas = len(_TARGETS)
    # foreign pattern pool: decorated atlas molecules <= 5 atoms (whole molecule = connected induced subgraph of itself) and cuts of them
    for g, m in deco:
        if len(m) <= 5:
            _POOL.append((f'mol:{m}[{",".join(map(str, m))}]', cut(m, list(m), r, offset=200)))
    from chython import smiles
    for x in FIXED:
        _TARGETS.append(('fixed', f'fixed:{x}', domains.parse(x)))
    for x in FIXED_RAW:
        _TARGETS.append(('fixed', f'kekule:{x}', smiles(x)))
    for x in FIXED2:
        _TARGETS.append(('fixed', f'fixed2:{x}', smiles(x)))  # as read (no kekule/thiele round): labels and radicals as the reader gives them
    # multi-component targets: unions of 2..3 small decorated molecules, identical components included
    small = [m for g, m in deco if len(m) <= 4]
    n_mc = 600 if thorough else 120
    for j in range(n_mc):
        a = r.choice(small)
        b = a if j % 4 == 0 else r.choice(small)
        u = union(a, b)
        if j % 5 == 0 and len(u) <= 6:
            u = union(u, r.choice(small[:12]))
        _TARGETS.append(('multi', f'multi{j}:{u}', u))
    # corpus fragments
    n_corp = 1500 if thorough else 200
    fmax = 14 if thorough else 12
    nfrag = 0
    for s in domains.corpus_sample(n_corp, 'b07corpus'):
        m = domains.parse(s)
        f = _fragment(m, r, r.randint(8, fmax))
        t = m.substructure(f, recalculate_hydrogens=False)
        _TARGETS.append(('corpus', f'frag:{t}', t))
        nfrag += 1
        if len(m) > 3 and nfrag % 3 == 0:  # foreign patterns from drug-like molecules too
            sub = r.choice([x for x in connected_subsets(t._bonds, 5) if len(x) >= 3])
            _POOL.append((f'cutc:{sorted(sub)}:{t}', cut(t, sub, r, offset=300)))
    # audit extension: every second target gets atom numbers that are not 1..N in insertion order
    n_scr = 0
    rs = domains.rnd('b07scramble')
    for j in range(1, len(_TARGETS), 2):
        kind, name, m = _TARGETS[j]
        _TARGETS[j] = (kind, 'renumbered:' + name, scramble(m, rs))
        n_scr += 1
    for txt in (f'audit extension, targets: every second target ({n_scr} of {len(_TARGETS)}) rebuilt with shuffled atom / bond insertion order and atom '
                f'numbers drawn from 1..2999 (gaps, descending, > 999); {len(FIXED2)} more fixed targets (radicals, explicit H, deuterium, single atoms, '
                f'N-H and charged aromatic rings, labelled centres / double bonds / allene, 3-4 components)',
                f'audit extension, patterns per target: {_N_THREE} three- or four-component patterns (<= 8 atoms); {_N_QTWIN} query twins built with '
                f'QueryContainer.add_atom(Element) / add_bond(Bond) on shuffled numbers from 5000..8999 + a copying union of three and an in-place union '
                f'of two of them; every third (target, SMARTS) pair with a copy()+remap() instance of the query (numbers from 20..899); '
                f'{len(SMARTS)} SMARTS now include masked atoms (numbers > 10**9), mapped atoms, CXSMARTS radicals, [H] / [2H], three and four components',
                'audit extension, options: filtered searches of queries go through the default `_cython` import switch (fallback path); scopes are '
                'also given as tuple with numbers that are no atoms of the target (every pair with an embedding), frozenset and dict view; the '
                'scope collection must be unchanged after the call; is_automorphic() == (get_automorphism_mapping() not empty) on every target'):
        run.bound(txt)
    for txt in (f'search contract targets: {n_atlas} decorations (C/N/O, single/double, {trials} trials) of the connected atlas graphs '
              f'<= {amax} nodes; {n_mc} multi-component targets (unions of 2-3 of them, identical components included); {nfrag} connected '
              f'fragments of 8..{fmax} atoms cut from corpus molecules (seeded); {len(FIXED) + len(FIXED_RAW)} fixed targets with charges, isotopes, a metal, salts and a Kekule ring',
              f'patterns per target: every connected induced subgraph <= 5 atoms of the target (at most {_CAP_SELF}, seeded sample above), '
              f'rebuilt with shuffled insertion order and fresh numbers; near misses of them (each bond order of ring patterns / one bond of the others toggled, one element changed; at most {_CAP_NEAR} + per target); the whole target; {_N_FOREIGN} patterns cut from other molecules '
              f'(pool of {len(_POOL)}); {_N_TWO} two-component patterns; {len(SMARTS)} SMARTS covering each primitive, rings and '
              f'multi-component queries (_cython=False)',
              'per pair: unfiltered / filtered search, six operators, 2-5 search scopes (image of an embedding, image + half of the rest as a '
              'list, all but one matched atom, two seeded subsets); reference cross-check against brute force on every '
              f'{_XCHECK}. small pair',
              f'automorphisms: every connected target above (labels = _chiral_morgan; stereo-free ones also against the independent atom key); '
              f'multi-component targets above against component-preserving automorphisms; whole-graph automorphisms of multi-component '
              f'molecules on the fixed list {MULTI_AUTO}'):
        run.bound(txt)
    sec['build_domain'] = round(time.time() - t0, 1)
    res = pmap(_target_item, range(len(_TARGETS)), chunksize=2)
    sec['search'] = round(time.time() - t0, 1)
    res += pmap(_multi_auto_item, MULTI_AUTO)
    sec['search+auto'] = round(time.time() - t0, 1)
    # ---- audit extension: stereo filter of queries, match_stereo, call sequences
    _STQ[:] = STEREO_Q
    _STT[:] = STEREO_T
    run.bound(f'stereo filter of QueryIsomorphism.get_mapping: {len(STEREO_Q)} SMARTS with @/@@ marks (first / inner atom, 3 and 4 neighbours, lists, '
              f'equal neighbours, two components, two marks), / \\ marks (one and two double bonds) and allene marks x {len(STEREO_T)} targets '
              f'(labelled / unlabelled / partly labelled centres, rings, two components of opposite configuration, dienes, allenes), every second '
              f'target re-numbered by copy()+remap() to numbers from 1..2999, every third pair with a re-numbered query instance; per pair: '
              f'unfiltered search on the target and on its mirror image, filtered search, five operators, one scope')
    res2 = pmap(_stereo_item, range(len(_STQ)))
    n_stc = 600 if thorough else 120
    rc = domains.rnd('b07stcorpus')
    marked = [x for x in domains.corpus_smiles() if ('@' in x or '/' in x or '\\' in x) and len(x) <= 60]
    _STC[:] = rc.sample(marked, min(n_stc, len(marked)))
    run.bound(f'stereo filter on corpus molecules: {len(_STC)} seeded corpus molecules whose text carries @ / \\ marks (text <= 60 characters; of '
              f'{len(marked)} such), as read by smiles(), every second one re-numbered to 1..2999, x {len(STEREO_Q_CORPUS)} generic marked SMARTS; '
              f'same clauses')
    res2 += pmap(_stereo_corpus_item, range(len(_STC)), chunksize=2)
    sec['stereo'] = round(time.time() - t0, 1)
    _MST[:] = [x for j, x in enumerate(_TARGETS) if x[0] != 'corpus' and len(x[2]) <= (10 if thorough else 9)
               and all(b.order != 4 for *_, b in x[2].bonds())]
    _N_MS = 40 if thorough else 15
    run.bound(f'match_stereo=True: {len(_MST)} non-corpus targets above without aromatic bonds (<= {10 if thorough else 9} atoms), patterns = {_N_MS} seeded '
              f'connected induced subgraphs of 2..5 atoms + the whole target, cut WITH hydrogen recalculation, rebuilt in shuffled order with numbers '
              f'from 100..998; completeness only for connected label-free patterns in label-free targets that are outside the documented gaps of C01 and recorded defect families (oracles/o01_gaps, o01_families: the comparison goes through the canonical string); {len(MS_TABLE)} whole-molecule stereo pairs '
              f'(table MS_TABLE)')
    res2 += pmap(_ms_item, range(len(_MST)), chunksize=4)
    res2 += pmap(_ms_table_item, range(len(MS_TABLE)))
    sec['match_stereo'] = round(time.time() - t0, 1)
    run.bound(f'call sequences: {len(SEQ)} scripted sequences (4 molecule patterns, 4 SMARTS; odd ones on re-numbered targets): search after each of '
              f'pattern.add_atom / add_bond / delete_bond / delete_atom / remap and target.add_bond (joining components) / delete_bond / delete_atom / '
              f'add_atom / remap (all clauses of contract 1), then three generators of the pattern consumed interleaved')
    res2 += pmap(_seq_item, range(len(SEQ)))
    sec['sequences'] = round(time.time() - t0, 1)
    res += res2
    nv = 0
    hit = set()
    for cases, keys, samples, viol in res:
        hit.update(k[2:] for k in keys if k.startswith('q:'))
        run.case(cases)
        for k in keys:
            run.case(0, key=k)
        for s in samples:
            run.case(0, sample=s)
        for v in viol:
            if nv < 40:
                run.violation(v['key'], v['what'], witness=v['witness'], native=v['native'])
            nv += 1

    run.notes['smarts_without_any_embedding_in_domain'] = [s for s in SMARTS if s not in hit]

    # ---- fixed edge cases of the scope clause
    edge_cases(run)
    empty_cases(run)
    sec['total'] = round(time.time() - t0, 1)
    import os
    if os.environ.get('B07_TIMES'):
        print('b07 seconds', sec, flush=True)


def edge_cases(run):
    """scope given as an EMPTY collection: the embeddings inside it are none"""
    t = domains.parse('CCO')
    p = domains.parse('CC')
    p.remap({1: 11, 2: 12})
    for empty, nm in ((set(), 'set()'), ([], '[]')):
        got = get_all(p, t, automorphism_filter=False, searching_scope=empty)
        run.case(1, key='scope-empty')
        if got:
            run.violation(f'scope-empty:{nm}:CC>>CCO', f'searching_scope={nm} (no atom allowed) returns {len(got)} mappings of CC into CCO; '
                          f'the embeddings inside an empty scope are none', witness={'contract': 'scope-empty', 'scope': nm}, native=got)


def empty_cases(run):
    """the pattern / the target without atoms: the only injective map of nothing is the empty map (one mapping {}, into ANY target, the empty
    one included); nothing but the empty pattern embeds into the empty target.  Key family `empty-pattern` is decided by len(pattern) == 0."""
    from chython.containers import MoleculeContainer
    from chython import smiles
    e = MoleculeContainer()
    for tn, t in (('CCO', smiles('CCO')), ('C.C', smiles('C.C')), ('', MoleculeContainer())):
        for kw in ({}, {'automorphism_filter': False}, {'searching_scope': set(t)}):
            run.case(1, key='empty-pattern')
            try:
                got = [tup(x) for x in list(e.get_mapping(t, **kw))]
                bad = None if got == [()] else f'returns {got}'
            except Exception as ex:
                got = repr(ex)
                bad = f'raised {type(ex).__name__}: {ex}'
            if bad:
                run.violation('empty-pattern', f'the empty molecule as pattern, target {tn!r}, options {sorted(kw)}: {bad}; exactly one (empty) mapping '
                              f'is the set of valid embeddings', witness={'contract': 'empty-pattern', 'target': tn, 'kw': sorted(kw)}, native=got)
        exp = {'<=': True, '<': len(t) > 0, 'is_equal': len(t) == 0, 'rev>=': True}
        try:
            nat = {'<=': e <= t, '<': e < t, 'is_equal': e.is_equal(t), 'rev>=': t >= e}
        except Exception as ex:
            nat = {'raised': repr(ex)}
        run.case(1, key='empty-pattern-ops')
        if nat != exp:
            run.violation('empty-pattern', f'the empty molecule as pattern, target {tn!r}: operators give {nat}, embeddings say {exp}',
                          witness={'contract': 'empty-pattern', 'target': tn, 'kw': ['ops']}, native=nat)
    t = MoleculeContainer()
    for pn in ('C', 'CC', 'C.O'):
        p = smiles(pn)
        run.case(1, key='empty-target')
        try:
            got = [tup(x) for x in list(p.get_mapping(t))] + [tup(x) for x in list(p.get_mapping(t, automorphism_filter=False))]
            nat = {'<=': p <= t, '<': p < t, 'is_equal': p.is_equal(t)}
            bad = None if not got and not any(nat.values()) else f'returns {got}, operators {nat}'
        except Exception as ex:
            got = repr(ex)
            bad = f'raised {type(ex).__name__}: {ex}'
        if bad:
            run.violation(f'empty-target:{pn}', f'pattern {pn} against the empty molecule: {bad}; there is no embedding',
                          witness={'contract': 'empty-target', 'pattern': pn}, native=got)
    run.case(1, key='empty-auto')
    got = list(t.get_automorphism_mapping())
    if got or t.is_automorphic():
        run.violation('empty-auto', f'automorphisms of the empty molecule: {got}', witness={'contract': 'empty-auto'}, native=got)
    run.bound('empty inputs: the empty molecule as pattern against CCO, C.C and the empty molecule (default, unfiltered, full scope; four operators); '
              'C, CC, C.O against the empty molecule; automorphisms of the empty molecule')


# ---------------------------------------------------------------------------------------------------------------- replay
def replay(rec):
    """re-run the witness natively on the current tree; True when the contract holds for it"""
    import random
    w = rec['witness']
    c = w['contract']
    if c == 'compile' and 'adjacency' in w:
        return check_compile_witness(w)
    if c == 'lazy':
        return lazy_contract(tuple([tuple(x) if isinstance(x, list) else x for x in lst] for lst in w['lists']), plain=w.get('plain', False)) is None
    if c == 'scope-empty':
        t = domains.parse('CCO')
        p = domains.parse('CC')
        p.remap({1: 11, 2: 12})
        return not get_all(p, t, automorphism_filter=False, searching_scope=set() if w['scope'] == 'set()' else [])
    if c in ('empty-pattern', 'empty-target', 'empty-auto'):
        class _R:  # tiny stand-in for Run: did any violation fire?
            tier = 'quick'

            def __init__(self):
                self.n = 0

            def case(self, *a, **k):
                pass

            def bound(self, *a):
                pass

            def violation(self, key, *a, **k):
                self.n += key == rec['key']
        rr = _R()
        empty_cases(rr)
        return not rr.n
    if c == 'ms-table':
        return not _ms_table_item(w['k'])[3]
    if c == 'seq':
        return not _seq_item(w['k'])[3]
    t = load_mol(w['target'])
    out = [0, [], [], []]
    if c == 'stereo':
        stereo_contract(load_pat(w['pattern']), t, random.Random(0), 'p', 't', out)
        return not out[3]
    if c == 'ms':
        ms_contract(load_mol(w['pattern']), t, 'p', 't', out, w['complete'])
        return not out[3]
    if c in ('auto', 'auto-within'):
        auto_contract(t, 'replay', out, whole=c == 'auto')
        return not out[3]
    p = load_pat(w['pattern'])
    if 'scope' in w:
        s = set(w['scope'])
        exp = {e for e in o07_ref.embeddings(p, t) if all(v in s for _, v in e)}
        got = get_all(p, t, automorphism_filter=False, searching_scope=s)
        gf = get_all(p, t, searching_scope=s)
        fi = [frozenset(v for _, v in x) for x in gf]
        return Counter(got) == Counter(exp) and len(set(fi)) == len(fi) and set(fi) == {frozenset(v for _, v in x) for x in exp}
    pair_contracts(p, t, random.Random(0), 'p', 't', False, out)
    return not out[3]
