"""C07 bounded stand-in (engine B): substructure search returns exactly the set of valid embeddings.

Contracts (DESIGN §2 C07), all evaluated on the REAL functions of the tree under verification:

 (1) search semantics, pattern p (molecule or query) against target molecule t, reference R = oracles.o07_ref.embeddings(p, t)
     (exhaustive backtracking, same semantics as the brute force oracles.iso.embeddings; the two are cross-checked on small pairs):
       all      multiset(p.get_mapping(t, automorphism_filter=False)) == R   (nothing missing, nothing extra, no duplicate)
       filter   p.get_mapping(t) yields members of R, pairwise different image sets, and every image set of R exactly once
       scope    p.get_mapping(t, searching_scope=S, automorphism_filter=False) == {e in R : image(e) subset of S}, S given as
                set or list; + filtered variant
       ops      p <= t, p.is_substructure(t), t >= p  <=>  R != {} ;  p < t, t > p  <=>  R != {} and len(p) < len(t) ;
                p.is_equal(t)  <=>  R != {} and len(p) == len(t)
       auto     multiset(m.get_automorphism_mapping()) == non-identity automorphisms of the graph whose atom labels are the
                library's own atom classes `m._chiral_morgan` (that is the key `_get_automorphism_mapping` receives) and whose
                bonds are compared by ==.  For stereo-free molecules additionally == automorphisms under the independent atom key
                (element, isotope, charge, radical, implicit H) of oracles.iso.
 (2) `_compile_query(atoms, bonds)`: every atom exactly once over all component orders; one order per connected component;
     first entry (start, None, atom, None); every later entry (front, back, atoms[front], bonds[back][front]) has `back` earlier
     in the same order; every bond is a tree edge or recorded exactly once as a closure (front -> earlier atom) with the right
     bond object - never both, never twice.
 (3) `lazy_product(*gens)`: multiset equal to itertools.product for <= 3 one-shot generators of <= 4 items (empty ones
     included, repeated values included), 4 generators of <= 3 items, and plain re-iterable arguments (lists / tuples / ranges);
     lazy: when the k-th tuple is produced no generator has been asked for more than k items.

Coverage audit extension (same contracts, wider domain; every addition has its own run.bound line):
  * targets whose atom numbers are NOT 1..N in insertion order (seeded sample of 1..2999: gaps, descending, > 999; atoms and bonds
    inserted in shuffled order); radicals, explicit hydrogens, deuterium, charged aromatic rings, stereo labels among the fixed targets;
  * patterns: 3- and 4-component patterns (more components than the target has included), queries built through the public
    QueryContainer.add_atom(Element) / add_bond(Bond) API on sparse shuffled numbers, SMARTS instances re-numbered with remap(),
    masked / mapped / radical / isotope / hydrogen SMARTS, in-place unions of queries; the EMPTY pattern and the EMPTY target;
  * options: the default `_cython` switch of QueryIsomorphism.get_mapping (import fallback), scopes given as tuple / frozenset / dict
    view and with numbers that are not atoms of the target, `match_stereo=True` of MoleculeIsomorphism.get_mapping, `is_automorphic`;
  * stereo filter of QueryIsomorphism.get_mapping (clause `stereo`): the returned mappings are members of the stereo-blind reference
    set without duplicates; a mapping never survives on a target AND on its mirror image (every atom / bond label inverted); for a
    query with ONE stereo mark the two result sets partition the reference embeddings whose image of the marked atom / bond carries a
    label; the filtered search keeps exactly one mapping per image set of the unfiltered result; scope and operators agree;
  * `match_stereo=True` (clause `ms`): every mapping is a reference embedding, filtered ones have pairwise different image sets,
    unfiltered ones are pairwise different; for label-free connected patterns cut WITH hydrogen recalculation from a label-free target
    the image sets (filtered) and the mapping set (unfiltered) equal the reference's; a fixed table of whole-molecule stereo pairs
    (enantiomers do not match, identical and meso forms do);
  * call sequences (clause `seq`): search - edit pattern or target through the public editing API - search again (cached linear
    order / connected components must follow the edit); two and three generators of one pattern consumed interleaved.
"""
import itertools
import json
from collections import Counter

from vlib import env
from vlib.report import pmap
from bounded import domains
from oracles import iso, o07_ref

RULE = ('bounded: library mapping multisets == exhaustive reference enumerator on enumerated (pattern, target) pairs; '
        '_compile_query structural contract on every graph of the atlas; lazy_product == itertools.product on all small shapes')

# one pattern per supported primitive (files/daylight/smarts.py docstring), plus combinations, rings and multi-component queries
SMARTS = ['[C;D2]', '[N,O]', '[A]', '[C;r5,r6]', 'C-,=C', 'C-;!@C', 'C-;@C', 'C=;!@[A]', '[C;z2]', '[C;z1;x1]', '[C;h1,h2]',
          '[C;h0]', '[C;a]', '[N;a]', 'C:C', 'C=,:C', '[O;D1]=C', '[C;!R]', '[A;D3]', '[N;+]', '[O;-]', '[C;x2]', '[C,N;D2;r6]',
          'C=[A]', '[C;z2]=[O,N]', 'C#N', '[C;r3]', '[C;r4]', '[C;z3]', '[C;z4]', 'C!-C', 'C!=C', '[C;D3]([A])([A])[A]',
          '[A]-[A]-[A]', '[A]=[A]-[A]', '[N,O;D1]-[C;D2,D3]', '[C;D2][C;D2][C;D2]', '[O,N;x0;z1]C', '[C;D1;h3]C',
          'C1CC1', 'C1CCC1', '[A]1-[A]-[A]-[A]-[A]1', 'C1=CC=CC=C1', 'C:1:C:C:C:C:C1', '[C,N]1[A][A]1', 'C1C[N,O]C1',
          '[M]', '[M]-C', '[13C]', '[13C]C',
          '[C;D2].[O;D1]', '[N,O].[N,O]', '[A].[A]', 'CC.CC', 'C=C.[N,O]', '[C;D1]-[C;D2].[C;D1]-[A;D3]', 'C1CC1.C',
          # audit extension: masked atoms (numbers > 10**9), mapped atoms (numbers given by the text), CXSMARTS radicals, hydrogen and
          # deuterium atoms, three and four components
          '[C;M]', '[C;M]-[O,N]', '[C:7]-[A:3]', '[C:12][C:5][A:9]', '[C;D1] |^1:0|', 'C-[C] |^1:1|', '[H]', '[H]C', '[2H]', '[2H]C',
          '[C;a]:[N;a;+]', '[N;a;h1]', '[A].[A].[A]', '[C;D1].[O,N].[C;D2]', 'CC.[O;D1].[N,O]', '[A].[A].[A].[A]']

# whole-graph automorphism contract on molecules with several components is evaluated on this fixed list (see bounded())
MULTI_AUTO = ['C.C', 'CC.CC', 'C1CC1.C1CC1', 'CO.CO', 'C.CC', 'CO.CC', 'CC.CCC', 'CN.CO', 'C=C.CC']

# fixed targets: charges, isotope, metal, a Kekule ring that is not aromatised, salts
FIXED = ['C[N+](C)(C)C', 'CC(=O)[O-]', '[O-][N+](=O)c1ccccc1', 'c1ccccc1C', 'C[13CH2]C', '[13CH3]C.C[13CH3]', 'C#N.CC#N', '[Na+].[Cl-]', 'C[Mg]Br',
         'C[N+](C)(C)C.CC(=O)[O-]', 'NC(=O)C1CC1', 'C[Li].C[Li]']
FIXED_RAW = ['C1=CC=CC=C1', 'C1=CC=CC=C1.C1=CC=CC=C1']  # parsed without thiele(): Kekule form kept
# audit extension: radicals, explicit hydrogens, deuterium, single atoms, charged / N-H aromatic rings, labelled stereo centres and double
# bonds, an allene, three and four components
FIXED2 = ['C[CH2]', 'C[CH]C', '[CH3].[CH3]', 'C[CH2].CC', '[H]C([H])([H])O', '[2H]C([2H])O', '[H][H]', '[H]O[H].O', 'O', '[NH4+]', '[H+].[OH-]',
          'c1cc[nH]c1', 'C[n+]1ccccc1', '[O-][n+]1ccccc1', 'c1ccncc1.c1cc[nH]c1', 'C[C@H](N)O', 'C[C@H](N)O.C[C@@H](N)O', 'C/C=C/C',
          'C/C=C\\C.C/C=C/C', 'CC=[C@]=CC', 'C[C@H](O)[C@@H](O)C', 'C.C.C', 'C.CC.C', 'CO.CN.CO', 'C.C.C.C', 'CC.O.N.CC', 'C[S+](C)[O-]',
          'C[Zn]C', '[Cu+2].[O-]C=O.[O-]C=O']

MAXV = 6  # violations reported per work item


# ---------------------------------------------------------------------------------------------------------------- helpers
def dump_mol(m):
    return {'kind': 'mol',
            'atoms': [[n, a.atomic_symbol, a.isotope, a.charge, a.is_radical, a.implicit_hydrogens, a.stereo] for n, a in m.atoms()],
            'bonds': [[n, k, b.order, b.stereo] for n, k, b in m.bonds()], 'smiles': str(m)}


def load_mol(d):
    from chython.containers import MoleculeContainer
    from chython.containers.bonds import Bond
    from chython.periodictable import Element
    m = MoleculeContainer()
    for n, sym, iso_, ch, rad, h, st in d['atoms']:
        m.add_atom(Element.from_symbol(sym)(iso_, charge=ch, is_radical=rad, implicit_hydrogens=h, stereo=st), n,
                   _skip_calculation=True)
    for n, k, o, st in d['bonds']:
        b = Bond(o)
        b._stereo = st
        m.add_bond(n, k, b, _skip_calculation=True)
    m.calc_labels()
    m._changed = None
    return m


def dump_pat(p):
    from chython.containers import QueryContainer
    if isinstance(p, QueryContainer):
        return {'kind': 'smarts', 'smarts': str(p)}
    return dump_mol(p)


def load_pat(d):
    if d['kind'] == 'smarts':
        from chython import smarts
        return smarts(d['smarts'])
    return load_mol(d)


def tup(mp):
    return tuple(sorted(mp.items()))


def get_all(p, t, **kw):
    from chython.containers import QueryContainer
    if isinstance(p, QueryContainer):
        kw['_cython'] = False
    # collect the yielded dict objects FIRST and convert afterwards: a caller that keeps the results must see distinct, final mappings
    # (a generator that reuses / mutates a yielded dict is a defect that eager conversion would hide)
    got = list(p.get_mapping(t, **kw))
    return [tup(x) for x in got]


def connected_subsets(bonds, kmax):
    """every connected vertex subset with <= kmax atoms (simple growth with de-duplication)"""
    seen = set()
    layer = {frozenset((n,)) for n in bonds}
    out = []
    while layer:
        out.extend(layer)
        seen |= layer
        nxt = set()
        for s in layer:
            if len(s) >= kmax:
                continue
            for n in s:
                for k in bonds[n]:
                    if k not in s:
                        f = s | {k}
                        if f not in seen:
                            nxt.add(f)
        layer = nxt
    return sorted(out, key=lambda s: (len(s), sorted(s)))


def cut(t, subset, r, offset=100):
    """pattern molecule = induced subgraph of t on subset: independent rebuild with shuffled insertion order and fresh numbers"""
    sub = t.substructure(subset, recalculate_hydrogens=False)
    p = domains.rebuild(sub, r, keep_stereo=False)
    nums = list(p)
    new = [offset + i for i in range(len(nums))]
    r.shuffle(new)
    p.remap(dict(zip(nums, new)))
    return p


def union(p1, p2):
    """disjoint union of two molecules (second one renumbered above the first)"""
    q = p2.copy()
    top = max(max(p1), max(p2)) + 1
    q.remap({n: top + i for i, n in enumerate(list(q))})
    return p1.union(q)


def has_ring(p):
    return sum(len(x) for x in p._bonds.values()) // 2 >= len(p._atoms) - len(set(o07_ref.components(p._bonds).values())) + 1


# ------------------------------------------------------------------------------------------------ contract (2) _compile_query
def compiled_contract(atoms, bonds, components, closures):
    """returns None or a text describing the broken clause"""
    comp = o07_ref.components(bonds)
    visited = [e[0] for order in components for e in order]
    if sorted(visited, key=repr) != sorted(atoms, key=repr) or len(set(visited)) != len(visited):
        return f'linear orders visit {visited}, atoms are {list(atoms)}'
    if len(components) != len(set(comp.values())):
        return f'{len(components)} orders for {len(set(comp.values()))} connected components'
    tree = set()
    pos = {}
    for order in components:
        if len({comp[e[0]] for e in order}) != 1:
            return 'one linear order spans several connected components'
        first = order[0]
        if not (len(first) == 4 and first[1] is None and first[3] is None and first[2] is atoms[first[0]]):
            return f'bad first entry {first!r}'
        for i, e in enumerate(order):
            pos[e[0]] = i
        for i, (front, back, atom, bond) in enumerate(order[1:], 1):
            if back not in pos or comp[back] != comp[front] or pos[back] >= i or back not in {x[0] for x in order[:i]}:
                return f'back reference {back} of {front} does not precede it'
            if front not in bonds[back] or bonds[back][front] is not bond:
                return f'entry {front}: back reference {back} is not bonded to it with the recorded bond'
            if atom is not atoms[front]:
                return f'entry {front} carries a foreign atom object'
            tree.add(frozenset((front, back)))
    clos = Counter()
    for front, lst in closures.items():
        for n, bond in lst:
            if n not in bonds.get(front, {}) or bonds[front][n] is not bond:
                return f'closure {front}-{n} is not a bond of the graph / wrong bond object'
            if comp[n] != comp[front] or pos[n] >= pos[front]:
                return f'closure {front}->{n} points to an atom that is not earlier in the order'
            clos[frozenset((front, n))] += 1
    for n, ms in bonds.items():
        for m in ms:
            e = frozenset((n, m))
            c = clos.get(e, 0) + (e in tree)
            if c != 1:
                return f'bond {n}-{m}: tree edge {e in tree}, recorded {clos.get(e, 0)} times as closure'
    return None


def _cq_item(i):
    from chython.algorithms.isomorphism import _compile_query
    g, tag = _GRAPHS[i]
    r = domains.rnd(f'b07cq{i}')
    nodes = list(g.nodes)
    n = len(nodes)
    if n <= 4:
        orders = [list(p) for p in itertools.permutations(nodes)]
    else:
        orders = [nodes] + [r.sample(nodes, n) for _ in range(_NORD)]
    cases, keys, samples, viol = 0, [], [], []
    edges = sorted(tuple(sorted(e)) for e in g.edges)
    for od in orders:
        lab = {v: 10 + j for j, v in enumerate(od)}  # numbers unrelated to insertion order
        r.shuffle(od)
        atoms = {lab[v]: ('atom', lab[v]) for v in od}
        bonds = {a: {} for a in atoms}
        obj = {}
        es = list(g.edges)
        r.shuffle(es)
        for a, b in es:
            bo = ['bond', lab[a], lab[b]]
            bonds[lab[a]][lab[b]] = bo
            bonds[lab[b]][lab[a]] = bo
        try:
            components, closures = _compile_query(atoms, bonds)
            bad = compiled_contract(atoms, bonds, components, closures)
        except Exception as e:  # the contract says: total on every finite graph
            bad = f'raised {type(e).__name__}: {e}'
            components = closures = None
        cases += 1
        if bad and len(viol) < MAXV:
            viol.append({'key': f'compile_query:{tag}:atoms={list(atoms)}:adj={[(a, list(b)) for a, b in bonds.items()]}',
                         'what': f'_compile_query contract broken on graph {tag}: {bad}',
                         'witness': {'contract': 'compile', 'atoms': list(atoms), 'adjacency': [[a, list(b)] for a, b in bonds.items()]},
                         'native': {'components': repr(components)[:600], 'closures': repr(dict(closures or {}))[:600]}})
    cyc = len(edges) - n + len(list(__import__('networkx').connected_components(g)))
    if cyc > 0 or len(edges) < n - 1 or n > 1 and not edges:
        keys.append(f'cq:{tag}')  # non-trivial: has a ring closure or several components
    if i % 97 == 0:
        samples.append({'contract': 'compile_query', 'graph': tag, 'edges': edges, 'orders': len(orders)})
    return cases, keys, samples, viol


def check_compile_witness(w):
    from chython.algorithms.isomorphism import _compile_query
    atoms = {a: ('atom', a) for a in w['atoms']}
    bonds = {a: {} for a in atoms}
    for a, nb in w['adjacency']:
        for b in nb:
            if a in bonds[b]:
                bonds[a][b] = bonds[b][a]
            else:
                bonds[a][b] = ['bond', a, b]
    try:
        return compiled_contract(atoms, bonds, *_compile_query(atoms, bonds)) is None
    except Exception:
        return False


# ------------------------------------------------------------------------------------------------- contract (3) lazy_product
def lazy_contract(lists):
    """None or text; lists: tuple of lists of items"""
    from chython._functions import lazy_product
    pulls = [0] * len(lists)

    def gen(i, lst):
        for x in lst:
            pulls[i] += 1
            yield x
    got = []
    try:
        for k, x in enumerate(lazy_product(*(gen(i, lst) for i, lst in enumerate(lists))), 1):
            if not isinstance(x, tuple):
                return f'yields {type(x).__name__}, not tuple'
            got.append(x)
            if any(p > k for p in pulls):
                return f'not lazy: {pulls} items pulled when tuple {k} was produced'
            if len(got) > 200:
                return 'more than 200 tuples'
    except Exception as e:
        return f'raised {type(e).__name__}: {e}'
    exp = list(itertools.product(*lists))
    if Counter(got) != Counter(exp):
        miss = list((Counter(exp) - Counter(got)).elements())[:4]
        extra = list((Counter(got) - Counter(exp)).elements())[:4]
        return f'{len(got)} tuples, itertools.product has {len(exp)}; missing {miss} extra {extra}'
    return None


def lazy_part(run):
    n = 0
    nv = [0]

    def violation(*a, **k):
        nv[0] += 1
        if nv[0] <= 40:
            run.violation(*a, **k)
    for k in range(0, 4):
        # all shapes, distinct items
        for shape in itertools.product(range(0, 5), repeat=k):
            lists = tuple([(i, j) for j in range(s)] for i, s in enumerate(shape))
            bad = lazy_contract(lists)
            n += 1
            nt = k >= 2 and all(shape) and max(shape) > 1
            run.case(1, key=f'lazy:{shape}' if nt else None,
                     sample={'contract': 'lazy_product', 'shape': shape} if shape in ((2, 3), (4, 1, 3)) else None)
            if bad:
                violation(f'lazy_product:shape={list(shape)}', f'lazy_product over generators of sizes {shape}: {bad}',
                              witness={'contract': 'lazy', 'lists': lists}, native=bad)
        # repeated values: every list over {0, 1} with <= 3 items
        pool = [list(x) for ln in range(0, 4) for x in itertools.product((0, 1), repeat=ln)]
        if k:
            for lists in itertools.product(pool, repeat=k):
                bad = lazy_contract(lists)
                n += 1
                run.case(1)
                if bad:
                    violation(f'lazy_product:values={json.dumps(lists)}', f'lazy_product over {lists}: {bad}',
                                  witness={'contract': 'lazy', 'lists': lists}, native=bad)
    run.bound(f'lazy_product: every shape of <= 3 one-shot generators with 0..4 distinct items each (156 shapes) and every tuple of <= 3 '
              f'lists over {{0,1}} with <= 3 items (repeated values): {n} calls, exhaustive')


# ---------------------------------------------------------------------------------------------------- contract (1) matching
def pair_contracts(p, t, r, pname, tname, xcheck, out, scopes=True):
    """evaluate every clause of contract (1) for one pair; appends to out = [cases, keys, samples, viol]"""
    from chython.containers import QueryContainer
    isq = isinstance(p, QueryContainer)
    ref = o07_ref.embeddings(p, t)
    if xcheck:
        brute = o07_ref.brute_embeddings(p, t) if isq else iso.embeddings(p, t)
        if brute != ref:  # harness error, never a violation
            raise RuntimeError(f'reference enumerators disagree on {pname} >> {tname}: {len(brute)} vs {len(ref)}')
    viol = out[3]

    def fire(clause, what, native, **extra):
        if len(viol) < MAXV:
            viol.append({'key': f'{clause}:{pname}>>{tname}' + (':scope=' + ','.join(map(str, sorted(extra['scope']))) if 'scope' in extra else ''),
                         'what': f'{clause}: pattern {pname} target {tname}: {what}',
                         'witness': {'contract': clause, 'pattern': dump_pat(p), 'target': dump_mol(t), **{k: sorted(v) for k, v in extra.items()}},
                         'native': native})

    def differ(got, exp):
        c = Counter(got)
        dup = [k for k, v in c.items() if v > 1]
        miss = exp - set(c)
        extra = set(c) - exp
        if dup or miss or extra:
            return (f'{len(got)} mappings returned, reference has {len(exp)}; missing {sorted(miss)[:3]} spurious {sorted(extra)[:3]} '
                    f'duplicated {dup[:3]}')

    # all
    try:
        got = get_all(p, t, automorphism_filter=False)
    except Exception as e:
        got = None
        fire('all', f'raised {type(e).__name__}: {e}', repr(e))
    if got is not None:
        d = differ(got, ref)
        if d:
            fire('all', d, got[:20])
    out[0] += 1
    # filter
    try:
        gotf = get_all(p, t)
    except Exception as e:
        gotf = None
        fire('filter', f'raised {type(e).__name__}: {e}', repr(e))
    if gotf is not None:
        imgs = [frozenset(v for _, v in x) for x in gotf]
        rimgs = {frozenset(v for _, v in x) for x in ref}
        if any(x not in ref for x in gotf):
            fire('filter', 'a filtered mapping is not a valid embedding', gotf[:20])
        elif len(set(imgs)) != len(imgs):
            fire('filter', f'{len(imgs)} filtered mappings but only {len(set(imgs))} distinct image sets', gotf[:20])
        elif set(imgs) != rimgs:
            fire('filter', f'{len(set(imgs))} image sets returned, reference has {len(rimgs)}', gotf[:20])
    out[0] += 1
    # operators
    n, k, some = len(p), len(t), bool(ref)
    exp = {'<=': some, 'is_substructure': some, '<': some and n < k, 'is_equal': some and n == k, 'rev>=': some, 'rev>': some and n < k}
    try:
        nat = {'<=': p <= t, 'is_substructure': p.is_substructure(t), '<': p < t, 'is_equal': p.is_equal(t), 'rev>=': t >= p, 'rev>': t > p}
    except Exception as e:
        nat = {'raised': repr(e)}
    if nat != exp:
        fire('ops', f'operators give {nat}, embeddings say {exp}', nat)
    out[0] += 1
    # scope
    if scopes:
        tn = list(t)
        ss = []
        if ref:
            e0 = min(ref)
            img = [v for _, v in e0]
            ss.append(set(img))                                            # exactly one image
            rest = [x for x in tn if x not in img]
            if rest:
                ss.append(img + r.sample(rest, max(1, len(rest) // 2)))    # list on purpose: any collection is accepted
                ss.append(set(tn) - {r.choice(img)})                       # everything but one matched atom
        ss.append(set(r.sample(tn, max(1, (len(tn) * 3) // 5))))
        ss.append([x for x in tn if r.random() < .5] or [tn[0]])
        for s in ss:
            sset = set(s)
            expd = {e for e in ref if all(v in sset for _, v in e)}
            try:
                gs = get_all(p, t, automorphism_filter=False, searching_scope=s)
                gf = get_all(p, t, searching_scope=s)
            except Exception as e:
                fire('scope', f'raised {type(e).__name__}: {e}', repr(e), scope=sset)
                continue
            d = differ(gs, expd)
            if d:
                fire('scope', d, gs[:20], scope=sset)
            else:
                fi = [frozenset(v for _, v in x) for x in gf]
                if any(x not in expd for x in gf) or len(set(fi)) != len(fi) or set(fi) != {frozenset(v for _, v in x) for x in expd}:
                    fire('scope-filter', f'filtered search in scope: {len(gf)} mappings / {len(set(fi))} image sets, reference has '
                                         f'{len({frozenset(v for _, v in x) for x in expd})}', gf[:20], scope=sset)
            out[0] += 1
    if len(p) >= 2 and ref:
        out[1].append(f'{pname}>>{tname}')
        if has_ring(p):
            out[1].append(f'ring:{pname}>>{tname}')
        if len(set(o07_ref.components(p._bonds).values())) > 1:
            out[1].append(f'multi:{pname}>>{tname}')
    # compiled form of this very pattern obeys contract (2)
    bad = compiled_contract(p._atoms, p._bonds, *p._compiled_query)
    if bad:
        fire('compile', bad, repr(p._compiled_query)[:600])
    return ref


def auto_contract(m, name, out, whole=True):
    """get_automorphism_mapping vs reference; whole=False: only automorphisms that map every component onto itself are expected"""
    keys = dict(m._chiral_morgan)
    try:
        got = [tup(x) for x in m.get_automorphism_mapping()]
    except Exception as e:
        got = None
        bad = f'raised {type(e).__name__}: {e}'
    if got is not None:
        ref = o07_ref.automorphisms(keys, m._bonds)
        if not whole:
            comp = o07_ref.components(m._bonds)
            ref = [x for x in ref if all(comp[a] == comp[b] for a, b in x.items())]
        ref = {tup(x) for x in ref}
        c = Counter(got)
        bad = None
        if set(c) != ref or any(v > 1 for v in c.values()):
            bad = (f'{len(got)} mappings returned ({len(set(got))} distinct), reference has {len(ref)} non-identity automorphisms; '
                   f'missing {sorted(ref - set(c))[:2]} spurious {sorted(set(c) - ref)[:2]}')
        elif whole and not any(a.stereo is not None for _, a in m.atoms()) and not any(b.stereo is not None for *_, b in m.bonds()):
            k2 = {n: iso.atom_key(a) for n, a in m.atoms()}
            ref2 = {tup(x) for x in o07_ref.automorphisms(k2, m._bonds)}
            if ref2 != ref:
                bad = (f'atom classes are not the constitutional symmetry classes: {len(ref)} automorphisms under _chiral_morgan labels, '
                       f'{len(ref2)} under (element, isotope, charge, radical, H)')
        if not bad and ref:
            out[1].append(f'auto:{name}')
    out[0] += 1
    if bad and len(out[3]) < MAXV:
        out[3].append({'key': f'auto{"" if whole else "-within"}:{name}', 'what': f'get_automorphism_mapping of {name}: {bad}',
                       'witness': {'contract': 'auto' if whole else 'auto-within', 'target': dump_mol(m)},
                       'native': (got or [])[:20]})


def _target_item(i):
    from chython import smarts
    kind, name, t = _TARGETS[i]
    r = domains.rnd(f'b07t{i}')
    out = [0, [], [], []]
    tname = f'{name}[{",".join(map(str, t))}]'
    multi = len(set(o07_ref.components(t._bonds).values())) > 1
    small = len(t) <= 7
    # (a) patterns cut from the target itself: every connected induced subgraph <= 5 atoms (sampled above the cap)
    subs = connected_subsets(t._bonds, 5)
    if len(subs) > _CAP_SELF:
        subs = r.sample(subs, _CAP_SELF)
    pats = []
    for s in subs:
        p = cut(t, s, r)
        pats.append((f'cut{sorted(s)}:{p}[{",".join(map(str, p))}]', p))
    # near misses: one bond order (every bond of ring patterns: second and later closures matter) or one element changed
    near = []
    for pn, p in pats:
        if len(p) < 2:
            continue
        d = dump_mol(p)
        ring = has_ring(p)
        idx = list(range(len(d['bonds']))) if ring else [r.randrange(len(d['bonds']))]
        if len(near) > _CAP_NEAR:
            break
        for j in idx:
            d2 = {**d, 'bonds': [list(x) for x in d['bonds']]}
            d2['bonds'][j][2] = 2 if d2['bonds'][j][2] == 1 else 1
            near.append((f'near-bond{j}:{pn}', load_mol(d2)))
        j = r.randrange(len(d['atoms']))
        d3 = {**d, 'atoms': [list(x) for x in d['atoms']]}
        d3['atoms'][j][1] = 'N' if d3['atoms'][j][1] == 'C' else 'C'
        near.append((f'near-atom{j}:{pn}', load_mol(d3)))
    pats.extend(near)
    # whole target against itself (is_equal positive branch)
    pats.append((f'self:{t}', cut(t, list(t), r)))
    # (b) patterns cut from other molecules
    for j in r.sample(range(len(_POOL)), min(_N_FOREIGN, len(_POOL))):
        pn, p = _POOL[j]
        if len(p) <= len(t) + 1:
            pats.append((pn, p))
    # (c) two-component patterns: pairs of small patterns (from the target and from the pool)
    sm = [x for x in pats if len(x[1]) <= 3]
    for _ in range(_N_TWO):
        if len(sm) < 2:
            break
        (n1, p1), (n2, p2) = r.choice(sm), r.choice(sm)
        pats.append((f'{n1} . {n2}', union(p1, p2)))
    nx = 0
    for pn, p in pats:
        ref = pair_contracts(p, t, r, pn, tname, small and len(p) <= 5 and (nx % _XCHECK == 0), out)
        nx += 1
        if i % 37 == 0 and nx == 3:
            out[2].append({'contract': 'search', 'pattern': pn, 'target': tname, 'embeddings': len(ref)})
    # (d) queries
    for s in SMARTS:
        q = smarts(s)
        if len(q) > len(t) + 1:
            continue
        ref = pair_contracts(q, t, r, f'smarts({s})', tname, small and len(q) <= 5 and (nx % _XCHECK == 0), out, scopes=bool(nx % 2))
        nx += 1
        if ref:
            out[1].append(f'q:{s}')
    # automorphisms
    auto_contract(t, tname, out, whole=not multi)
    return tuple(out)


def _multi_auto_item(s):
    m = domains.parse(s)
    out = [0, [], [], []]
    auto_contract(m, s, out, whole=True)
    return tuple(out)


def _fragment(m, r, size):
    """connected induced fragment of about `size` atoms grown from a random atom"""
    start = r.choice(list(m))
    got = {start}
    frontier = [start]
    while frontier and len(got) < size:
        x = frontier.pop(r.randrange(len(frontier)))
        for y in m._bonds[x]:
            if y not in got and len(got) < size:
                got.add(y)
                frontier.append(y)
    return got


# ---------------------------------------------------------------------------------------------------------------- driver
_TARGETS = []
_POOL = []
_GRAPHS = []
_CAP_SELF = 30
_N_FOREIGN = 12
_N_TWO = 6
_XCHECK = 3
_NORD = 12
_CAP_NEAR = 60


def bounded(run):
    global _CAP_SELF, _N_FOREIGN, _N_TWO, _XCHECK, _NORD, _CAP_NEAR
    env.setup()
    import networkx as nx
    thorough = run.tier == 'thorough'
    run.assume('oracles/o07_ref.py: exhaustive backtracking enumerator of embeddings / automorphisms (pruning by the pairwise conditions only); '
               'cross-checked in this run against the permutation brute force oracles/iso.py::embeddings (queries: the same loop with flood-fill '
               'components, o07_ref.brute_embeddings) on pairs with target <= 7 and pattern <= 5 atoms',
               'atom and bond predicates are taken from the public == of the tree under verification (predicate semantics is C08/C09 business, '
               'search semantics is C07)',
               'queries are matched with _cython=False; the compiled matcher is not installed (operators fall back to the Python matcher)')

    import time
    t0 = time.time()
    sec = run.notes.setdefault('seconds', {})
    # ---- (3)
    lazy_part(run)
    sec['lazy_product'] = round(time.time() - t0, 1)

    # ---- (2)
    _NORD = 60 if thorough else 12
    gmax = 7 if thorough else 6
    from networkx.generators.atlas import graph_atlas_g
    _GRAPHS[:] = [(g, g.name or f'G{i}') for i, g in enumerate(graph_atlas_g()) if 1 <= g.number_of_nodes() <= gmax]
    n_multi = sum(1 for g, _ in _GRAPHS if not nx.is_connected(g))
    run.bound(f'_compile_query: every graph of the atlas with 1..{gmax} nodes ({len(_GRAPHS)} graphs, {n_multi} of them disconnected = '
              f'multi-component), all insertion orders for <= 4 nodes, identity + {_NORD} seeded shuffles of atom and neighbour insertion '
              f'order otherwise; plus the compiled form of every pattern used in the search contract')
    ncq = 0
    for cases, keys, samples, viol in pmap(_cq_item, range(len(_GRAPHS)), chunksize=8):
        run.case(cases)
        for k in keys:
            run.case(0, key=k)
        for s in samples:
            run.case(0, sample=s)
        for v in viol:
            ncq += 1
            if ncq <= 40:
                run.violation(v['key'], v['what'], witness=v['witness'], native=v['native'])

    sec['compile_query'] = round(time.time() - t0, 1)
    # ---- (1) targets
    r = domains.rnd('b07')
    amax = 7 if thorough else 6
    trials = 5 if thorough else 4
    _CAP_SELF = 200 if thorough else 60
    _N_FOREIGN = 40 if thorough else 16
    _N_TWO = 16 if thorough else 8
    _XCHECK = 1 if thorough else 3
    _CAP_NEAR = 300 if thorough else 60
    kw = dict(elements=('C', 'C', 'N', 'O'), p_double=.3, p_triple=0.)
    _TARGETS.clear()
    _POOL.clear()
    deco = [(g, m) for g, el, od, m in domains.decorated_atlas(amax, trials, tag='b07atlas', valid_only=False, **kw)]
    for g, m in deco:
        _TARGETS.append(('atlas', f'{g.name}:{m}', m))
    n_atlas = len(_TARGETS)
    # foreign pattern pool: decorated atlas molecules <= 5 atoms (whole molecule = connected induced subgraph of itself) and cuts of them
    for g, m in deco:
        if len(m) <= 5:
            _POOL.append((f'mol:{m}[{",".join(map(str, m))}]', cut(m, list(m), r, offset=200)))
    from chython import smiles
    for x in FIXED:
        _TARGETS.append(('fixed', f'fixed:{x}', domains.parse(x)))
    for x in FIXED_RAW:
        _TARGETS.append(('fixed', f'kekule:{x}', smiles(x)))
    # multi-component targets: unions of 2..3 small decorated molecules, identical components included
    small = [m for g, m in deco if len(m) <= 4]
    n_mc = 600 if thorough else 120
    for j in range(n_mc):
        a = r.choice(small)
        b = a if j % 4 == 0 else r.choice(small)
        u = union(a, b)
        if j % 5 == 0 and len(u) <= 6:
            u = union(u, r.choice(small[:12]))
        _TARGETS.append(('multi', f'multi{j}:{u}', u))
    # corpus fragments
    n_corp = 1500 if thorough else 200
    fmax = 14 if thorough else 12
    nfrag = 0
    for s in domains.corpus_sample(n_corp, 'b07corpus'):
        m = domains.parse(s)
        f = _fragment(m, r, r.randint(8, fmax))
        t = m.substructure(f, recalculate_hydrogens=False)
        _TARGETS.append(('corpus', f'frag:{t}', t))
        nfrag += 1
        if len(m) > 3 and nfrag % 3 == 0:  # foreign patterns from drug-like molecules too
            sub = r.choice([x for x in connected_subsets(t._bonds, 5) if len(x) >= 3])
            _POOL.append((f'cutc:{sorted(sub)}:{t}', cut(t, sub, r, offset=300)))
    for txt in (f'search contract targets: {n_atlas} decorations (C/N/O, single/double, {trials} trials) of the connected atlas graphs '
              f'<= {amax} nodes; {n_mc} multi-component targets (unions of 2-3 of them, identical components included); {nfrag} connected '
              f'fragments of 8..{fmax} atoms cut from corpus molecules (seeded); {len(FIXED) + len(FIXED_RAW)} fixed targets with charges, isotopes, a metal, salts and a Kekule ring',
              f'patterns per target: every connected induced subgraph <= 5 atoms of the target (at most {_CAP_SELF}, seeded sample above), '
              f'rebuilt with shuffled insertion order and fresh numbers; near misses of them (each bond order of ring patterns / one bond of the others toggled, one element changed; at most {_CAP_NEAR} + per target); the whole target; {_N_FOREIGN} patterns cut from other molecules '
              f'(pool of {len(_POOL)}); {_N_TWO} two-component patterns; {len(SMARTS)} SMARTS covering each primitive, rings and '
              f'multi-component queries (_cython=False)',
              'per pair: unfiltered / filtered search, six operators, 2-5 search scopes (image of an embedding, image + half of the rest as a '
              'list, all but one matched atom, two seeded subsets); reference cross-check against brute force on every '
              f'{_XCHECK}. small pair',
              f'automorphisms: every connected target above (labels = _chiral_morgan; stereo-free ones also against the independent atom key); '
              f'multi-component targets above against component-preserving automorphisms; whole-graph automorphisms of multi-component '
              f'molecules on the fixed list {MULTI_AUTO}'):
        run.bound(txt)
    sec['build_domain'] = round(time.time() - t0, 1)
    res = pmap(_target_item, range(len(_TARGETS)), chunksize=2)
    sec['search'] = round(time.time() - t0, 1)
    res += pmap(_multi_auto_item, MULTI_AUTO)
    nv = 0
    hit = set()
    for cases, keys, samples, viol in res:
        hit.update(k[2:] for k in keys if k.startswith('q:'))
        run.case(cases)
        for k in keys:
            run.case(0, key=k)
        for s in samples:
            run.case(0, sample=s)
        for v in viol:
            if nv < 40:
                run.violation(v['key'], v['what'], witness=v['witness'], native=v['native'])
            nv += 1

    run.notes['smarts_without_any_embedding_in_domain'] = [s for s in SMARTS if s not in hit]

    # ---- fixed edge cases of the scope clause
    edge_cases(run)


def edge_cases(run):
    """scope given as an EMPTY collection: the embeddings inside it are none"""
    t = domains.parse('CCO')
    p = domains.parse('CC')
    p.remap({1: 11, 2: 12})
    for empty, nm in ((set(), 'set()'), ([], '[]')):
        got = get_all(p, t, automorphism_filter=False, searching_scope=empty)
        run.case(1, key='scope-empty')
        if got:
            run.violation(f'scope-empty:{nm}:CC>>CCO', f'searching_scope={nm} (no atom allowed) returns {len(got)} mappings of CC into CCO; '
                          f'the embeddings inside an empty scope are none', witness={'contract': 'scope-empty', 'scope': nm}, native=got)


# ---------------------------------------------------------------------------------------------------------------- replay
def replay(rec):
    """re-run the witness natively on the current tree; True when the contract holds for it"""
    import random
    w = rec['witness']
    c = w['contract']
    if c == 'compile' and 'adjacency' in w:
        return check_compile_witness(w)
    if c == 'lazy':
        return lazy_contract(tuple([tuple(x) if isinstance(x, list) else x for x in lst] for lst in w['lists'])) is None
    if c == 'scope-empty':
        t = domains.parse('CCO')
        p = domains.parse('CC')
        p.remap({1: 11, 2: 12})
        return not get_all(p, t, automorphism_filter=False, searching_scope=set() if w['scope'] == 'set()' else [])
    t = load_mol(w['target'])
    out = [0, [], [], []]
    if c in ('auto', 'auto-within'):
        auto_contract(t, 'replay', out, whole=c == 'auto')
        return not out[3]
    p = load_pat(w['pattern'])
    if 'scope' in w:
        s = set(w['scope'])
        exp = {e for e in o07_ref.embeddings(p, t) if all(v in s for _, v in e)}
        got = get_all(p, t, automorphism_filter=False, searching_scope=s)
        gf = get_all(p, t, searching_scope=s)
        fi = [frozenset(v for _, v in x) for x in gf]
        return Counter(got) == Counter(exp) and len(set(fi)) == len(fi) and set(fi) == {frozenset(v for _, v in x) for x in exp}
    pair_contracts(p, t, random.Random(0), 'p', 't', False, out)
    return not out[3]
