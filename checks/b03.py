"""C03 bounded stand-in (engine B): the SMILES reader builds exactly the molecule the text denotes, rejects the rest.

Contract attached to the real `chython.smiles(text)` (default arguments), for every string of the domain:
  (i)  it returns, the reference grammar (oracles/o03_refsmiles.py) accepts the string, and the object returned agrees with the
       reference reader on atoms (element, isotope, charge, H count of bracket atoms, atom map), bonds (pairs, order, aromatic-implicit
       rule), components, tetrahedral parity, cis/trans of directional bonds, CXSMILES radicals and fragment groups, reaction roles;
       RDKit (sanitize=False) is asked for a second opinion on atoms, bonds and chirality tags of molecule strings; or
  (ii) it raises a ValueError subclass and the reference grammar rejects the string.
A returned object for a string outside the language, a ValueError for a string inside it, any other exception class, or any field
difference is a violation.  Violations are grouped in *families* (one VIOLATION per family, witness = shortest input, 5 shortest
listed).  The family key is decided by predicates on the INPUT (oracles/o03_families.py) plus an abstraction of what was returned, so that another
wrong outcome for the same input class, or the same outcome for another input class, is another key:
  `smiles-accept:<reference reject reason>:<context>[:rxn]/<as-repaired|not-as-repaired>` - context = which known lenient reading the offending
      construct is (text predicate at the error position); the string with every such construct repaired must be in the language, and what was
      built is compared with what the repaired string denotes; `:other` when some defect has no repair, `/then-no-verdict` when the repaired
      string is one the reference has no verdict on;
  `smiles-exc:<Exc>@<file>:<function>:<structural class of the input>[:valid-input]`, `smiles-reject:<Exc>@<file>:<function>`,
  `smiles-diff:<aspect>:<structural context>/returns-<abstracted value>[:cx-groups[/radical-index-displaced]]`.
For every family the run counts the inputs of the domain for which the family predicate holds (members) and those that fail
(notes.b03_family_tightness).

Coverage audit additions: (a) the documented keywords of `smiles` (ignore=False, remap, ignore_stereo, ignore_bad_isotopes, keep_implicit on reactions
too, ignore_carbon_radicals, ignore_aromatic_radicals=False) under the contracts of oracles/o03_options.py (what the docstring says the keyword
changes, everything else as the default call that already agreed with the reference reader) - families `smiles-opt:<keyword>:<aspect>[:rxn]`;
(b) the input classes of bounded/d03_extra.py (every charge / H count / ring-closure number / element symbol spelling, isotope ranges, atom classes
with gaps, descending, duplicated, > 999, across reaction roles, CXSMILES radical multiplicities, blank and non-ASCII inputs) and single edits of
reaction / CXSMILES strings, all under the default contract above.
"""
import itertools
import os
import traceback

from vlib import env
from vlib.report import pmap

RULE = ('non-trivial = string inside the reference language for which chython returned an object that was compared field by field '
        'with the reference reader (key = the string); rejected strings are counted as evaluations only')

FULL = ['C', 'N', 'O', 'Cl', 'c', 'n', '[NH4+]', '[13CH3-]', '[O-]', '[Fe+2]', '[C@H]', '[C@@]', '[nH]',
        '=', '#', ':', '-', '/', '\\', '.',
        '(', ')', '1', '2', '%10', '%11',
        '>', ' |^1:0|', ' |f:0.1|',
        ';', '!', '~', '@', '$', '[', ']', '|', ',', '0', '%', '*']
SLICE = ['C', 'N', 'O', 'c', 'n', '[NH4+]', '[O-]', '[C@H]', '[13CH3-]',
         '=', '#', ':', '-', '/', '\\', '.',
         '(', ')', '1', '2', '%10',
         '>', ' |^1:0|',
         ';', '!', '~', '@', '[', ']', '0', ',']
# bracket atoms: one slot per field of the OpenSMILES bracket grammar, each optional, each with valid and invalid spellings
BR_SLOTS = [['', '13', '1', '2', '0', '999', '1000', '014'],
            ['C', 'N', 'Cl', 'c', 'se', 'te', 'si', 'H', 'Fe', 'Xx', 'cl', ''],
            ['', '@', '@@', '@@@', '@TH1'],
            ['', 'H', 'H2', 'H4', 'H0', 'H5', 'h'],
            ['', '+', '--', '+1', '-4', '+5', '+++', '+-', '+0', '2+', '++'],
            ['', ':1', ':0', ':1234', ':12345', ':', ':01']]
BR_TOKENS = ['13', '0', 'C', 'N', 'Cl', 'c', 'se', 'H', 'Fe', 'Xx', '@', '@@', 'H2', 'H5', '+', '-', '++', '+2', '+5', ':1', ':1234', ':', ';', '$', '*', ' ', '[', ']', '(', '%']
# fixed, seed- and tier-independent inputs: one or two shortest witnesses of every defect family known on the pinned tree, so that the
# quick and the thorough tier (and every seed) report the same family key set; they are ordinary members of the domain, judged as any other
ANCHORS = ['C! |^1:0||', 'Cl%64=N/3(I8\\%64)=[CH2]8/C3', '>;>C!', 'C3~[14c]2c4n923CC49', '(C(C))', '(C(C)(N))O', 'C11.FC.[B-]>> |f:0.2,^1:3|', 'C1C1.FC.[B-]>> |f:0.2,^1:4|', '[99C].FC.[B-]>> |f:0.2,^1:3|', '[a].FC.[B-]>> |f:0.2,^1:3|', '[Cc].FC.[B-]>> |f:0.2,^1:3|',
           ';>> |f:0.2,^1:1|', ';.C>> |f:0.1|', 'C.;>>N |f:0.1|', '(', ';', ';@', 'C!~C', '(!~', 'C=;@C', '#;@;@', 'C |^1:5|', '>> |^1:0|', 'C\\C=C1/2CC2C1', 'C/C=C=1\\C\\C1', '(C)/C=C=1\\C\\C1', '(C)\\C=C1/2CC2C1', 'C(C)(=C/N)\\3CC3', '(C)', '(C)C', '(C)>>', 'C!', '>>C!',
           '[HH]', 'c1cc(#1)', 'C.(C)', 'CC(C)1CC1', 'C1CC%1', 'C |f:0.1|', 'C>>N |f:0.5|', '>>C |f:0.1|', '.>>C', 'C..N>>O', 'C>>C1C1', 'C>>C11', 'C>>[99C]',
           '[O-] |^1:0|', '>>[O-] |^1:0|', '>C.[O-]> |f:0.1,^1:1|', 'C.N.[O-]>> |f:0.2,^1:1|', 'c1/2cc2c1', 'c/1ccccc1', '>>c1/2cc2c1', 'C.N>>c1/2cc2c1 |f:0.1|',
           'C.N.O>>S |^1:1,f:0.2|', 'C.[C@H](F)(Cl)Br', 'C(.[C@H](F)(Cl)Br)C', 'F1.[C@H]1(N)CC', 'C.N>> |f:0.1|', 'C.N>O> |f:0.1|', 'C1=C/CCCCCC/1']
# inputs for the keyword contracts: guessed radicals (carbon / heteroatom / aromatic tokens), H counts only recorded as mismatch, impossible isotopes,
# one-sided ring-closure bond symbols, duplicated atom classes, stereo of every kind (tetrahedron, allene, cis-trans, in reactions)
KEYWORD_CASES = ['[CH3]', 'C[CH2]', 'C[CH]C', 'C[C](C)C', '[CH2]', '[CH]', '[C]', 'C[N]C', 'C[NH]', 'C[O]', '[OH]', 'C[S]', '[CH2]C[CH2]', 'C[CH]C>>C[CH]C', 'C[O]>[CH3]>C[N]C',
                 'c1cc[c]cc1', 'c1cc[n]cc1', 'c1cc[b]cc1', 'c1cc[p]cc1', 'c1cc[cH]cc1', 'c1cc[c-]cc1', 'c[c]c', 'c1cc2[c]cccc2cc1', 'c1ccc2[c](c1)cccc2', 'c1c[c]oc1', 'c1c[c]sc1',
                 'c1cc[c]cc1>>c1cc[n]cc1', 'c1cc[c]cc1 |^1:3|', 'c1cc[14c]cc1', 'c1cc[c:7]cc1', '[c]1[c][c][c][c][c]1', 'C[c]1ccccc1',
                 '[CH5]', '[CH4]C', 'C[CH3]', 'C[OH2]', '[OH3]', '[NH4]', '[NH4+]', '[CH2]=C', '[CH3]=C', 'C[CH4]>>C', '[cH2]1ccccc1', '[nH2]1cccc1', '[FH2]', '[ClH]', '[BH4-]', '[BH4]',
                 '[99C]', '[99CH4]', 'C[99CH2]C', '[99CH3:5]C', 'C>>[99C]', '[99C]>>C', 'C.[99C]>[3C]>N', '[1C@H](F)(Cl)Br', '[99c]1ccccc1', '[5H]', '[400U]', '[99C][98C]', '[99C]C1C1',
                 '[99C](', '[0C]', '[99C@@H](F)(Cl)Br>>[2H]O',
                 'C=1CC1', 'C1CC=1', 'C=1CC=1', 'C-1CC1', 'C1CC-1', 'C/1CC1', 'C1CC\\1', 'C#1CCCCCCC1', 'c:1cccc1', 'c1cccc:1', 'C~1CC1', 'C=1CC1>>C1CC=1', 'C%10CC=%10', 'C=1C=2CC1CC2',
                 'C=1CCCC=1C=1CCC1', 'C-1CC/1', 'C/1CC-1', 'C=1CC/1', '[C:1][C:1]', '[C:1]C[C:1]', '[C:1].[C:1]', '[CH4:1].[CH4:1]>>C', 'C>>[CH4:1].[CH4:1]', '[CH4:1]>[CH4:1]>C',
                 '[CH4:1]>[CH4:2]>[CH4:1]', '[CH4:2]>[CH4:1]>[CH4:1]', '[CH4:1]>>[CH4:1]', '[CH3:1][CH3:2]>>[CH3:2][CH3:1]',
                 'N[C@@H](C)C(=O)O', '[C@H](N)(C)C(=O)O', 'N[C@](C)(F)Cl', 'C[S@](=O)N', 'F/C=C/F', 'F/C=C\\F', 'F/C=C/C=C/F', 'CC(F)=C=C(C)F', 'CC(F)=[C@]=C(C)F', 'FC(Cl)=[C@@]=C(Br)I', 'CC(F)=[C@]=C(C)F>>CC(F)=[C@@]=C(C)F',
                 'F[C@H](Cl)Br>>F[C@@H](Cl)Br', 'F/C=C/F>>F/C=C\\F', 'C[C@H]1CC[C@@H](C)CC1', 'C[C@@H]1CCCC[C@H]1C', '[C@H:3](F)(Cl)Br', '[C@H:3](F)([Cl:1])Br', 'F[C@:2]([Cl:1])(Br)I',
                 'F/C=C/[C@H](Cl)Br', 'F/C=C/1CCCC[C@H]1Cl', '[O-][N+](=O)C1=C/CCCCCC/1', 'C[C@@](F)(Cl)[C@H](Br)I.[Na+]']
MUT_QUICK = list('CNOcn()[]=#1290%+-@H/\\.:;!~>lr ')
MUT_FULL = MUT_QUICK + list('SPFBIospb345678,$*|^&ZaeXx{}"\'')

_S = {}


def _setup():
    if _S:
        return _S
    env.setup()
    import chython
    from chython import smiles
    from chython.periodictable import Element
    from rdkit import Chem, RDLogger
    RDLogger.DisableLog('rdApp.*')
    from oracles import o03_refsmiles as R
    from oracles import o03_options as O
    from oracles import o03_families as F
    iso = {}
    for c in Element.__subclasses__():
        try:
            iso[c.__name__] = frozenset(c().isotopes_distribution)
        except Exception:
            iso[c.__name__] = frozenset()
    ps = Chem.SmilesParserParams()
    ps.sanitize = False
    ps.removeHs = False
    ps.allowCXSMILES = False
    ps.parseName = False
    ps.strictCXSMILES = False
    _S.update(smiles=smiles, R=R, O=O, F=F, Chem=Chem, ps=ps, iso=iso, isotope_ok=lambda el, i: i in iso.get(el, ()),
              repo=os.path.abspath(env.REPO) + os.sep)
    return _S


def _where(e):
    """innermost frame of the tree under verification: 'relative/file.py:function'"""
    repo = _S['repo']
    last = None
    for fr, _ in traceback.walk_tb(e.__traceback__):
        fn = os.path.abspath(fr.f_code.co_filename)
        if fn.startswith(repo):
            last = f'{fn[len(repo):]}:{fr.f_code.co_name}'
    return last or 'outside-tree'


# ---- comparison ---------------------------------------------------------------------------------------------------------
_RD_ORDER = {'SINGLE': 1, 'DOUBLE': 2, 'TRIPLE': 3, 'AROMATIC': 4, 'UNSPECIFIED': 8, 'ZERO': 8, 'DATIVE': 8}


def _perm_parity(src, dst):
    """parity (0 even / 1 odd) of the permutation taking list src to list dst (same elements)"""
    pos = {x: i for i, x in enumerate(dst)}
    p = [pos[x] for x in src]
    seen, par = set(), 0
    for i in range(len(p)):
        if i in seen:
            continue
        j, ln = i, 0
        while j not in seen:
            seen.add(j)
            j = p[j]
            ln += 1
        par ^= (ln - 1) & 1
    return par


def _tet_context(rm, i, nb):
    a = rm.atoms[i]
    where = 'preceded' if a.preceded else ('first-atom' if i == 0 else 'first-of-later-component')
    slot = 'H' if (a.hcount or 0) == 1 else ('lone-pair' if 'H' in nb else 'four-neighbours')
    return f'{where}/{slot}'


def _expected_sign(nb, mark):
    """sign for the neighbour list without the H slot, H slot moved last ('@' = counter-clockwise = True)"""
    s = mark == '@'
    if 'H' in nb and (len(nb) - 1 - nb.index('H')) % 2:
        s = not s
    return s


def compare_molecule(mol, rm, radicals=(), maps_kept=None):
    """-> list of (aspect, detail); mol: MoleculeContainer, rm: reference molecule"""
    out = []
    nums = list(mol._atoms)
    if len(nums) != len(rm.atoms):
        return [('atoms.count', f'{len(nums)} != {len(rm.atoms)}')]
    meta = getattr(mol, '_meta', None) or {}
    mism = meta.get('chython_implicit_mismatch', {})
    radz = set(meta.get('chython_radicalized_atoms', ()))
    if len(set(nums)) != len(nums):
        out.append(('atoms.map', 'numbers not unique'))
    seen_maps = set()
    mx = max((a.amap for a in rm.atoms), default=0)
    for i, (n, ra) in enumerate(zip(nums, rm.atoms)):
        a = mol._atoms[n]
        if a.atomic_symbol != ra.element:
            out.append(('atoms.element', f'atom {i}: {a.atomic_symbol} != {ra.element}'))
        if (a.isotope or None) != ra.isotope:
            out.append(('atoms.isotope', f'atom {i}: {a.isotope} != {ra.isotope}'))
        if a.charge != ra.charge:
            out.append(('atoms.charge', f'atom {i}: {a.charge} != {ra.charge}'))
        if ra.bracket and a.implicit_hydrogens != ra.hcount and mism.get(n) != ra.hcount:
            ctx = ('cx-radical-atom' if i in radicals else 'plain') + ('/returns-None' if a.implicit_hydrogens is None else '/returns-a-count')
            out.append((f'atoms.hcount:{ctx}', f'atom {i} [{ra.element}]: implicit_hydrogens {a.implicit_hydrogens} (mismatch note {mism.get(n)}) != {ra.hcount}'))
        if maps_kept is None:  # molecule rule: first occurrence of a class keeps it as atom number, others numbered above the maximum
            if ra.amap and ra.amap not in seen_maps:
                seen_maps.add(ra.amap)
                if n != ra.amap:
                    out.append(('atoms.map', f'atom {i}: number {n} != class {ra.amap}'))
            elif n <= mx:
                out.append(('atoms.map', f'atom {i}: unmapped/duplicate class got number {n} <= max class {mx}'))
        else:
            if maps_kept[i] is not None and n != maps_kept[i]:
                out.append(('atoms.map', f'atom {i}: number {n} != class {maps_kept[i]}'))
        rad = i in radicals
        if rad and not a.is_radical:
            out.append(('radicals', f'atom {i}: CXSMILES radical not set'))
        if not rad and a.is_radical and n not in radz:
            out.append(('radicals', f'atom {i}: radical set without CXSMILES mark or radicalized note'))
    idx = {n: i for i, n in enumerate(nums)}
    got = {}
    for n, m, b in mol.bonds():
        i, j = idx[n], idx[m]
        got[(i, j) if i < j else (j, i)] = int(b)
    if set(got) != set(rm.bonds):
        out.append(('bonds.pairs', f'chython-only {sorted(set(got) - set(rm.bonds))} reference-only {sorted(set(rm.bonds) - set(got))}'))
    else:
        for k, o in rm.bonds.items():
            if got[k] != o:
                ctx = ('aromatic-ends' if rm.atoms[k[0]].aromatic and rm.atoms[k[1]].aromatic else 'other') + '/' + rm.binfo[k][0] + \
                    ('/ring-closure' if rm.binfo[k][1] else '/chain')
                out.append((f'bonds.order:{ctx}/returns-{got[k]}', f'bond {k}: {got[k]} != {o}'))
    comps = {frozenset(idx[n] for n in c) for c in mol.connected_components}
    if comps != set(rm.components()):
        out.append(('components', f'{sorted(map(sorted, comps))} != {sorted(map(sorted, rm.components()))}'))
    if out:
        return out
    # parity ---------------------------------------------------------------------------------------------------------
    for i, nb, mark in rm.tetrahedra():
        n = nums[i]
        a = mol._atoms[n]
        if a.stereo is None or n not in mol.stereogenic_tetrahedrons:
            continue  # not kept (non-stereogenic for chython, or allene) - see drop check
        envn = [nums[x] for x in nb if x != 'H']
        try:
            gs = mol._translate_tetrahedron_sign(n, envn)
        except KeyError:
            continue
        if gs != _expected_sign(nb, mark):
            out.append((f'tetrahedron:{_tet_context(rm, i, nb)}', f'atom {i} neighbours {nb} mark {mark}: sign {gs}'))
    for a_, b_, x, y, cis in rm.cis_trans():
        try:
            gs = mol._translate_cis_trans_sign(nums[a_], nums[b_], nums[x], nums[y])
        except KeyError:
            continue
        if gs != cis:
            out.append(('cis-trans', f'double bond {a_}={b_} substituents {x},{y}: reference {"cis" if cis else "trans"}, chython {"cis" if gs else "trans"}'))
    return out


def _reaction_maps(rec):
    """atom numbers a reaction keeps: class kept for its first occurrence within a role, reagents only when the class does not occur
    among reactants or products; None = free"""
    roles = [rec.reactants, rec.reagents, rec.products]
    present = [{a.amap for m in r for a in m.atoms if a.amap} for r in roles]
    out = []
    for k, r in enumerate(roles):
        seen = set()
        ro = []
        for m in r:
            mo = []
            for a in m.atoms:
                if a.amap and a.amap not in seen and not (k == 1 and (a.amap in present[0] or a.amap in present[2])):
                    seen.add(a.amap)
                    mo.append(a.amap)
                else:
                    if a.amap:
                        seen.add(a.amap)
                    mo.append(None)
            ro.append(mo)
        out.append(ro)
    return out


def compare(obj, rec, displaced=False):
    from chython.containers import ReactionContainer
    if rec.kind == 'molecule':
        if isinstance(obj, ReactionContainer):
            return [('kind', 'reaction returned for a molecule string')]
        return compare_molecule(obj, rec.mols[0], rec.radicals)
    if not isinstance(obj, ReactionContainer):
        return [('kind', 'molecule returned for a reaction string')]
    out = []
    maps = _reaction_maps(rec)
    pos = 0
    for k, (name, ref) in enumerate((('reactants', rec.reactants), ('reagents', rec.reagents), ('products', rec.products))):
        got = list(getattr(obj, name))
        if len(got) != len(ref):
            out.append((f'rxn.{name}.count', f'{len(got)} != {len(ref)}'))
            pos += len(ref)
            continue
        for j, (m, rm) in enumerate(zip(got, ref)):
            rad = {a for (p, a) in rec.radicals if p == pos}
            out.extend((f'rxn.{asp}', f'{name}[{j}] {d}') for asp, d in compare_molecule(m, rm, rad, maps[k][j]))
            pos += 1
    if rec.groups:
        out = [(a + ':cx-groups' + ('/radical-index-displaced' if displaced else ''), d) for a, d in out]
    return out


def rdkit_opinion(smi, rm):
    """second opinion on a molecule string: -> (None if RDKit declines, else list of (aspect, detail) differences reference vs RDKit,
    dict atom index -> chirality sign (True '@'-like w.r.t. RDKit neighbour order))"""
    S = _S
    try:
        rd = S['Chem'].MolFromSmiles(smi, S['ps'])
    except Exception:
        rd = None
    if rd is None:
        return None, None
    out = []
    if rd.GetNumAtoms() != len(rm.atoms):
        return [('atoms.count', f'{rd.GetNumAtoms()} != {len(rm.atoms)}')], rd
    for i, ra in enumerate(rm.atoms):
        a = rd.GetAtomWithIdx(i)
        if a.GetAtomicNum() != S['R'].ZNUM[ra.element]:
            out.append(('atoms.element', f'atom {i}'))
        if (a.GetIsotope() or None) != ra.isotope:
            out.append(('atoms.isotope', f'atom {i}'))
        if a.GetFormalCharge() != ra.charge:
            out.append(('atoms.charge', f'atom {i}'))
        if a.GetAtomMapNum() != ra.amap:
            out.append(('atoms.map', f'atom {i}'))
        if ra.bracket and a.GetNumExplicitHs() != ra.hcount:
            out.append(('atoms.hcount', f'atom {i}: {a.GetNumExplicitHs()} != {ra.hcount}'))
        if a.GetIsAromatic() != ra.aromatic:
            out.append(('atoms.aromatic', f'atom {i}'))
    got = {}
    for b in rd.GetBonds():
        i, j = b.GetBeginAtomIdx(), b.GetEndAtomIdx()
        got[(i, j) if i < j else (j, i)] = _RD_ORDER.get(str(b.GetBondType()), -1)
    # the dialect bond '~' (order 8) is not standard SMILES: pairs compared, order not
    if set(got) != set(rm.bonds) or any(got[k] != o for k, o in rm.bonds.items() if o != 8):
        out.append(('bonds', f'rdkit {sorted(got.items())} reference {sorted(rm.bonds.items())}'))
    return out, rd


def rdkit_tet_sign(rd, i, nb, mark):
    """does RDKit's chirality tag on atom i agree with the reference parity?  None if RDKit has no tag"""
    a = rd.GetAtomWithIdx(i)
    tag = str(a.GetChiralTag())
    if tag not in ('CHI_TETRAHEDRAL_CW', 'CHI_TETRAHEDRAL_CCW'):
        return None
    rn = [b.GetOtherAtomIdx(i) for b in a.GetBonds()]
    env_ = [x for x in nb if x != 'H']
    if sorted(rn) != sorted(env_):
        return None
    s = _expected_sign(nb, mark)
    if _perm_parity(env_, rn):
        s = not s
    return s == (tag == 'CHI_TETRAHEDRAL_CCW')


# ---- the contract on one string ------------------------------------------------------------------------------------------
_MEMBERS = []     # family keys whose input predicate holds for the string judged last (whatever the reader did with it): tightness table


def _member_keys(s, rec, displaced):
    """known-family predicates on a string of the language (text + reference record only)"""
    out = []
    rxn = rec.kind != 'molecule'
    pre = 'rxn.' if rxn else ''
    suf = (':cx-groups' + ('/radical-index-displaced' if displaced else '')) if rxn and rec.groups else ''
    mols = _rec_mols(rec)
    for k, rm in enumerate(mols):
        rad = {a for p, a in rec.radicals if p == k} if rxn else rec.radicals
        if any(rm.atoms[i].bracket for i in rad if i < len(rm.atoms)):
            out.append(f'smiles-diff:{pre}atoms.hcount:cx-radical-atom/returns-None{suf}')
        if any(kind == 'directional' and rc and rm.atoms[a].aromatic and rm.atoms[b].aromatic for (a, b), (kind, rc) in rm.binfo.items()):
            out.append(f'smiles-diff:{pre}bonds.order:aromatic-ends/directional/ring-closure/returns-1{suf}')
    if displaced:
        out.append(f'smiles-diff:rxn.radicals{suf}')
        out.append(f'smiles-diff:rxn.atoms.hcount:plain/returns-None{suf}')
    return out


def judge(s, deep=False):
    """-> (status, family or None, detail) ; status in accepted / rejected / unspecified / violation"""
    S = _S or _setup()
    R, F = S['R'], S['F']
    del _MEMBERS[:]
    try:
        rec = R.read(s, S['isotope_ok'])
        ref = 'accept'
    except R.Reject as e:
        rec, ref = None, 'reject:' + e.args[0]
    except R.Unspecified as e:
        rec, ref = None, 'unspecified:' + e.args[0]
    akey = rep_ = rrec = None
    if ref.startswith('reject'):
        akey, rep_ = F.accept_key(s, ref[7:], S['isotope_ok'])
        amem = len(_MEMBERS)
        _MEMBERS.append(akey + ('/as-repaired' if rep_ is not None else ''))
        if rep_ is not None:
            rrec = R.read(rep_, S['isotope_ok'])
    ectx = F.exc_context(s, rec or rrec, S['isotope_ok'])
    if ectx != 'none':
        _MEMBERS.append(f'exc-context:{ectx}' + (':valid-input' if ref == 'accept' else ''))
    displaced = False
    if rec is not None:
        displaced = rec.kind != 'molecule' and bool(rec.groups) and F.displaced_radicals(s, S['isotope_ok'])
        _MEMBERS.extend(_member_keys(s, rec, displaced))
    try:
        obj = S['smiles'](s)
    except ValueError as e:
        if ref == 'accept':
            return 'violation', f'smiles-reject:{type(e).__name__}@{_where(e)}', f'string of the language rejected: {type(e).__name__}: {e}'
        return ('rejected' if ref.startswith('reject') else 'unspecified'), None, ref
    except Exception as e:
        fam = f'smiles-exc:{type(e).__name__}@{_where(e)}:{ectx}' + (':valid-input' if ref == 'accept' else '')
        return 'violation', fam, f'{type(e).__name__}: {e} (reference: {ref})'
    if ref.startswith('unspecified'):
        return 'unspecified', None, ref
    if ref.startswith('reject'):
        if rep_ is not None:
            dd = compare(obj, rrec)
            how = f'; the lenient reading is {rep_!r}, and that is what was built'
            if dd:
                # the repaired string may itself be read with a (separately keyed) deviation: then the accepted string must be read the same way
                try:    # (atom numbers may differ: a dropped component has taken numbers)
                    same = S['O'].diff(S['O'].snapshot(S['smiles'](rep_)), S['O'].snapshot(obj), ('atoms', 'bonds', 'tet', 'ct', 'allene')) is None
                except Exception:
                    same = False
                if same:
                    dd, how = None, f'; the lenient reading is {rep_!r}, built exactly as the reader builds that string ({_fmt(obj)})'
                else:
                    how = f'; the lenient reading is {rep_!r}, but what was built differs from it: {dd[0][0]}: {dd[0][1]}'
            akey += '/not-as-repaired' if dd else '/as-repaired'
            _MEMBERS[amem] = akey
        else:
            how = ''
        return 'violation', akey, f'string outside the language ({ref[7:]}) yields {type(obj).__name__} {_fmt(obj)}{how}'
    diffs = compare(obj, rec, displaced)
    if diffs:
        return 'violation', f'smiles-diff:{diffs[0][0]}', '; '.join(f'{a}: {d}' for a, d in diffs[:4]) + f' (chython built {_fmt(obj)})'
    # keep_implicit=True must keep the written hydrogen count of every bracket atom
    if rec.kind == 'molecule' and any(a.bracket for a in rec.mols[0].atoms):
        try:
            m2 = S['smiles'](s, keep_implicit=True)
        except Exception as e:
            return 'violation', f'smiles-exc:{type(e).__name__}@{_where(e)}:keep_implicit', f'keep_implicit=True: {type(e).__name__}: {e}'
        for (n, a), ra in zip(m2._atoms.items(), rec.mols[0].atoms):
            if ra.bracket and a.implicit_hydrogens != ra.hcount:
                return 'violation', 'smiles-diff:atoms.hcount:keep_implicit', f'keep_implicit=True: [{ra.element}] H count {a.implicit_hydrogens} != written {ra.hcount}'
    if rec.kind == 'molecule':
        rm = rec.mols[0]
        smi = s.split()[0]
        od, rd = rdkit_opinion(smi, rm)
        if od:
            # the two oracles disagree while chython agrees with the reference reader: recorded, not a library violation
            return 'oracle-disagreement', 'rdkit:' + od[0][0], '; '.join(f'{a}: {d}' for a, d in od[:3])
        if rd is not None:
            for i, nb, mark in rm.tetrahedra():
                ok = rdkit_tet_sign(rd, i, nb, mark)
                if ok is False:
                    return 'oracle-disagreement', 'rdkit:tetrahedron:' + _tet_context(rm, i, nb), f'atom {i} {nb} {mark}'
            if deep:
                d = _drop_check(obj, rm, smi)
                if d:
                    return 'violation', d[0], d[1]
        return 'accepted', ('rdkit' if rd is not None else 'no-rdkit'), None
    return 'accepted', 'rxn', None


def _drop_check(mol, rm, smi):
    """stereo written in the string, kept by RDKit after its own perception (sanitized), but absent in chython"""
    Chem = _S['Chem']
    try:
        rd = Chem.MolFromSmiles(smi)
    except Exception:
        rd = None
    if rd is None or rd.GetNumAtoms() != len(rm.atoms):
        return None
    nums = list(mol._atoms)
    for i, nb, mark in rm.tetrahedra():
        tag = str(rd.GetAtomWithIdx(i).GetChiralTag())
        if tag.startswith('CHI_TETRAHEDRAL') and mol._atoms[nums[i]].stereo is None and nums[i] in mol.stereogenic_tetrahedrons \
                and not rd.GetAtomWithIdx(i).IsInRing():
            return f'smiles-diff:tetrahedron-dropped:{_tet_context(rm, i, nb)}', f'atom {i}: mark {mark} kept by RDKit, dropped by chython'
    for a_, b_, x, y, cis in rm.cis_trans():
        b = rd.GetBondBetweenAtoms(a_, b_)
        if b is not None and str(b.GetStereo()) in ('STEREOE', 'STEREOZ') and not b.IsInRing():
            sa = list(b.GetStereoAtoms())
            # reference vs RDKit (oracle self-check): stereo atoms may be other substituents
            try:
                gs = mol._translate_cis_trans_sign(nums[a_], nums[b_], nums[x], nums[y])
            except KeyError:
                return 'smiles-diff:cis-trans-dropped', f'double bond {a_}={b_}: directional marks kept by RDKit ({b.GetStereo()}), dropped by chython'
    return None


def _reason_family(reason, smi=''):
    return _S['F'].reason_family(reason, smi)


OPTS = [('ignore=False', {'ignore': False}), ('remap', {'remap': True}), ('ignore_stereo', {'ignore_stereo': True}),
        ('ignore_bad_isotopes', {'ignore_bad_isotopes': True}), ('keep_implicit', {'keep_implicit': True}),
        ('ignore_carbon_radicals', {'ignore_carbon_radicals': True}), ('ignore_aromatic_radicals=False', {'ignore_aromatic_radicals': False}),
        ('remap+ignore=False+ignore_stereo', {'remap': True, 'ignore': False, 'ignore_stereo': True})]
_STEREO = ('tet', 'ct', 'allene')


def _rec_mols(rec):
    return rec.mols if rec.kind == 'molecule' else rec.reactants + rec.reagents + rec.products


def _expected(name, s0, rec):
    """-> (expected snapshot, fields to compare) for a keyword on a string whose default result s0 agreed with the reference record rec"""
    import copy
    e = copy.deepcopy(s0)
    flat = [m for _, ms in e for m in ms]
    fields = ['nums', 'atoms', 'bonds', 'tet', 'ct', 'allene']
    if 'ignore_stereo' in name:
        for m in flat:
            m['tet'], m['ct'], m['allene'] = {}, {}, {}
    if 'remap' in name:
        fields.remove('nums')
    if name == 'keep_implicit':
        for k, (m, rm) in enumerate(zip(flat, _rec_mols(rec))):
            rad = rec.radicals if rec.kind == 'molecule' else {a for p, a in rec.radicals if p == k}
            for i, ra in enumerate(rm.atoms):
                if ra.bracket:
                    el, iso, ch, _, _ = m['atoms'][i]
                    m['atoms'][i] = (el, iso, ch, ra.hcount, i in rad)
        fields = ['nums', 'atoms', 'bonds']
    if name == 'ignore_carbon_radicals':
        for m in flat:
            for i in m['radicalized']:
                el, iso, ch, h, r = m['atoms'][i]
                if el == 'C':
                    m['atoms'][i] = (el, iso, ch, h + 1, False)
                    m['tet'] = m['ct'] = m['allene'] = None
        fields = ['nums', 'atoms', 'bonds', 'tet', 'ct', 'allene']
    return e, fields


def _aromatic_radical_sites(rec):
    out = []
    for k, rm in enumerate(_rec_mols(rec)):
        rad = rec.radicals if rec.kind == 'molecule' else {a for p, a in rec.radicals if p == k}
        arom = {x for k_, o in rm.bonds.items() if o == 4 for x in k_}     # "aromatic token": bracket atom in an aromatic bond, no H, no charge
        out.append({i for i, ra in enumerate(rm.atoms) if ra.bracket and i in arom and not ra.hcount and not ra.charge
                    and ra.element in ('B', 'C', 'N', 'P') and i not in rad})
    return out


def judge_opts(s):
    """the documented keywords of smiles() on one string -> list of (family, detail)"""
    S = _S or _setup()
    R, O = S['R'], S['O']
    del _MEMBERS[:]
    try:
        rec = R.read(s, S['isotope_ok'])
        ref = 'accept'
    except R.Reject as e:
        rec, ref = None, 'reject:' + e.args[0]
    except R.Unspecified as e:
        return []
    try:
        obj0 = S['smiles'](s)
        d0 = None
    except Exception as e:
        obj0, d0 = None, (isinstance(e, ValueError), type(e).__name__, _where(e))
    out = []
    words = s.split()
    rx = ':rxn' if words and '>' in words[0] else ''
    bad_iso = ref == 'reject:bracket-isotope-not-tabulated'
    if ref == 'accept' and obj0 is not None and not compare(obj0, rec):
        s0 = O.snapshot(obj0)
        smi = words[0]
        all_reasons = [n for n, f in (('one-sided-ring-bond', O.one_sided_ring_symbol(smi)), ('duplicate-class', O.duplicate_classes(rec)),
                                         ('hcount-mismatch', any(m['mismatch'] for _, ms in s0 for m in ms))) if f]
        sites = _aromatic_radical_sites(rec)
        for name, kw in OPTS:
            fam = f'smiles-opt:{name}:'
            strict_reasons = [x for x in all_reasons if not (x == 'duplicate-class' and 'remap' in name and not rx)]  # remap of a molecule discards the classes
            try:
                obj = S['smiles'](s, **kw)
            except ValueError as e:
                if 'ignore=False' in name and strict_reasons:
                    continue
                out.append((fam + f'reject:{type(e).__name__}@{_where(e)}{rx}', f'{kw}: string of the language rejected: {type(e).__name__}: {e}'))
                continue
            except Exception as e:
                out.append((fam + f'exc:{type(e).__name__}@{_where(e)}{rx}', f'{kw}: {type(e).__name__}: {e}'))
                continue
            if 'ignore=False' in name and strict_reasons:
                out.append((fam + f'accepts:{strict_reasons[0]}{rx}', f'{kw}: returns {_fmt(obj)} although the default call only logs a fix ({strict_reasons})'))
                continue
            s1 = O.snapshot(obj)
            exp, fields = _expected(name, s0, rec)
            d = O.shape_diff(exp, s1)
            if d is None and 'remap' in name:
                d = O.remap_expected(s0, s1, bool(rx))
            if d is None and name == 'ignore_aromatic_radicals=False':
                k = 0
                for (role, j, a), (_, _, b) in zip(O._flat(exp), O._flat(s1)):
                    for i in sites[k]:
                        if b['atoms'][i] != a['atoms'][i]:
                            if b['atoms'][i] != a['atoms'][i][:3] + (0, True):
                                d = ('atoms', f'{role}[{j}] atom {i}: {b["atoms"][i]} is neither the default {a["atoms"][i]} nor its radical')
                            a['atoms'][i] = b['atoms'][i]
                            a['tet'] = a['ct'] = a['allene'] = None
                    k += 1
            if d is None:
                for (role, j, a), (_, _, b) in zip(O._flat(exp), O._flat(s1)):
                    for f in fields:
                        if a[f] is not None and a[f] != b[f]:
                            d = (f, f'{role}[{j}] {f}: {b[f]} != expected {a[f]}')
                            break
                    if d:
                        break
            if d:
                out.append((fam + f'diff:{d[0]}{rx}', f'{kw}: {d[1]} (built {_fmt(obj)}, default {_fmt(obj0)})'))
        # the default call itself: ignore_aromatic_radicals=True is the default
        for (role, j, a), st in zip(O._flat(s0), sites):
            for i in sorted(st):
                deg = 'two-aromatic-bonds' if sorted(o for k_, o in a['bonds'].items() if i in k_ and o != 8) == [4, 4] else 'other-bonding'
                _MEMBERS.append(f'smiles-opt:ignore_aromatic_radicals=True:radical-on-aromatic-token:{a["atoms"][i][0]}/{deg}{rx}')
                if a['atoms'][i][4]:
                    out.append((f'smiles-opt:ignore_aromatic_radicals=True:radical-on-aromatic-token:{a["atoms"][i][0]}/{deg}{rx}',
                                f'default call (ignore_aromatic_radicals=True, "don\'t treat aromatic tokens like c[c]c as radicals") makes atom {i} '
                                f'of {role}[{j}] a radical: {_fmt(obj0)}'))
        return out
    if ref.startswith('reject') and (d0 is not None or bad_iso):
        reason = _reason_family(ref[7:])
        for name, kw in OPTS:
            fam = f'smiles-opt:{name}:'
            try:
                obj = S['smiles'](s, **kw)
            except ValueError:
                if bad_iso and name == 'ignore_bad_isotopes':
                    try:
                        R.read(s, None)
                    except (R.Reject, R.Unspecified):
                        continue
                    out.append((fam + f'reject:bad-isotope-not-reset{rx}', f'{kw}: still rejected'))
                continue
            except Exception as e:
                if d0 is None or (type(e).__name__, _where(e)) != d0[1:]:
                    out.append((fam + f'exc:{type(e).__name__}@{_where(e)}{rx}', f'{kw}: {type(e).__name__}: {e} (reference: {ref})'))
                continue
            if bad_iso and name == 'ignore_bad_isotopes':
                try:
                    rec2 = R.read(s, None)
                except R.Unspecified:
                    continue
                except R.Reject as e:
                    out.append((fam + f'accepts:{_reason_family(e.args[0])}{rx}', f'{kw}: string outside the language yields {_fmt(obj)}'))
                    continue
                for rm in _rec_mols(rec2):
                    for ra in rm.atoms:
                        if ra.isotope is not None and not S['isotope_ok'](ra.element, ra.isotope):
                            ra.isotope = None
                dd = compare(obj, rec2)
                if dd:
                    # the text without the impossible isotope marks may itself be read with a (separately keyed) deviation: then the keyword
                    # call must build exactly that
                    import re
                    words_ = s.split()
                    words_[0] = re.sub(r'\[([0-9]+)([A-Za-z][a-z]?)', lambda m: m.group(0) if S['isotope_ok'](m.group(2).capitalize(), int(m.group(1)))
                                       else '[' + m.group(2), words_[0])
                    try:
                        same = O.diff(O.snapshot(S['smiles'](' '.join(words_))), O.snapshot(obj)) is None
                    except Exception:
                        same = False
                    if not same:
                        out.append((fam + f'diff:{dd[0][0]}{rx}', f'{kw}: {dd[0][1]} (built {_fmt(obj)})'))
                continue
            if d0 is not None and d0[0]:
                out.append((fam + f'accepts:{reason}{rx}', f'{kw}: string outside the language ({ref[7:]}), rejected by the default call, yields {_fmt(obj)}'))
    return out


_TOK = None


def shrink(s, fam, budget=600):
    """greedy token deletion keeping the same violation family (gives short witnesses for families found in long random strings)"""
    global _TOK
    import re
    if _TOK is None:
        _TOK = re.compile(r'\[[^\]]*\]|%[0-9]{2}|Cl|Br| \|[^|]*\||.', re.S)
    toks = _TOK.findall(s)
    calls = 0
    improved = True
    while improved and calls < budget:
        improved = False
        for width in (4, 3, 2, 1):
            i = 0
            while i + width <= len(toks) and calls < budget:
                cand = toks[:i] + toks[i + width:]
                t = ''.join(cand)
                calls += 1
                if t and (any(f == fam for f, _ in judge_opts(t)) if fam.startswith('smiles-opt:') else judge(t, True)[1] == fam):
                    toks = cand
                    improved = True
                else:
                    i += 1
    return ''.join(toks)


def _fmt(obj):
    try:
        return str(obj)
    except Exception as e:
        return f'<unprintable {type(e).__name__}>'


# ---- workers -------------------------------------------------------------------------------------------------------------
class _Acc:
    def __init__(self):
        self.n = 0
        self.keys = []
        self.stat = {}
        self.fam = {}     # family -> sorted list of (len, string, detail) (5 shortest)
        self.odd = {}     # oracle disagreements
        self.samples = []
        self.members = {}

    def add(self, s, deep=False, keep_key=True, opts=False):
        st, fam, det = judge(s, deep)
        self.n += 1
        for k in set(_MEMBERS):
            self.members[k] = self.members.get(k, 0) + 1
        if opts:
            seen_f = set()
            for f, d in judge_opts(s):
                if f not in seen_f:
                    seen_f.add(f)
                    self._push(self.fam, f, s, d)
            for k in set(_MEMBERS):
                self.members[k] = self.members.get(k, 0) + 1
            self.n += len(OPTS)
            self.stat['keywords:' + st] = self.stat.get('keywords:' + st, 0) + 1
        if st == 'violation':
            self._push(self.fam, fam, s, det)
        elif st == 'oracle-disagreement':
            self._push(self.odd, fam, s, det)
            if keep_key:
                self.keys.append(s)
        elif st == 'accepted':
            if keep_key:
                self.keys.append(s)
            self.stat['accepted:' + fam] = self.stat.get('accepted:' + fam, 0) + 1
            if fam == 'no-rdkit':
                self._push(self.odd, 'rdkit:declined', s, 'accepted by chython and the reference, RDKit returns None')
            if len(self.samples) < 2 and len(s) > 6:
                self.samples.append({'input': s, 'outcome': 'agrees with reference reader' + (' and RDKit' if fam == 'rdkit' else '')})
        else:
            k = st + ':' + det.split(':', 1)[1]
            self.stat[k] = self.stat.get(k, 0) + 1
        return st

    @staticmethod
    def _push(d, fam, s, det):
        lst = d.setdefault(fam, [0, []])
        lst[0] += 1
        lst[1].append((len(s), s, det))
        lst[1].sort()
        del lst[1][5:]

    def result(self):
        for k, v in self.members.items():
            self.stat['member|' + k] = v
        return self.n, self.keys, self.stat, self.fam, self.odd, self.samples


def _w_tokens(args):
    alphabet, prefix, depth, keep = args
    _setup()
    acc = _Acc()
    base = ''.join(prefix)
    for k in range(depth + 1):
        for suf in itertools.product(alphabet, repeat=k):
            acc.add(base + ''.join(suf), keep_key=keep)
    return acc.result()


def _w_brackets(args):
    kind, head = args
    _setup()
    acc = _Acc()
    if kind == 'slots':
        for rest in itertools.product(*BR_SLOTS[1:]):
            acc.add('[' + head + ''.join(rest) + ']')
    else:
        for k in range(0, 3):
            for rest in itertools.product(BR_TOKENS, repeat=k):
                acc.add('[' + head + ''.join(rest) + ']')
    return acc.result()


def _w_strings(args):
    strings, deep, must_parse, *rest = args
    opts = bool(rest and rest[0])
    _setup()
    acc = _Acc()
    for s in strings:
        st = acc.add(s, deep, opts=opts)
        if must_parse and st in ('rejected', 'unspecified'):
            acc._push(acc.fam, 'smiles-corpus-rejected', s, 'corpus string rejected by chython and by the reference grammar')
    return acc.result()


def _mutants(s, alphabet):
    out = set()
    for i in range(len(s)):
        out.add(s[:i] + s[i + 1:])
        for c in alphabet:
            if c != s[i]:
                out.add(s[:i] + c + s[i + 1:])
    for i in range(len(s) + 1):
        for c in alphabet:
            out.add(s[:i] + c + s[i:])
    out.discard(s)
    return sorted(out)


def _w_mutants(args):
    strings, alphabet = args
    _setup()
    acc = _Acc()
    for s in strings:
        for t in _mutants(s, alphabet):
            acc.add(t, keep_key=False)
    return acc.result()


# ---- templates (stereo / reactions / CXSMILES) -----------------------------------------------------------------------------
def stereo_templates(r, n):
    subs = ['F', 'Cl', 'Br', 'I', 'O', 'N', 'C', 'S', 'CC', 'C=O', '[2H]', 'OC']
    out = set()
    centres = ['[C@H]', '[C@@H]', '[C@]', '[C@@]', '[Si@]', '[N@+]', '[N@@+]', '[S@]', '[S@@]', '[P@]', '[13C@@H]', '[C@H:5]', '[C@@:9]']
    while len(out) < n:
        c = r.choice(centres)
        k = 3 if ('H' in c or c.startswith('[S@') or c.startswith('[P@')) else 4
        ss = r.sample(subs, k)
        if c.startswith('[S@'):
            ss[0] = '=O' if r.random() < .7 else ss[0]
        form = r.randrange(9)
        ring = r.random() < .3
        if ring:  # one substituent closes a ring to the next: centre in a ring
            d = r.choice(['1', '2', '%12'])
            if form % 2:
                s = f'{ss[0]}{c}{d}({ss[1]})' + ('' if k == 3 else f'({ss[2]})') + f'CC(=O)N{d}'
            else:
                s = f'{c}{d}({ss[0]})' + (f'({ss[1]})' if k == 4 else '') + f'CCO{d}'
            if form >= 6:
                s = r.choice(['C.', 'O.N.', '[Na+].']) + s
            out.add(s)
            continue
        if ss[0].startswith('='):
            first = 'O='
        else:
            first = ss[0]
        body = ''.join(f'({x})' for x in ss[1:-1]) + ss[-1]
        if form == 0:       # centre first
            s = c + ''.join(f'({x})' for x in ss[:-1]) + ss[-1]
        elif form == 1:     # preceded
            s = first + c + body
        elif form == 2:     # first atom of a later component
            s = r.choice(['C.', 'O.C.', '[Na+].', 'CC(C)C.']) + c + ''.join(f'({x})' for x in ss[:-1]) + ss[-1]
        elif form == 3:     # preceded, in a later component
            s = 'N.' + first + c + body
        elif form == 4:     # inside a branch
            s = 'C(' + first + c + body + ')C'
        elif form == 5:     # branch opened with a dot: no preceding atom
            s = 'C(.' + c + ''.join(f'({x})' for x in ss[:-1]) + ss[-1] + ')C'
        elif form == 6:     # ring closure digit as a substituent (closure across a dot)
            s = f'{ss[0]}1.' + c + '1' + ''.join(f'({x})' for x in ss[1:-1]) + ss[-1] if not ss[0].startswith('=') else first + c + body
        elif form == 7:     # reaction role
            s = 'C>>' + c + ''.join(f'({x})' for x in ss[:-1]) + ss[-1]
        else:
            s = first + c + body + '>>' + 'C'
        out.add(s)
    return sorted(out)


def cistrans_templates(r, n):
    subs = ['F', 'Cl', 'Br', 'C', 'N', 'O', 'CC']
    out = set()
    while len(out) < n:
        a, b, c, d = (r.choice(subs) for _ in range(4))
        m = lambda: r.choice('/\\')
        form = r.randrange(8)
        if form == 0:
            s = f'{a}{m()}C=C{m()}{b}'
        elif form == 1:
            s = f'{a}{m()}C({c})=C{m()}{b}'
        elif form == 2:
            s = f'{a}{m()}C({c})=C({m()}{b}){d}'
        elif form == 3:
            s = f'C({m()}{a})({c})=C{m()}{b}'
        elif form == 4:
            s = f'{a}{m()}C=C{m()}C=C{m()}{b}'
        elif form == 5:
            s = f'{a}{m()}C=C{m()}1CCCC({c})C1'
        elif form == 6:
            s = f'{a}{m()}C=C1{m()}CCCC({c})C1'
        else:
            s = f'{a}{m()}N=C{m()}{b}'
        if r.random() < .15:
            s = 'O.' + s
        out.add(s)
    return sorted(out)


def rxn_cx_templates():
    out = ['C>>N', 'C>O>N', 'C.O>>N', 'C>>N.O', '>>N', 'C>>', '>O>', 'C.N>O.S>P.F', 'C.N>>O |f:0.1|', 'C>>N.O |f:1.2|', 'C>N.O> |f:1.2|',
           'C.N>> |f:0.1|', 'C.N>O> |f:0.1|', 'C.N.O>>S |f:0.2|', 'C.N.O>>S |f:0.2,^1:1|', 'C.N.O>>S |^1:1,f:0.2|', 'C>>N |^1:0|', 'C>>N |^1:1|',
           'C>>N |^1:0,1|', 'C.N>>O.S |f:0.1,2.3|', '[CH3:1][OH:2]>>[CH2:1]=[O:2]', '[CH3:1][OH:1]>>[CH2:1]=[O:2]', '[C:1]>[C:1]>[C:1]', '[C:2]>[C:1]>[C:3]',
           'C[CH2] |^1:1|', '[CH3] |^1:0|', 'C.[CH2]C |^1:1|', 'CC |^1:0,1|', 'C.N |f:0.1|', 'C.N.O |f:0.2|', 'C.N |f:0.1,^1:0|', '[CH3][CH2] |^1:1|',
           'CO |^2:0|', 'C[O] |^1:1|', 'c1ccccc1>>C1CCCCC1', 'C1CC1.C1CC1>>C', 'CC(=O)O.OCC>[H+]>CC(=O)OCC.O', '[Na+].[Cl-]>>[Na+].[Cl-] |f:0.1,2.3|',
           'C>>N>O', 'C>N', 'C>>N |f:0.5|', 'C.N>>O |f:0.2|', 'C/C=C=1\\C\\C1', 'C\\C=C1/2CC2CC1', 'C\\C=C\\1/2CCC2CC1', 'C/C=C/1CCCCCCC1', 'C1=C/CCCCCC/1', 'C |^1:0| name', 'C name', 'CC\tname', ' C', 'C ', 'C |', 'C ||', 'C.N>>O |f:1.0|']
    return out


def rxn_radical_templates():
    """fixed (seed independent) reaction strings: every combination of empty / one / two molecules per role, CXSMILES radical indices pointing at
    the first and last atom of every non-empty role (singly and in pairs across roles), without and with an f: group of two neighbouring
    components of one role (neighbours: the grouping does not reorder molecules).  Marked atoms are organic-subset atoms (no radical guessing)."""
    pool = {0: ['CC', 'NCC'], 1: ['CO', 'ClC'], 2: ['CCN', 'OC']}
    out = []
    for shape in itertools.product((0, 1, 2), repeat=3):
        if not any(shape):
            continue
        roles = ['.'.join(pool[k][:n]) for k, n in enumerate(shape)]
        smi = '>'.join(roles)
        spans, off, comp = [], 0, 0
        groups = []
        for k, n in enumerate(shape):
            if n:
                na = sum(sum(1 for c in m if c.isupper()) for m in pool[k][:n])
                spans.append((off, off + na - 1))
                off += na
                if n == 2:
                    groups.append(f'{comp}.{comp + 1}')
                comp += n
        marks = sorted({i for sp in spans for i in sp})
        idxs = [(i,) for i in marks] + [(a, b) for a, b in itertools.combinations(marks, 2) if not any(lo <= a <= hi and lo <= b <= hi for lo, hi in spans)]
        for ix in idxs:
            rad = '^1:' + ','.join(map(str, ix))
            out.append(f'{smi} |{rad}|')
            for g in groups:
                out.append(f'{smi} |f:{g},{rad}|')
                out.append(f'{smi} |{rad},f:{g}|')
    out += ['CC>CO>C[O] |^1:5|', 'CC>C[O]>CO |^1:3|', 'OO>[Fe]>[OH].[OH] |^1:3,4|', 'C[CH2]>O>CC |^1:1|', '[CH3]>>C |^1:0|', 'C>[O]>N |^1:1|', 'C>N>[O] |^1:2|']
    return out


def _merge(run, results, fam, odd, stats, note_keys=True):
    for n, keys, st, f, o, samples in results:
        run.case(n)
        if note_keys:
            for k in keys:
                run.nontrivial.add(k)
        for k, v in st.items():
            stats[k] = stats.get(k, 0) + v
        for d, src in ((fam, f), (odd, o)):
            for k, (cnt, lst) in src.items():
                e = d.setdefault(k, [0, []])
                e[0] += cnt
                e[1] = sorted(set(e[1]) | set(lst))[:5]
        for s_ in samples:
            if len(run.samples) < 8:
                run.samples.append(s_)


def _chunks(lst, k):
    return [lst[i:i + k] for i in range(0, len(lst), k)]


def bounded(run):
    import time
    from bounded.domains import corpus_smiles, corpus_sample, rnd
    S = _setup()
    R = S['R']
    quick = run.tier == 'quick'
    fam, odd, stats, tm = {}, {}, {}, {}
    run.assume('reference grammar + reader oracles/o03_refsmiles.py: OpenSMILES 3.1-3.10 restricted to the subset of the property statement '
               '(closures 1-9 and %10-%99, H/H1-H4, charges up to 4 in the spellings + - ++ -- +n -n, chirality @/@@ only, no wildcard, no $); '
               'dialect extensions accepted: "~" = special bond (order 8, emitted by the writer), aromatic [te]; '
               'a directional bond between two aromatic atoms is aromatic (RDKit agrees); trailing words are a title',
               'reaction SMILES: every "."-separated component of a role is self-contained; CXSMILES: only ^n: radicals and f: groups are '
               'judged, other or duplicated features are "unspecified" (raises-contract only)',
               'isotope validity is read from the tree\'s own isotope tables (their correctness is C18)',
               'H count of bracket atoms: the written count must be the atom\'s implicit_hydrogens, or (documented default, keep_implicit=False) be '
               'recorded in meta["chython_implicit_mismatch"]; with keep_implicit=True it must be kept exactly',
               'atom maps: first occurrence of a class keeps it as atom number (molecule: per molecule; reaction: per role, reagents only if unused '
               'by reactants/products); radicals guessed by the reader must be listed in meta["chython_radicalized_atoms"]',
               'parity observed through MoleculeContainer._translate_tetrahedron_sign / _translate_cis_trans_sign (True = "@" with the hydrogen '
               'or lone pair last / cis); their permutation consistency is C12; stereo marks chython does not keep are only checked (non-ring '
               'centres and bonds) against RDKit\'s own perception',
               'keywords of smiles() (oracles/o03_options.py, written from the docstring): judged on strings whose default result agreed with the reference '
               '(expected = that result transformed as the keyword documents; ignore=False must raise ValueError exactly when the text has a one-sided '
               'ring-closure bond symbol, a duplicated / reagent-shared atom class or an H count the default records as mismatch) and on strings the '
               'default call rejects (a keyword call must not return an object, except ignore_bad_isotopes=True for impossible isotope marks, which '
               'must give the molecule without the marks; no other exception class)',
               'family keys (oracles/o03_families.py): the lenient readings of the pinned reader are described as text repairs; "as-repaired" also '
               'covers "built exactly as the reader builds the repaired string" when that string has its own (separately keyed) deviation',
               'RDKit 2026.03 MolFromSmiles(sanitize=False, removeHs=False): second opinion only for strings both chython and the reference accept; '
               'a reference/RDKit disagreement is reported as oracle disagreement (note), never as a library violation')

    # 1. exhaustive token strings ------------------------------------------------------------------------------------------
    t0 = time.time()
    L = 3 if quick else 4
    items = [(FULL, (), 1, True)] + [(FULL, (a, b), L - 2, True) for a in FULL for b in FULL]
    _merge(run, pmap(_w_tokens, items, chunksize=8), fam, odd, stats)
    run.bound(f'exhaustive: all {sum(len(FULL) ** k for k in range(1, L + 1))} token strings of 1..{L} tokens over the {len(FULL)}-token alphabet {FULL}')
    L2 = 4 if quick else 5
    items = [(SLICE, (a, b), L2 - 2, L2 <= 4) for a in SLICE for b in SLICE]
    _merge(run, pmap(_w_tokens, items, chunksize=4), fam, odd, stats)
    run.bound(f'exhaustive: all {sum(len(SLICE) ** k for k in range(2, L2 + 1))} token strings of 2..{L2} tokens over the {len(SLICE)}-token slice {SLICE}'
              + ('' if L2 <= 4 else ' (accepted strings of this layer are counted, not keyed)'))
    res = pmap(_w_brackets, [('slots', h) for h in BR_SLOTS[0]] + [('tokens', h) for h in BR_TOKENS])
    _merge(run, res, fam, odd, stats)
    run.bound(f'bracket atoms: all {sum(x[0] for x in res)} strings "[b]" with b = every combination of the per-field spellings {BR_SLOTS} '
              f'(grammar order) and every string of 1..3 tokens over {BR_TOKENS}')
    tm['tokens'] = round(time.time() - t0, 1)

    # 2. grammar-generated strings ------------------------------------------------------------------------------------------
    t0 = time.time()
    r = rnd('b03-gen')
    ngen = 2000 if quick else 20000
    gen = sorted({R.generate(r, max_atoms=r.choice((4, 8, 14, 20)), reaction=(i % 6 == 0)) for i in range(ngen)})
    _merge(run, pmap(_w_strings, [(c, False, False) for c in _chunks(gen, 50)]), fam, odd, stats)
    run.bound(f'grammar-generated: {len(gen)} distinct seeded strings (molecules up to 20 atoms + closure padding, 1/6 reactions, CX radicals/groups)')
    nst = 400 if quick else 3000
    tpl = sorted(set(stereo_templates(rnd('b03-st'), nst) + cistrans_templates(rnd('b03-ct'), nst // 2) + rxn_cx_templates()))
    _merge(run, pmap(_w_strings, [(c, True, False) for c in _chunks(tpl, 50)]), fam, odd, stats)
    run.bound(f'templates: {len(tpl)} stereo-centre spellings (first atom / preceded / later component / branch / ring closure / reaction role), '
              f'directional-bond spellings, reaction and CXSMILES cases')
    rr = rxn_radical_templates()
    _merge(run, pmap(_w_strings, [(c, False, False) for c in _chunks(rr, 60)]), fam, odd, stats)
    run.bound(f'reaction radicals: {len(rr)} fixed reaction strings - every empty/one/two-molecule shape of the three roles x CXSMILES radical indices on the '
              f'first and last atom of every role (single and cross-role pairs) x without / with an f: group')
    _merge(run, pmap(_w_strings, [(c, True, False) for c in _chunks(ANCHORS, 8)]), fam, odd, stats)
    run.bound(f'anchors: {len(ANCHORS)} fixed inputs (shortest witnesses of every family reproduced on the pinned tree, plus the inputs of repaired defects)')
    tm['generated'] = round(time.time() - t0, 1)

    # 3. corpus ------------------------------------------------------------------------------------------------------------
    t0 = time.time()
    cs = corpus_smiles()
    _merge(run, pmap(_w_strings, [(c, True, True) for c in _chunks(cs, 60)]), fam, odd, stats)
    run.bound(f'corpus: the {len(cs)} strings of pach/lipophilicity.csv (each must parse and agree)')
    tm['corpus'] = round(time.time() - t0, 1)

    # 4. single-character edits --------------------------------------------------------------------------------------------
    t0 = time.time()
    short = sorted(s for s in set(cs) if len(s) <= (36 if quick else 48))
    base = rnd('b03-mut').sample(short, 100 if quick else 200)
    alpha = MUT_QUICK if quick else MUT_FULL
    res = pmap(_w_mutants, [(c, alpha) for c in _chunks(base, 2)])
    _merge(run, res, fam, odd, stats, note_keys=False)
    run.bound(f'edits: every single-character deletion, substitution and insertion (alphabet of {len(alpha)} characters) of {len(base)} seeded corpus '
              f'strings of length <= {36 if quick else 48}: {sum(x[0] for x in res)} strings')
    tm['edits'] = round(time.time() - t0, 1)

    # 5. input classes the token alphabet does not reach (coverage audit) ---------------------------------------------------------
    t0 = time.time()
    from bounded import d03_extra as X
    extra = {'charge spellings': X.charge_strings(), 'H count spellings': X.hcount_strings(), 'ring-closure numbers and bond-symbol pairs': X.closure_strings(),
             'element symbols': X.element_strings(), 'isotopes 0..320 of 9 elements': X.isotope_strings(),
             'atom classes (gaps, descending, duplicates, > 999; molecules and reaction roles)': X.class_strings(),
             'CXSMILES radical multiplicities ^0..^8, several blocks, f: groups of every role': X.cx_strings(),
             'blank, control and non-ASCII inputs': X.blank_strings()}
    allx = sorted({x for v in extra.values() for x in v})
    _merge(run, pmap(_w_strings, [(c, True, False) for c in _chunks(allx, 150)]), fam, odd, stats)
    run.bound('input classes (fixed enumerations of bounded/d03_extra.py): ' + '; '.join(f'{len(v)} {k}' for k, v in extra.items()) + f' - {len(allx)} distinct strings')
    eb = X.edit_bases()
    res = pmap(_w_mutants, [([b], alpha) for b in eb])
    _merge(run, res, fam, odd, stats, note_keys=False)
    run.bound(f'edits of reactions / CXSMILES: every single-character deletion, substitution and insertion (same {len(alpha)} characters) of {len(eb)} fixed strings '
              f'(reaction roles, atom classes, f: groups, radicals, two-digit closures, charges, isotopes, stereo): {sum(x[0] for x in res)} strings')
    tm['classes'] = round(time.time() - t0, 1)

    # 6. the documented keywords of smiles() ---------------------------------------------------------------------------------------
    t0 = time.time()
    two = [a + b for a in [''] + FULL for b in FULL]
    nk = 500 if quick else len(cs)
    kdom = sorted(set(two) | set(gen[:1200 if quick else 6000]) | set(tpl) | set(rr) | set(ANCHORS) | set(X.class_strings()) | set(X.cx_strings())
                  | set(X.closure_strings()) | set(X.blank_strings()) | set(X.isotope_strings()[::3]) | set(X.hcount_strings()) | set(KEYWORD_CASES)
                  | set(rnd('b03-kw').sample(cs, nk)))
    res = pmap(_w_strings, [(c, False, False, True) for c in _chunks(kdom, 60)])
    _merge(run, res, fam, odd, stats, note_keys=False)
    run.bound(f'keywords: each of {[n for n, _ in OPTS]} on {len(kdom)} strings (all 1-2 token strings, {1200 if quick else 6000} grammar-generated, all templates, '
              f'reaction radicals, anchors, atom-class / CXSMILES / ring-closure / H count / blank enumerations, every third isotope string, {len(KEYWORD_CASES)} '
              f'keyword cases, {nk} seeded corpus strings); judged where the default call agreed with the reference or rejected')
    tm['keywords'] = round(time.time() - t0, 1)

    memb = {k[7:]: v for k, v in stats.items() if k.startswith('member|')}
    for k in list(stats):
        if k.startswith('member|'):
            del stats[k]

    def _members_of(k):
        if k.startswith('smiles-exc:'):
            parts = k.split(':')      # smiles-exc : Exc@file.py : function : context [: valid-input]
            return memb.get('exc-context:' + ':'.join(parts[3:]))
        return memb.get(k)
    run.notes['b03_family_tightness'] = {k: {'members': _members_of(k), 'failing': fam[k][0]} for k in sorted(fam)}
    run.notes['b03_outcomes'] = dict(sorted(stats.items(), key=lambda kv: -kv[1])[:40])
    run.notes['b03_seconds'] = tm
    if odd:
        run.notes['b03_oracle_disagreements'] = {k: {'count': v[0], 'examples': [x[1] for x in v[1]]} for k, v in odd.items()}
    for k in sorted(fam):
        cnt, lst = fam[k]
        _, s, det = lst[0]
        if len(s) > 12 and k != 'smiles-corpus-rejected':
            s2 = shrink(s, k)
            if len(s2) < len(s):
                lst.insert(0, (len(s2), s2, next(d for f, d in judge_opts(s2) if f == k) if k.startswith('smiles-opt:') else judge(s2, True)[2]))
                _, s, det = lst[0]
        run.violation(k, f'C03 family {k}: {cnt} input(s), shortest {s!r}: {det}',
                      witness={'smiles': s, 'examples': [x[1] for x in lst], 'count': cnt}, native=det)


def replay(rec):
    _setup()
    w = rec['witness']
    ok = True
    for s in [w['smiles']] + list(w.get('examples', ())):
        st, fam, det = judge(s, deep=True)
        print(f'  {s!r}: {st} {fam or ""} {det or ""}')
        ok = ok and st != 'violation'
        if str(rec.get('key', '')).startswith('smiles-opt:'):
            for f, d in judge_opts(s):
                print(f'  {s!r}: keyword contract {f} {d}')
                ok = False
    return ok
