"""C20 - see DESIGN.md §2 C20.  Deductive parts (contracts/) are added to this module as they are built; the bounded stand-in is checks/b20.py."""
from vlib import env
from checks.common import anchored, bounded_part, want, contract_sources, make_replay, t_oblig
from pysym.harness import run_cases

LEVEL = 'exploration'
DEDUCTIVE = [('contracts.stereo', ('involution', 'translate_tetrahedron_sign/tetrahedron', 'CANARY'))]   # sign translation kernel (shared with C12)
FINISH = dict(rule='deductive: one obligation per path / table key; B: see run.bound entries of checks/b20.py',
              explanation='T: bond type maps mutually inverse on {1,2,3,4,8}; P: chirality tag translation kernel (sign translators, shared with C12); B: both bridge directions against RDKit',
              trusted_base=['CPython', 'z3', 'pysym', 'RDKit (external oracle)'])
replay = make_replay('C20')


def deductive(run):
    for mod, flt in DEDUCTIVE:
        run_cases(run, mod, select=(lambda c, flt=flt: flt is None or any(x in c.name for x in flt)))


def main(run):
    env.setup()
    if want(run, 'T'):
      with anchored(run, 'C20/T'):
        from contracts import tablelemmas
        tablelemmas.C20(run)
    if want(run, 'P') or want(run, 'T'):
      with anchored(run, 'C20/P'):
        deductive(run)
    bounded_part(run, 'C20')
    return FINISH
