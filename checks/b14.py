"""C14 bounded stand-in (engine B): normalisation conserves composition, is idempotent and numbering independent.

Contracts from the statement, attached to standardize, canonicalize, fix_resonance, neutralize, standardize_charges,
explicify_hydrogens, implicify_hydrogens, enumerate_tautomers (each with the argument variants in FUNCS):

  heavy         heavy-atom multiset (element, isotope) unchanged                                   [every input]
  conserve      net charge and total hydrogens (implicit + explicit) unchanged by rearrangements;
                neutralize: delta charge == delta hydrogens                                         [valence-valid input]
  valid         result valence-valid: every hydrogen count defined and allowed by the valence rules
                of the atom (checked on a Kekule copy)                                              [strongly valid input]
  no-exception                                                                                       [valence-valid input]
  idempotent    f(f(m)) == f(m) as canonical strings                                                 [every input]
  renumber      f(pi.m) == f(m) as canonical strings (tautomer fixing off everywhere; on for the
                undecorated corpus only - recorded gap: hetero-arene tautomer choice by match order)
  inverse       implicify(explicify(k)) == k and explicify(implicify(E)) == E on Kekule forms (the code's own precondition);
                on aromatic forms only heavy/charge/total-H conservation
  rule          every rule of _groups (single, double) and _metal_organics applied to its OWN pattern instantiated as a molecule:
                the instance is rewritten to the rule's declared right-hand side (atom_fix/bonds_fix applied independently; or to what
                standardize makes of that right-hand side when a later rule continues), conserves composition, and is a fixed point
                afterwards; _charged rules: their documented `A>>B` example
  documented    every (input, output) pair of standardize/test/test_groups.py: standardize(smiles(a)) == smiles(b)

Canonical strings of centres with constitutionally equivalent substituents are not numbering independent (documented gap of
C01): an input or output whose OWN canonical string changes under the renumbering is counted as gap_hit, not as violation.

Coverage audit (every keyword of the observed functions, every input class a branch of the anchored code needs):
  * keywords: logging=True / ignore=False / prepare_molecule=False / start_map of the six observed functions are variants of FUNCS under
    the same contracts (OPTION_BASE names the default-keyword function; a violation that the default-keyword function shows on the same
    input under the same renumbering is reported under the default function's key: same root cause, independent of the keyword);
    every keyword of enumerate_tautomers (TAUT_OPTS) under the composition contracts
  * renumbering flavours: permutation of the same numbers, sparse numbers up to 5000 (gaps, > 999), descending + shifted numbers,
    permutation + shuffled insertion order of atoms and bonds
  * input classes: Kekule forms of the corpus molecules, the decorated graph atlas (the property's generator), radicals and biradicals,
    sulfonium / thiocarbenium zwitterions, explicit hydrogens and hydrogen isotopes, isotope labels, cyclopentadienyl anions, single atoms and
    the empty molecule, sugars / cumulenes / annular hetero-arene tautomers, every documented charge-rule example with N- and C-methyl
    substituents on every position (both sides of the rule)
"""
import itertools
import os
import random
import time

from vlib import env
from vlib.report import pmap

RULE = ('bounded: corpus sample + the same molecules decorated with functional-group spellings of the rule tables, under seeded '
        'renumbering; every rule on its own instantiated pattern; documented example pairs')

REARR = 'rearrangement'
# name -> (callable, kind, renumber-on-decorated?)
FUNCS = {
    'standardize(fix_tautomers=False)': (lambda m: m.standardize(fix_tautomers=False), REARR, True),
    'standardize()': (lambda m: m.standardize(), REARR, False),
    'canonicalize(fix_tautomers=False)': (lambda m: m.canonicalize(fix_tautomers=False), REARR, True),
    'canonicalize()': (lambda m: m.canonicalize(), REARR, False),
    'canonicalize(keep_kekule=True, fix_tautomers=False)': (lambda m: m.canonicalize(keep_kekule=True, fix_tautomers=False), REARR, True),
    'canonicalize(keep_kekule=True)': (lambda m: m.canonicalize(keep_kekule=True), REARR, False),
    'fix_resonance()': (lambda m: m.fix_resonance(), REARR, True),
    'neutralize()': (lambda m: m.neutralize(), 'neutralize', True),
    'neutralize(keep_charge=False)': (lambda m: m.neutralize(keep_charge=False), 'neutralize', True),
    'standardize_charges()': (lambda m: m.standardize_charges(), REARR, True),
    'explicify_hydrogens()': (lambda m: m.explicify_hydrogens(), REARR, True),
    'implicify_hydrogens()': (lambda m: m.implicify_hydrogens(), REARR, True),
}
# keyword variants: name -> default-keyword function whose contracts (and root causes) they share
OPTION_BASE = {
    'standardize(logging=True, ignore=False)': 'standardize()',
    'standardize(fix_tautomers=False, logging=True, ignore=False)': 'standardize(fix_tautomers=False)',
    'canonicalize(logging=True, ignore=False)': 'canonicalize()',
    'canonicalize(fix_tautomers=False, logging=True, ignore=False)': 'canonicalize(fix_tautomers=False)',
    'canonicalize(keep_kekule=True, logging=True)': 'canonicalize(keep_kekule=True)',
    'canonicalize(keep_kekule=True, fix_tautomers=False, logging=True)': 'canonicalize(keep_kekule=True, fix_tautomers=False)',
    'fix_resonance(logging=True)': 'fix_resonance()',
    'neutralize(logging=True)': 'neutralize()',
    'neutralize(keep_charge=False, logging=True)': 'neutralize(keep_charge=False)',
    'standardize_charges(logging=True)': 'standardize_charges()',
    'standardize_charges(prepare_molecule=False)': 'standardize_charges()',
    'implicify_hydrogens(logging=True)': 'implicify_hydrogens()',
    'explicify_hydrogens(start_map=max+17)': 'explicify_hydrogens()',
}
FUNCS.update({
    'standardize(logging=True, ignore=False)': (lambda m: m.standardize(logging=True, ignore=False), REARR, False),
    'standardize(fix_tautomers=False, logging=True, ignore=False)': (lambda m: m.standardize(fix_tautomers=False, logging=True, ignore=False), REARR, True),
    'canonicalize(logging=True, ignore=False)': (lambda m: m.canonicalize(logging=True, ignore=False), REARR, False),
    'canonicalize(fix_tautomers=False, logging=True, ignore=False)': (lambda m: m.canonicalize(fix_tautomers=False, logging=True, ignore=False), REARR, True),
    'canonicalize(keep_kekule=True, logging=True)': (lambda m: m.canonicalize(keep_kekule=True, logging=True), REARR, False),
    'canonicalize(keep_kekule=True, fix_tautomers=False, logging=True)': (lambda m: m.canonicalize(keep_kekule=True, fix_tautomers=False, logging=True), REARR, True),
    'fix_resonance(logging=True)': (lambda m: m.fix_resonance(logging=True), REARR, True),
    'neutralize(logging=True)': (lambda m: m.neutralize(logging=True), 'neutralize', True),
    'neutralize(keep_charge=False, logging=True)': (lambda m: m.neutralize(keep_charge=False, logging=True), 'neutralize', True),
    'standardize_charges(logging=True)': (lambda m: m.standardize_charges(logging=True), REARR, True),
    'standardize_charges(prepare_molecule=False)': (lambda m: m.standardize_charges(prepare_molecule=False), REARR, True),
    'implicify_hydrogens(logging=True)': (lambda m: m.implicify_hydrogens(logging=True), REARR, True),
    'explicify_hydrogens(start_map=max+17)': (lambda m: m.explicify_hydrogens(start_map=max(m._atoms, default=0) + 17), REARR, True),
})
BASE_FUNCS = [f for f in FUNCS if f not in OPTION_BASE]
CHARGE_FUNCS = ['standardize_charges()', 'standardize_charges(logging=True)', 'standardize_charges(prepare_molecule=False)',
                'canonicalize(fix_tautomers=False)', 'canonicalize()', 'canonicalize(keep_kekule=True, fix_tautomers=False)',
                'canonicalize(keep_kekule=True, logging=True)']
TAUT_LIMIT = 24
# VERIF_B14_MEASURE=1: also run the attribution experiments of the known families on inputs that do not fail (tightness table: members / failing)
MEASURE = bool(os.environ.get('VERIF_B14_MEASURE'))
# every keyword of enumerate_tautomers (prepare_molecules=False is called on the Kekule form without explicit hydrogens: its documented precondition)
TAUT_OPTS = {
    'zwitter=False': {'zwitter': False},
    'partial=True': {'partial': True},
    'increase_aromaticity=False': {'increase_aromaticity': False},
    'keep_sugars=False': {'keep_sugars': False},
    'heteroarenes=False': {'heteroarenes': False},
    'keto_enol=False': {'keto_enol': False},
    'prepare_molecules=False': {'prepare_molecules': False},
    'partial=True, keep_sugars=False, increase_aromaticity=False': {'partial': True, 'keep_sugars': False, 'increase_aromaticity': False},
    'limit=1': {'limit': 1},
    'limit=2': {'limit': 2},
    'limit=5': {'limit': 5},
}


def _imports():
    global O, I, parse, renumber, rnd, smiles
    from oracles import o14_rules as O
    from oracles import o14_inputs as I
    from bounded.domains import parse, renumber, rnd
    from chython import smiles


def _where(e):
    import traceback
    tb = traceback.extract_tb(e.__traceback__)
    return next((f'{f.filename.split("/chython/")[-1]}:{f.name}' for f in reversed(tb) if '/chython/' in f.filename), '?')


def _library_exception(e):
    """True when the exception was raised inside chython (deepest frame), i.e. not by the harness itself"""
    import traceback
    tb = traceback.extract_tb(e.__traceback__)
    return bool(tb) and '/chython/' in tb[-1].filename or any('/chython/' in f.filename for f in tb[-3:])


class Acc:
    def __init__(self):
        self.n = 0
        self.keys = set()
        self.samples = []
        self.viol = []
        self.stats = {}
        self.members = set()

    def stat(self, k, d=1):
        self.stats[k] = self.stats.get(k, 0) + d

    def v(self, key, what, witness, native=None):
        self.viol.append((key, what, witness, native))

    def member(self, family):
        """the family predicate holds for the current (input, function) case - whether or not a contract fails"""
        self.members.add(family)

    def pack(self):
        return self.n, self.keys, self.samples, self.viol, self.stats


def _perm_of(mp):
    return ','.join(f'{a}>{b}' for a, b in mp.items())


# ---------------------------------------------------------------------------------------------------------------------------
# contracts of one function on one molecule
# ---------------------------------------------------------------------------------------------------------------------------
def _signature(m_in, m_out):
    return O.resonance_signature(m_in, m_out) or I.radical_signature(m_in, m_out)


# contracts that the record of each fix_resonance signature describes (another contract failing with the signature present keeps its own key)
SIG_CONTRACTS = {'ammonium-exit': ('conserve', 'valid', 'idempotent', 'renumber'), 'aromatic-bond-arithmetic': ('conserve', 'valid', 'idempotent', 'renumber'),
                 'radical-pairing-valence': ('valid',)}


def _sig_key(sg, contract):
    return f'resonance:{sg}'


def _invalid_result_key(e, fname, inp):
    """`ignore=False` makes standardize / canonicalize raise ImplementationError exactly when the result would carry invalid valences (library
    docstring): that exception IS the `valid` contract failing.  It is attributed like the `valid` failure of the same call without the keyword:
    when the independent signature predicate of what fix_resonance did on this input names a recorded root cause whose record describes `valid`,
    that family; otherwise None (the exception keeps its own key)."""
    if type(e).__name__ != 'ImplementationError' or 'ignore=False' not in fname or fname not in OPTION_BASE:
        return None
    try:
        out = inp.copy()
        FUNCS[OPTION_BASE[fname]][0](out)
        sg = _signature(inp, out)
    except Exception:
        return None
    return _sig_key(sg, 'valid') if sg and 'valid' in SIG_CONTRACTS.get(sg, ()) else None


def _rule_fires_without_labels(f, m0):
    """the function rewrites the label-free molecule (a rule fires at all): part of the isotope family predicate"""
    c = m0.copy()
    for _, a in c.atoms():
        a._isotope = None
    c.flush_cache()
    s0 = str(c)
    try:
        f(c)
    except Exception:
        return False
    return str(c) != s0


def _renumber(m, r):
    """(renumbered copy, mapping, flavour): permutation of the same numbers / sparse numbers with gaps up to 5000 / descending and shifted /
    permutation + rebuilt container with shuffled insertion order of atoms and bonds"""
    from bounded.domains import rebuild
    flavour = r.choice(('perm', 'perm', 'sparse', 'descending', 'rebuild'))
    nums = list(m)
    if flavour == 'sparse':
        tgt = r.sample(range(1, 5001), len(nums))
    elif flavour == 'descending':
        top = max(nums, default=0) + r.choice((3, 1000, 2900))
        tgt = [top - n for n in nums]
    else:
        tgt = nums[:]
        r.shuffle(tgt)
    mp = dict(zip(nums, tgt))
    c = m.copy()
    c.remap(mp)
    if flavour == 'rebuild':
        c = rebuild(c, r)
    return c, mp, flavour


def _contract_fails(bname, contract, m0, p0):
    """attribution experiment for keyword variants: does the default-keyword function violate the same contract on the same input
    (p0: the same renumbered input)?  Any error of the experiment itself counts as 'no'."""
    f, kind, _ = FUNCS[bname]
    try:
        a = m0.copy()
        try:
            f(a)
        except Exception:
            return contract == 'exc'
        if contract == 'heavy':
            return O.heavy(a) != O.heavy(m0)
        if contract in ('conserve', 'valid'):
            h1 = O.total_h(a)
            if h1 is None:
                return True
            dq, dh = O.net_charge(a) - O.net_charge(m0), h1 - O.total_h(m0)
            if contract == 'conserve':
                return bool(dq or dh) if kind == REARR else dq != dh
            return bool(O.invalid_atoms(a))
        if contract == 'idempotent':
            b = a.copy()
            f(b)
            return str(b) != str(a)
        if contract == 'renumber' and p0 is not None:
            p = p0.copy()
            f(p)
            return str(p) != str(a)
    except Exception:
        pass
    return False


def _check_function(acc, fname, m0, src, r, renumber_ok=True, label=''):
    """m0 is not modified.  src: text identifying the input (SMILES + decoration)"""
    f, kind, _ = FUNCS[fname]
    base = OPTION_BASE.get(fname)
    valid = O.weakly_valid(m0)          # the statement's precondition: every hydrogen count defined (and no multi-bonded hydrogen)
    strong = valid and not O.invalid_atoms(m0)
    a = m0.copy()
    acc.n += 1
    sig = None
    uses_resonance = fname.startswith(('fix_resonance', 'standardize(', 'canonicalize('))  # standardize_charges does not call it
    uses_rules = fname.startswith(('standardize(', 'canonicalize('))
    # recorded root cause (independent predicate on the input): ferrocene branch of standardize_charges on a hydrogen-free ring carbanion
    carbanion = fname.startswith(('standardize_charges(', 'canonicalize(')) and I.bare_ring_carbanion(m0)

    def fam(contract, p0=None):
        """function name in the key: the default-keyword function when it shows the same violation on the same input"""
        if base is not None and _contract_fails(base, contract, m0, p0):
            return base
        return fname
    # recorded root cause (independent predicate on input and function): a hydrogen atom with a covalent and a coordinate (order 8) bond is
    # refused by implicify_hydrogens, which canonicalize calls; only that refusal (ValenceError raised there) carries the family key
    hbond = valid and fname.startswith(('canonicalize(', 'implicify_hydrogens(')) and bool(I.hydrogen_bonded_hydrogens(m0))
    if hbond:
        acc.member('exc:ValenceError@hydrogen-with-coordinate-bond')
    try:
        f(a)
    except Exception as e:
        if hbond and type(e).__name__ == 'ValenceError' and _where(e).endswith(':implicify_hydrogens'):
            acc.v('exc:ValenceError@hydrogen-with-coordinate-bond', f'{fname} raised {type(e).__name__}: {e} at {_where(e)} on {src}: check_valence() '
                  f'== [] but a hydrogen atom carries a coordinate bond', {'smiles': src, 'function': fname}, f'{type(e).__name__}: {e}')
        elif valid and type(e).__name__ == 'ImplementationError':
            # ignore=False: "standardization leads to invalid valences" is the 'valid' contract of the default-keyword function
            sg = _signature(m0, a) if uses_resonance else None
            if sg:
                acc.member(_sig_key(sg, 'valid'))
            acc.v(_sig_key(sg, 'valid') if sg else f'valid@{fam("valid")}', f'{fname} raised {type(e).__name__}: {e} on valence-valid {src}',
                  {'smiles': src, 'function': fname, 'signature': sg}, f'{type(e).__name__}: {e}')
        elif valid:
            acc.v(_invalid_result_key(e, fname, m0) or f'exc:{type(e).__name__}@{fam("exc")}', f'{fname} raised {type(e).__name__}: {e} at {_where(e)} on valence-valid {src}',
                  {'smiles': src, 'function': fname, 'signature': sig}, f'{type(e).__name__}: {e}')
        else:
            acc.stat(f'exception-on-valence-invalid-input(not claimed):{type(e).__name__}@{fname}')
        return None
    s_in, s_a = str(m0), str(a)
    sig = _signature(m0, a) if uses_resonance else None

    if sig:
        for c in SIG_CONTRACTS.get(sig, ()):
            acc.member(_sig_key(sig, c))
    if carbanion:
        for c in ('valid', 'idempotent'):
            acc.member(f'{c}@bare-ring-carbanion')
    isotope = renumber_ok and uses_rules and I.isotope_breaks_symmetry(m0) and _rule_fires_without_labels(f, m0)
    if isotope:
        acc.member('renumber:isotope-label-on-symmetric-rule-atoms')
    unbalanced = None
    if renumber_ok and fname.startswith('neutralize(') and 'keep_charge=False' not in fname:
        unbalanced = I.neutralize_has_choice(m0)
        acc.member(f'renumber@neutralize():{"unbalanced-sites" if unbalanced else "balanced-sites"}')

    def key(contract, out=None, inp=None, p0=None):
        """root-cause family: contract@function, or a recorded root cause named by an independent predicate (shape of the result of
        fix_resonance / class of the input) TOGETHER WITH the contract that the record describes: another outcome is another key"""
        sg = sig or (_signature(inp, out) if out is not None and uses_resonance else None)
        if sg and contract in SIG_CONTRACTS.get(sg, ()):
            return _sig_key(sg, contract)
        if carbanion and contract in ('valid', 'idempotent'):
            return f'{contract}@bare-ring-carbanion'
        if contract == 'renumber' and isotope:
            return 'renumber:isotope-label-on-symmetric-rule-atoms'
        if contract == 'renumber' and unbalanced is not None:
            return f'renumber@neutralize():{"unbalanced-sites" if unbalanced else "balanced-sites"}'
        return f'{contract}@{fam(contract, p0)}'
    if s_in != s_a:
        acc.keys.add((fname, s_in))  # non-trivial: the function changed the molecule
        acc.stat(f'changed-by:{fname}')
    if O.heavy(a) != O.heavy(m0):
        acc.v(key('heavy'), f'{fname} changed the heavy-atom multiset of {src}: {s_in} -> {s_a}', {'smiles': src, 'function': fname, 'signature': sig}, s_a)
    if valid:
        dq = O.net_charge(a) - O.net_charge(m0)
        h0, h1 = O.total_h(m0), O.total_h(a)
        if h1 is None:
            acc.v(key('valid'), f'{fname} produced undefined hydrogen counts {a.check_valence()} from valence-valid {src}: {s_a}',
                  {'smiles': src, 'function': fname, 'signature': sig}, s_a)
        else:
            dh = h1 - h0
            if kind == REARR and (dq or dh):
                acc.v(key('conserve'), f'{fname} changed net charge by {dq} and hydrogens by {dh}: {s_in} -> {s_a}',
                      {'smiles': src, 'function': fname, 'signature': sig}, s_a)
            elif kind == 'neutralize' and dq != dh:
                acc.v(key('conserve'), f'{fname} changed net charge by {dq} but hydrogens by {dh}: {s_in} -> {s_a}',
                      {'smiles': src, 'function': fname, 'signature': sig}, s_a)
            elif strong:
                bad = O.invalid_atoms(a)
                if bad:
                    acc.v(key('valid'), f'{fname} produced a valence error on atoms {bad[:5]}: {s_in} -> {format(a, "h")}',
                          {'smiles': src, 'function': fname, 'signature': sig}, s_a)
    # idempotence
    b = a.copy()
    acc.n += 1
    try:
        f(b)
        if MEASURE and uses_resonance and not sig and _resonance_flipflop(m0, a):
            acc.member('resonance:not-idempotent')
        # the recorded outcome is another resonance form (only bond orders and formal charges move); anything else keeps its own key
        if str(b) != s_a and not sig and uses_resonance and I.only_electrons_moved(a, b) and _resonance_flipflop(m0, a):
            # recorded root cause: fix_resonance moves the charge of N-substituted amidinium/guanidinium cations back and forth
            acc.v('resonance:not-idempotent', f'{fname}: fix_resonance alone is not idempotent on {src}: {s_a} -> {b}',
                  {'smiles': src, 'function': fname, 'signature': sig}, str(b))
        elif str(b) != s_a:
            acc.v(key('idempotent', b, a), f'{fname} twice differs from once on {src}: {s_a} -> {b}', {'smiles': src, 'function': fname, 'signature': sig}, str(b))
    except Exception as e:
        if valid:
            acc.v(_invalid_result_key(e, fname, a) or f'exc:{type(e).__name__}@{fam("exc")}', f'second {fname} raised {type(e).__name__}: {e} at {_where(e)} on {s_a}',
                  {'smiles': src, 'function': fname, 'signature': sig}, f'{type(e).__name__}: {e}')
    # renumbering
    if renumber_ok:
        p, mp, flavour = _renumber(m0, r)
        p0 = p.copy()
        acc.n += 1
        acc.stat(f'renumbering:{flavour}')
        if str(p) != s_in:
            acc.stat('gap_hits:input-string-not-numbering-independent(C01)')
        else:
            try:
                f(p)
            except Exception as e:
                if valid:
                    acc.v(_invalid_result_key(e, fname, p0) or f'exc:{type(e).__name__}@{fam("exc")}', f'{fname} raised {type(e).__name__}: {e} at {_where(e)} on renumbered ({flavour}) {src}',
                          {'smiles': src, 'function': fname, 'permutation': _perm_of(mp), 'flavour': flavour}, f'{type(e).__name__}: {e}')
                return a
            if MEASURE and uses_resonance and _resonance_choice(m0, p0, mp):
                acc.member('resonance:choice-by-atom-number')
            if str(p) != s_a:
                # "renumbering the input renumbers the output" is a statement about the two RESULTS being the same molecule; equal canonical
                # strings are only a proxy for it.  When the strings differ the independent isomorphism oracle (constitution + configuration)
                # decides; a pair it declares isomorphic is a canonical-STRING difference, i.e. C01's business (its documented gap), and is counted.
                # The older proxy (does the result's own string change when the result is renumbered) is kept for pairs the oracle leaves
                # undecided; its map is extended to atoms the operation added (explicit hydrogens), which the input's map does not cover.
                same = _same_molecule(a, p)
                a2 = a.copy()
                top = max(list(a2._atoms) + list(mp.values()), default=0)
                a2.remap({**{n: top + 1 + i for i, n in enumerate(x for x in a2._atoms if x not in mp)}, **{k: v for k, v in mp.items() if k in a2._atoms}})
                if same is True:
                    acc.stat('gap_hits:output-string-differs-but-results-are-isomorphic-incl-configuration(C01)')
                elif str(a2) != s_a:
                    acc.stat('gap_hits:output-string-not-numbering-independent(C01)')
                elif 'keep_kekule=True' in fname and _same_aromatic_form(a, p):
                    # which of several Kekule structures of one aromatic system is returned is not claimed ("return kekule form")
                    acc.stat('kekule-structure-choice-differs-under-renumbering(not claimed)')
                elif uses_resonance and I.only_electrons_moved(a, p, mp) and _resonance_choice(m0, p0, mp):
                    # recorded root cause: fix_resonance pairs donors and acceptors in set.pop() order of the atom numbers
                    acc.v('resonance:choice-by-atom-number', f'{fname}: fix_resonance alone already depends on numbering for {src}: {s_a} vs {p}',
                          {'smiles': src, 'function': fname, 'permutation': _perm_of(mp), 'flavour': flavour}, str(p))
                elif _tautomer_fix_choice(fname, m0, p0, mp, a, p):
                    # recorded root cause (independent predicate, see _tautomer_fix_choice): the hetero-arene tautomer fix picks its tautomer in match
                    # order, i.e. by atom number
                    acc.v('renumber:tautomer-fix-by-atom-number', f'{fname} returns another TAUTOMER after renumbering ({flavour}) for {src}: {s_a} vs {p}',
                          {'smiles': src, 'function': fname, 'permutation': _perm_of(mp), 'flavour': flavour}, str(p))
                else:
                    acc.v(key('renumber', p, p0, p0), f'{fname} depends on numbering ({flavour}) for {src}: {s_a} vs {p} under {_perm_of(mp)[:120]}',
                          {'smiles': src, 'function': fname, 'permutation': _perm_of(mp), 'flavour': flavour}, str(p))
    return a


def _same_molecule(a, b):
    """independent verdict: True when the two results are isomorphic including configuration, False when they are not, None when undecided"""
    try:
        from oracles import o01_stereo as S
        if format(a, '!s') != format(b, '!s'):       # different constitution strings: stereo-free canonical strings are outside C01's gaps
            return False
        return S.stereo_isomorphic(a, b, limit=20000)
    except Exception:
        return None


def _tally(acc, n0):
    """tightness bookkeeping: per known-family key, cases where its predicate holds (members) and cases where it was emitted (failing)"""
    emitted = {v[0] for v in acc.viol[n0:]}
    for k in acc.members | emitted:
        acc.stat(f'family|{k}|members')
        if k in emitted:
            acc.stat(f'family|{k}|failing')
    acc.members = set()


def check_function(acc, fname, m0, src, r, renumber_ok=True, label=''):
    n0 = len(acc.viol)
    try:
        return _check_function_(acc, fname, m0, src, r, renumber_ok, label)
    finally:
        _tally(acc, n0)


def _check_function_(acc, fname, m0, src, r, renumber_ok=True, label=''):
    try:
        return _check_function(acc, fname, m0, src, r, renumber_ok, label)
    except Exception as e:
        if not _library_exception(e):
            raise  # harness error: never a violation
        # the function returned, but reading its result (canonical string, copy, composition) fails inside the library
        acc.v(f'exc:{type(e).__name__}@{fname}:reading-result', f'after {fname} on {src} the library raises {type(e).__name__}: {e} at {_where(e)}',
              {'smiles': src, 'function': fname}, f'{type(e).__name__}: {e}')
        return None


_NO_TAUT = {'standardize()': 'standardize(fix_tautomers=False)', 'canonicalize()': 'canonicalize(fix_tautomers=False)',
            'canonicalize(keep_kekule=True)': 'canonicalize(keep_kekule=True, fix_tautomers=False)'}


def _tautomer_fix_choice(fname, m0, p0, mp, a, p):
    """family predicate of `renumber:tautomer-fix-by-atom-number` - all three must hold:
    (1) the call runs with tautomer fixing enabled; (2) the two results are tautomers of each other: the same atoms with the same elements and the
    same bonds under the renumbering, equal net charge and equal total hydrogens - only hydrogen positions / bond orders differ; (3) attribution
    experiment: the same call with fix_tautomers=False is numbering independent on this very input"""
    base = OPTION_BASE.get(fname, fname)
    off = _NO_TAUT.get(base)
    if off is None or off not in FUNCS:
        return False
    try:
        back = {v: k for k, v in mp.items()}
        if {back.get(n, n) for n in p._atoms} != set(a._atoms):
            return False
        if any(a._atoms[back.get(n, n)].atomic_number != x.atomic_number for n, x in p._atoms.items()):
            return False
        if {frozenset((back.get(n, n), back.get(k, k))) for n, k, _ in p.bonds()} != {frozenset((n, k)) for n, k, _ in a.bonds()}:
            return False
        if O.net_charge(a) != O.net_charge(p) or O.total_h(a) != O.total_h(p):
            return False
        x, y = m0.copy(), p0.copy()
        FUNCS[off][0](x)
        FUNCS[off][0](y)
        return str(x) == str(y) or _same_molecule(x, y) is True or ('keep_kekule=True' in off and _same_aromatic_form(x, y))
    except Exception:
        return False


def _same_aromatic_form(x, y):
    """the two results are Kekule structures of one aromatic molecule: equal canonical strings after thiele(), or - where the strings differ, which
    inside C01's recorded gap they may for one molecule under two numberings - isomorphic including configuration by the independent oracle"""
    x, y = x.copy(), y.copy()
    x.thiele(fix_tautomers=False)
    y.thiele(fix_tautomers=False)
    return str(x) == str(y) or _same_molecule(x, y) is True


def _resonance_choice(m0, p0, mp=None):
    """attribution experiment: does fix_resonance alone depend on the numbering?  Tried on the given form, on the Kekule forms (only when
    kekule() chose the same Kekule structure for both numberings) and on ONE Kekule structure of m0 under the same renumbering mp"""
    trials = [(m0, p0, False), (m0, p0, True)]
    if mp is not None:
        try:
            k = m0.copy()
            k.kekule()
            kp = k.copy()
            kp.remap(mp)
            trials.append((k, kp, False))
        except Exception:
            pass
    for a, b, kek in trials:
        x, y = a.copy(), b.copy()
        try:
            if kek:
                x.kekule()
                y.kekule()
                if str(x) != str(y):
                    continue  # another Kekule structure was chosen under the renumbering: nothing can be attributed to fix_resonance
            x.fix_resonance()
            y.fix_resonance()
        except Exception:
            continue
        if str(x) != str(y):
            return True
    return False


def _resonance_flipflop(*mols):
    """attribution experiment: fix_resonance twice differs from fix_resonance once (given form or Kekule form)"""
    for m in mols:
        for kek in (False, True):
            x = m.copy()
            try:
                if kek:
                    x.kekule()
                x.fix_resonance()
                s1 = str(x)
                x.fix_resonance()
            except Exception:
                continue
            if str(x) != s1:
                return True
    return False


def check_inverse(acc, m0, src, start_map=None):
    """explicify/implicify mutually inverse on Kekule forms; conservation only on aromatic forms"""
    if not O.weakly_valid(m0) or I.hydrogen_bonded_hydrogens(m0):
        return
    kw = {} if start_map is None else {'start_map': max(m0._atoms, default=0) + start_map}
    k = m0.copy()
    try:
        k.kekule()
        k.implicify_hydrogens()
    except Exception:
        acc.stat('inverse-skipped-no-kekule')
        return
    s_k = str(k)
    e = k.copy()
    acc.n += 2
    try:
        n_add = e.explicify_hydrogens(**kw)
        s_e = str(e)
        i = e.copy()
        n_rem = i.implicify_hydrogens()
        if str(i) != s_k or n_add != n_rem:
            acc.v('inverse:implicify.explicify', f'implicify(explicify(k)) != k on the Kekule form of {src}: {s_k} -> {i} (added {n_add}, removed {n_rem})',
                  {'smiles': src}, str(i))
        j = i.copy()
        j.explicify_hydrogens(**kw)
        if str(j) != s_e:
            acc.v('inverse:explicify.implicify', f'explicify(implicify(E)) != E on the explicit Kekule form of {src}', {'smiles': src}, str(j))
        if n_add:
            acc.keys.add(('inverse', s_k))
    except Exception as x:
        acc.v(f'exc:{type(x).__name__}@inverse', f'explicify/implicify round trip raised {type(x).__name__}: {x} at {_where(x)} on {src}',
              {'smiles': src}, f'{type(x).__name__}: {x}')
    # aromatic form: conservation only
    t = m0.copy()
    t.explicify_hydrogens(**kw)
    u = t.copy()
    u.implicify_hydrogens()
    for x, nm in ((t, 'explicify_hydrogens()'), (u, 'implicify_hydrogens()')):
        if O.heavy(x) != O.heavy(m0) or O.net_charge(x) != O.net_charge(m0) or O.total_h(x) != O.total_h(m0):
            acc.v(f'conserve@{nm}:aromatic', f'{nm} on the aromatic form of {src} changed composition', {'smiles': src}, format(x, 'h'))


def _enumerate(m0, opts):
    """first TAUT_LIMIT tautomers with the composition observed AT YIELD TIME (a later step of the generator must not be able to hide or
    to produce a difference): [(tautomer, canonical string, heavy, charge, hydrogens, invalid atoms or None)]"""
    kw = dict(opts)
    kw.setdefault('limit', TAUT_LIMIT * 4)
    strong = not O.invalid_atoms(m0)
    out = []
    for t in itertools.islice(m0.enumerate_tautomers(**kw), TAUT_LIMIT):
        out.append((t, str(t), O.heavy(t), O.net_charge(t), O.total_h(t), (O.invalid_atoms(t) or None) if strong else None, _raw(t)))
    return out


def _raw(t):
    return (tuple((n, a.atomic_number, a.charge, a.is_radical, a.implicit_hydrogens) for n, a in t.atoms()),
            tuple(sorted((min(n, k), max(n, k), b.order) for n, k, b in t.bonds())))


def _invalid_shape(t, inv):
    """abstracted outcome of an invalid tautomer (part of the key: another wrong outcome is another key)"""
    if inv == ['no-kekule-form']:
        return 'no-kekule-form'
    if I.hypervalent_carbons(t):
        return 'hypervalent-carbon'
    return 'other-atoms'


def _taut_contracts(m0, ts):
    """{contract: (text, witness tautomer string)} violated by the enumerated tautomers of m0"""
    hv, q, h = O.heavy(m0), O.net_charge(m0), O.total_h(m0)
    bad = {}
    seen = {}
    for t, st, thv, tq, th, inv, raw in ts:
        # neutralisation inside the enumeration moves protons between sites of the same molecule: total conserved
        if thv != hv:
            bad.setdefault('heavy', (f'tautomer {st} has other heavy atoms', st))
        elif tq != q or th != h:
            bad.setdefault('conserve', (f'tautomer {st}: charge {q}->{tq}, hydrogens {h}->{th}', st))
        elif inv:
            bad.setdefault(f'valid:{_invalid_shape(t, inv)}', (f'tautomer {st} has a valence error on {inv[:5]}', st))
        if _raw(t) != raw:
            bad.setdefault('yielded-then-mutated', (f'tautomer {st} was changed by the generator after it had been yielded (now {format(t, "h")})', st))
        if st in seen:
            bad.setdefault('duplicate', (f'tautomer {st} is yielded twice (positions {seen[st]} and {len(seen)}): not de-duplicated by canonical form', st))
        seen.setdefault(st, len(seen))
    return bad


# recorded root cause "keto-enol paths are not validated": key per abstracted outcome (the first one is the shape the original record describes)
KETO_ENOL_KEYS = {'valid:hypervalent-carbon': 'valid@enumerate_tautomers', 'valid:no-kekule-form': 'valid@enumerate_tautomers:no-kekule-form'}


def _has_stereo(m):
    return any(a.stereo is not None for _, a in m.atoms()) or any(b.stereo is not None for _, _, b in m.bonds())


def _taut_exc_key(e, m0, call, stale):
    """recorded root cause (independent predicate `stale`: a stereo-labelled atom of the input changes hybridisation in a keto-enol tautomer of
    the label-free molecule; AND the outcome is the recorded one: KeyError raised in the stereo code while a yielded copy is hashed /
    printed): a keto-enol copy keeps the stereo label of an atom that became sp2.  Any other exception names where it was raised."""
    w = _where(e)
    if type(e).__name__ == 'KeyError' and w.startswith('algorithms/stereo.py:') and stale:
        return 'exc:KeyError@enumerate_tautomers'
    return f'exc:{type(e).__name__}@{call}:{w}'


def _from_keto_enol_stage(mo, opts):
    """attribution experiment: no tautomer is invalid when the same call is repeated with keto_enol=False"""
    if not opts.get('keto_enol', True):
        return False
    try:
        return not any(x[5] for x in _enumerate(mo, dict(opts, keto_enol=False)))
    except Exception:
        return False


def check_tautomers(acc, m0, src, r, renumber_ok, options=()):
    n0 = len(acc.viol)
    try:
        return _check_tautomers(acc, m0, src, r, renumber_ok, options)
    finally:
        _tally(acc, n0)


def _check_tautomers(acc, m0, src, r, renumber_ok, options=()):
    """composition contracts on the default call and on the keyword variants named in `options` (keys of TAUT_OPTS)"""
    if not O.weakly_valid(m0) or len(m0) > 40 or I.hydrogen_bonded_hydrogens(m0):
        return
    acc.n += 1
    stale = _has_stereo(m0) and (I.stereo_touched_by_keto_enol(m0) or I.stereo_touched_by_keto_enol(m0, opts={}))
    if stale:
        acc.member('exc:KeyError@enumerate_tautomers')
    ts = None

    def vkey(c, mo, opts, call):
        """key of a violated contract of one call: invalid tautomers of the two recorded shapes that come from the keto-enol stage keep the
        recorded keys; everything else names the call (function + keyword setting) and, for invalid tautomers, the abstracted outcome"""
        if c in KETO_ENOL_KEYS and _from_keto_enol_stage(mo, opts):
            return KETO_ENOL_KEYS[c]
        c, _, shape = c.partition(':')
        return f'{c}@{call}' + (f':{shape}' if shape else '')
    try:
        ts = _enumerate(m0, {})
    except Exception as e:
        if not _library_exception(e):
            raise
        acc.v(_taut_exc_key(e, m0, 'enumerate_tautomers', stale), f'enumerate_tautomers raised {type(e).__name__}: {e} at {_where(e)} on {src}',
              {'smiles': src}, f'{type(e).__name__}: {e}')
    if ts is not None:
        if len(ts) > 1:
            acc.keys.add(('tautomers', str(m0)))
        for c, (text, st) in _taut_contracts(m0, ts).items():
            acc.v(vkey(c, m0, {}, 'enumerate_tautomers'), f'enumerate_tautomers of {src}: {text}', {'smiles': src}, st)
    for name in options:
        opts = TAUT_OPTS[name]
        mo = m0
        if opts.get('prepare_molecules') is False:  # documented precondition: Kekule form without explicit hydrogens
            mo = m0.copy()
            try:
                mo.kekule()
                mo.implicify_hydrogens()
            except Exception:
                continue
        acc.n += 1
        acc.stat(f'tautomer-option:{name}')
        call = f'enumerate_tautomers({name})'
        try:
            to = _enumerate(mo, opts)
        except Exception as e:
            if not _library_exception(e):
                raise
            # the family predicate is asked under the keyword setting of THIS call as well: which tautomers exist depends on the keywords
            stale_here = stale or (_has_stereo(m0) and I.stereo_touched_by_keto_enol(m0, opts=opts))
            acc.v(_taut_exc_key(e, m0, call, stale_here), f'{call} raised {type(e).__name__}: {e} at {_where(e)} on {src}',
                  {'smiles': src, 'options': name}, f'{type(e).__name__}: {e}')
            continue
        if len(to) > 1:
            acc.keys.add(('tautomers', name, str(m0)))
        for c, (text, st) in _taut_contracts(mo, to).items():
            acc.v(vkey(c, mo, opts, call), f'{call} of {src}: {text}', {'smiles': src, 'options': name}, st)
    if ts is not None and renumber_ok and len(ts) < TAUT_LIMIT:
        p, mp = renumber(m0, r)
        if str(p) == str(m0):
            try:
                tp = list(itertools.islice(p.enumerate_tautomers(limit=TAUT_LIMIT * 4), TAUT_LIMIT))
            except Exception as e:
                if not _library_exception(e):
                    raise
                acc.v(_taut_exc_key(e, m0, 'enumerate_tautomers', stale), f'enumerate_tautomers raised {type(e).__name__}: {e} on renumbered {src}',
                      {'smiles': src, 'permutation': _perm_of(mp)}, f'{type(e).__name__}: {e}')
                return
            if len(tp) < TAUT_LIMIT and {str(x) for x in tp} != {x[1] for x in ts}:
                # recorded gap of the property: hetero-arene tautomers are generated in match order
                only = sorted({str(x) for x in tp} ^ {x[1] for x in ts})
                acc.stat('gap_hits:tautomer-set-differs-under-renumbering(recorded gap)')
                if len(acc.samples) < 2:
                    acc.samples.append({'recorded_gap_tautomer_sets': src, 'only_in_one': only[:4]})


# ---------------------------------------------------------------------------------------------------------------------------
# domains
# ---------------------------------------------------------------------------------------------------------------------------
def decorate(m, group, r):
    """attach the group's first atom to a seeded hydrogen-bearing carbon of m (the bond replaces one hydrogen on each side)"""
    g = smiles(group)
    try:
        g.kekule()
        g.thiele()
    except Exception:
        pass
    first = next(iter(g._atoms))
    cands = [n for n, a in m.atoms() if a.atomic_number == 6 and a.implicit_hydrogens and not a.charge]
    if not cands or not g._atoms[first].implicit_hydrogens:
        return None
    c = r.choice(cands)
    u = m | g  # both contain atom 1: the group is renumbered from max(m) + 1 in its own order
    u.add_bond(c, max(m._atoms) + 1, 1)
    try:
        u.kekule()
        u.thiele()
    except Exception:
        return None
    return u


# charged / protonated heteroaromatics in Kekule and aromatic spelling: standardize_charges moves ring charges without moving hydrogens,
# which is what the keep_kekule branch of canonicalize has to notice
AZOLIUM = ['Cn1cc[nH+]c1C', 'C[n+]1cc[nH]c1C', 'c1cc2[nH+]ccn2[nH]1', 'C[n+]1ccn(C)c1', 'c1cc[nH+]cc1', 'c1c[nH+]c[nH]1', 'Cc1[nH]cc[n+]1C',
           'CN1C=C[NH+]=C1C', 'C[N+]1=CNC=C1', 'C[n+]1ccccc1', 'Cn1cc[n+](C)c1', 'c1ccc2[nH+]c[nH]c2c1', 'Cn1c[nH+]c2ccccc12', 'C[n+]1c[nH]c2ccccc12',
           'Cc1[nH+]ccn1C', 'c1c[nH]c[nH+]1', 'O=C1C=C[NH+]=CN1', 'Nc1cc[nH+]cc1', 'C[n+]1csc(C)c1', 'c1cn2cc[nH+]c2[nH]1', 'Cn1cc[nH+]c1',
           '[O-]c1cc[n+](C)cc1', 'C[n+]1ccc(N)cc1', 'Cn1cn[n+](C)c1', 'c1[nH]n[nH+]c1C']


def check_keep_kekule(acc, m0, src):
    """canonicalize(keep_kekule=True) describes the same molecule as canonicalize(): aromatising its result gives the same string"""
    if not O.weakly_valid(m0) or I.hydrogen_bonded_hydrogens(m0):
        return
    a, b = m0.copy(), m0.copy()
    acc.n += 1
    try:
        a.canonicalize(keep_kekule=True)
        b.canonicalize()
        a.thiele()
    except Exception as e:
        if _library_exception(e):
            acc.v(f'exc:{type(e).__name__}@canonicalize(keep_kekule=True)', f'canonicalize(keep_kekule=True) / thiele raised {type(e).__name__}: {e} '
                                                                            f'at {_where(e)} on {src}', {'smiles': src, 'function': 'keep-kekule-agrees'}, repr(e))
            return
        raise
    if str(a) != str(b):
        acc.v('keep-kekule-agrees@bare-ring-carbanion' if I.bare_ring_carbanion(m0) else 'keep-kekule-agrees@canonicalize', f'canonicalize(keep_kekule=True) then thiele gives {a}, canonicalize() gives {b} for {src}',
              {'smiles': src, 'function': 'keep-kekule-agrees'}, str(a))
    elif str(m0) != str(b):
        acc.keys.add(('keep-kekule', str(m0)))


KEKULE_MARK = ' {Kekule form}'


def _kekule_form(m):
    """Kekule form of an aromatic molecule (None when there is no aromatic bond)"""
    if not O.has_aromatic(m):
        return None
    k = m.copy()
    try:
        k.kekule()
    except Exception:
        return None
    return k


def _mol_checks(acc, mol, src, r, fixed_corpus, funcs, p_option, taut, taut_options):
    for fname in funcs:
        if fname in OPTION_BASE and r.random() >= p_option:
            continue
        check_function(acc, fname, mol, src, r, renumber_ok=fixed_corpus or FUNCS[fname][2])
    check_inverse(acc, mol, src)
    if r.random() < max(p_option, .5):
        check_inverse(acc, mol, src, start_map=r.choice((1, 2, 1000)))
    check_keep_kekule(acc, mol, src)
    if taut:
        check_tautomers(acc, mol, src, r, renumber_ok=fixed_corpus, options=taut_options)


def _corpus_worker(item):
    _imports()
    idx, smi, tier = item
    quick = tier == 'quick'
    acc = Acc()
    r = random.Random(f'{env.SEED}:b14:{idx}:{smi}')
    try:
        m = parse(smi)
    except Exception:
        return acc.pack()
    inputs = [(m, smi, True)]
    # decorated variants: one covalent group, one salt/mixture partner
    g = r.choice(O.GROUPS)
    d = None
    for _ in range(4):
        d = decorate(m, g, r)
        if d is not None:
            break
        g = r.choice(O.GROUPS)
    if d is not None:
        inputs.append((d, f'{smi} + {g}', False))
        acc.stat('decorated')
    ion = r.choice(O.COUNTER_IONS)
    base = d if d is not None and r.random() < .5 else m
    x = base | smiles(ion)
    inputs.append((x, f'{str(base)} . {ion}', False))
    # salt / zwitterion variant so that neutralize meets donors and acceptors (1-2 cationic groups, 1-2 anions: all three branches)
    s_mol, parts = m, []
    for _ in range(r.choice((1, 1, 2))):
        cg = r.choice(O.CATION_GROUPS)
        d2 = decorate(s_mol, cg, r)
        if d2 is not None:
            s_mol = d2
            parts.append(cg)
    if parts:
        ans = [r.choice(O.ANIONS) for _ in range(r.choice((1, 1, 2)))]
        for an in ans:
            s_mol = s_mol | smiles(an)
        inputs.append((s_mol, f'{smi} + ' + ' + '.join(parts) + ' . ' + ' . '.join(ans), False))
        acc.stat('salts')
    # Kekule form of one of the inputs (the functions are documented for both forms; parse() always gives the aromatic one)
    if not quick or r.random() < .5:
        km, ksrc, kfixed = r.choice(inputs)
        k = _kekule_form(km)
        if k is not None:
            inputs.append((k, ksrc + KEKULE_MARK, kfixed))
            acc.stat('kekule-form-inputs')
    names = list(TAUT_OPTS)
    for mol, src, fixed_corpus in inputs:
        if len(acc.samples) < 1 and not fixed_corpus:
            acc.samples.append({'input': src, 'canonical': str(mol), 'valence_valid': not mol.check_valence()})
        taut = fixed_corpus or r.random() < .3
        _mol_checks(acc, mol, src, r, fixed_corpus, FUNCS, .34 if quick else 1., taut, r.sample(names, 2 if quick else 5))
    return acc.pack()


def _special_worker(item):
    """input classes the corpus lacks: every function variant, every keyword of enumerate_tautomers; numbering independence with tautomer
    fixing enabled is not asserted (claimed for the fixed corpus only)"""
    _imports()
    idx, cls, smi, tier = item
    acc = Acc()
    r = random.Random(f'{env.SEED}:b14:{cls}:{idx}:{smi}')
    if cls == 'empty':
        # the empty molecule has no canonical string (the SMILES writer raises on it: not this property), so only 'never fails' and
        # 'heavy atoms unchanged' are checked, and enumerate_tautomers (which hashes its results by canonical string) is left out
        from chython.containers import MoleculeContainer
        for fname, (f, _, _) in FUNCS.items():
            m = MoleculeContainer()
            acc.n += 1
            try:
                f(m)
                f(m)
            except Exception as e:
                if not _library_exception(e):
                    raise
                acc.v(f'exc:{type(e).__name__}@{fname}:empty-molecule', f'{fname} raised {type(e).__name__}: {e} at {_where(e)} on the empty molecule',
                      {'smiles': '', 'function': fname}, f'{type(e).__name__}: {e}')
                continue
            if len(m):
                acc.v(f'heavy@{fname}:empty-molecule', f'{fname} added atoms to the empty molecule', {'smiles': '', 'function': fname}, repr(list(m)))
        acc.stat('inputs:empty')
        return acc.pack()
    else:
        try:
            m = parse(smi)
        except Exception as e:
            if cls in ('atlas', 'charged-rule-instances'):
                raise  # texts written by the library itself
            acc.stat(f'special-input-not-parsed:{cls}')
            return acc.pack()
    acc.stat(f'inputs:{cls}')
    inputs = [(m, smi)]
    k = _kekule_form(m)
    if k is not None:
        inputs.append((k, smi + KEKULE_MARK))
    if len(acc.samples) < 1 and idx == 0:
        acc.samples.append({'input_class': cls, 'input': smi, 'canonical': str(m), 'valence_valid': not m.check_valence()})
    for mol, src in inputs:
        if cls == 'charged-rule-instances':
            for fname in CHARGE_FUNCS:
                check_function(acc, fname, mol, src, r, renumber_ok=FUNCS[fname][2])
            check_keep_kekule(acc, mol, src)
        elif cls == 'atlas':
            _mol_checks(acc, mol, src, r, False, FUNCS, .34 if tier == 'quick' else 1., r.random() < .5, r.sample(list(TAUT_OPTS), 2))
        else:
            _mol_checks(acc, mol, src, r, False, FUNCS, 1., True, list(TAUT_OPTS))
    return acc.pack()


def special_items(tier):
    """(index, class, SMILES text, tier) of every added input class"""
    from bounded.domains import decorated_atlas
    items = []
    for cls in ('RADICALS', 'ONIUM_ZWITTERIONS', 'EXPLICIT_H', 'H_BONDED', 'ISOTOPES', 'CYCLOPENTADIENYLS', 'HIGH_CHARGE_METALS', 'TINY', 'TAUTOMERIC'):
        items += [(j, cls.lower(), x, tier) for j, x in enumerate(getattr(I, cls))]
    items.append((0, 'empty', '', tier))
    items += [(j, 'charged-rule-instances', x, tier) for j, x in enumerate(I.charged_rule_instances(env.repo_path))]
    seen = set()
    for g, el, od, m in decorated_atlas(max_nodes=5 if tier == 'quick' else 6, trials=3 if tier == 'quick' else 4, tag='b14-atlas'):
        t = str(m)
        if t not in seen:
            seen.add(t)
            items.append((len(seen), 'atlas', t, tier))
    return items


def _rule_worker(item):
    _imports()
    name, i = item
    acc = Acc()
    try:
        return _rule_worker_(acc, name, i)
    except Exception as e:
        if not _library_exception(e):
            raise
        acc.v(f'exc:{type(e).__name__}@rule:{name}[{i}]', f'rule {name}[{i}] on its own instance: the library raises {type(e).__name__}: {e} at {_where(e)}',
              {'rule': f'{name}[{i}] '}, f'{type(e).__name__}: {e}')
        return acc.pack()


def _rule_worker_(acc, name, i):
    tabs = {(n, j): (q, af, bf, t) for n, j, q, af, bf, t in O.rule_tables()}
    q, af, bf, taut = tabs[(name, i)]
    rid = f'{name}[{i}] {q}'
    inst, why = O.instantiate(q)
    acc.n += 1
    if inst is None:
        acc.stat(f'rule-not-instantiated:{why}')
        acc.stat('not-instantiated: ' + rid)
        return acc.pack()
    src = f'instance {inst} of {rid}'
    exp = O.apply_rhs(inst, af, bf)
    c = inst.copy()
    try:
        log = c.standardize(logging=True)
    except Exception as e:
        acc.v(f'exc:{type(e).__name__}@rule:{name}[{i}]', f'standardize raised {type(e).__name__}: {e} on {src}', {'rule': rid, 'instance': str(inst)}, str(e))
        return acc.pack()
    fired = [x[2] for x in log if x[1] >= 0]
    other = [x[2] for x in log if x[1] < 0 and x[2] not in ('standardized atoms',)]
    s_c, s_exp = str(c), str(exp)
    if str(q) in fired:
        acc.keys.add(('rule', name, i))
        ok = s_c == s_exp
        if not ok:  # a later rule may continue from the declared right-hand side
            e2 = exp.copy()
            e2.standardize()
            ok = str(e2) == s_c
        if not ok:
            acc.v(f'rule-result:{name}[{i}]', f'{src}: standardize gives {s_c}, the declared right-hand side is {s_exp} (fired: {fired})',
                  {'rule': rid, 'instance': str(inst), 'expected': s_exp}, s_c)
    elif not fired and not other:
        acc.v(f'rule-not-applied:{name}[{i}]', f'{src}: the pattern matches its instance but standardize changed nothing',
              {'rule': rid, 'instance': str(inst), 'expected': s_exp}, s_c)
    else:
        acc.stat('rule-shadowed-by-earlier-rule-or-resonance')
        if s_c == s_exp:
            acc.keys.add(('rule-same-result', name, i))
    if len(acc.samples) < 1:
        acc.samples.append({'rule': rid, 'instance': str(inst), 'standardized': s_c, 'declared_rhs': s_exp})
    # composition and fixed point
    if O.heavy(c) != O.heavy(inst):
        acc.v(f'heavy@rule:{name}[{i}]', f'{src}: heavy atoms changed: {s_c}', {'rule': rid, 'instance': str(inst)}, s_c)
    if not O.invalid_atoms(inst):
        if c.check_valence() or O.net_charge(c) != O.net_charge(inst) or O.total_h(c) != O.total_h(inst):
            acc.v(f'conserve@rule:{name}[{i}]', f'{src} (valence-valid): charge {O.net_charge(inst)}->{O.net_charge(c)}, hydrogens '
                                                 f'{O.total_h(inst)}->{O.total_h(c)}, invalid atoms {c.check_valence()}: {format(c, "h")}',
                  {'rule': rid, 'instance': str(inst)}, s_c)
    else:
        acc.stat('rule-instance-is-a-valence-error-spelling')
    c2 = c.copy()
    again = c2.standardize(logging=True)
    if str(c2) != s_c:
        acc.v(f'fixed-point@rule:{name}[{i}]', f'{src}: result {s_c} is rewritten again to {c2} by {[x[2] for x in again][:3]}',
              {'rule': rid, 'instance': str(inst)}, str(c2))
    acc.n += 2
    # two groups of the same rule on one shared wildcard atom (the rule tables declare such atoms as shareable): both are converted by ONE call
    # (asserted only when the single instance is itself a fixed point: otherwise the recorded single-instance root cause repeats in both groups)
    tw = O.twin_instance(q, inst, O.rule_any_atoms().get((name, i), ()), af, bf) if str(q) in fired and str(c2) == s_c else None
    if tw is not None:
        twin, af2, bf2 = tw
        top = max(twin._atoms) + 7          # molecule numbers that differ from the pattern's own numbers (reversed and shifted)
        ren = {n: top + 3 - n for n in twin._atoms}
        twin.remap(ren)
        af2 = {ren[n]: v for n, v in af2.items()}
        bf2 = [(ren[n], ren[k], o) for n, k, o in bf2]
        s_t = str(twin)
        if len({frozenset(mp.values()) for mp in q.get_mapping(twin, automorphism_filter=False)}) >= 2:
            acc.n += 1
            acc.keys.add(('rule-twin', name, i))
            t1 = twin.copy()
            t1.standardize()
            t2 = t1.copy()
            t2.standardize()
            if str(t2) != str(t1):
                acc.v(f'twin-fixed-point@rule:{name}[{i}]', f'two groups of rule {rid} on one shared atom ({s_t}): standardize gives {t1}, a second call '
                                                            f'rewrites it to {t2}', {'rule': rid, 'instance': s_t, 'twin': True}, str(t2))
            else:
                exp2 = O.apply_rhs(twin, af2, bf2)
                ok = str(exp2) == str(t1)
                if not ok:
                    exp2.standardize()
                    ok = str(exp2) == str(t1)
                if not ok:
                    acc.v(f'twin-result@rule:{name}[{i}]', f'two groups of rule {rid} on one shared atom ({s_t}): standardize gives {t1}, the declared '
                                                           f'right-hand side applied to both groups gives {exp2}', {'rule': rid, 'instance': s_t, 'twin': True}, str(t1))
    return acc.pack()


def _pairs_worker(item):
    _imports()
    kind, a, b = item
    acc = Acc()
    acc.n += 1
    try:
        if kind == 'groups':
            t = smiles(a)
            t.standardize()
            ref = smiles(b)
            ok = t == ref
            t2 = t.copy()
            t2.standardize()
            fp = t2 == t
        else:  # charged: documented example of a charge canonisation rule (Kekule spelling): canonical position after canonicalize
            t = parse(a)
            t.standardize_charges()
            ref = parse(b)
            ok = str(t) == str(ref)
            t2 = t.copy()
            t2.standardize_charges()
            fp = str(t2) == str(t)
    except Exception as e:
        acc.v(f'exc:{type(e).__name__}@documented:{kind}:{a}', f'{kind} example {a}>>{b} raised {type(e).__name__}: {e}', {'input': a, 'output': b}, str(e))
        return acc.pack()
    if a != b:
        acc.keys.add((kind, a))
    if not ok:
        acc.v(f'documented:{kind}:{a}', f'documented spelling: {a} should become {b} ({ref}) but becomes {t}', {'input': a, 'output': b}, str(t))
    if not fp:
        acc.v(f'fixed-point@documented:{kind}:{a}', f'{a} -> {t} is rewritten again to {t2}', {'input': a, 'output': b}, str(t2))
    if len(acc.samples) < 1 and a.startswith('C=N(=O)'):
        acc.samples.append({'documented_pair': [a, b], 'got': str(t)})
    return acc.pack()


# ---------------------------------------------------------------------------------------------------------------------------
def replay(rec):
    """re-run the contract that fired on its witness; True when it holds now"""
    _imports()
    key, w = rec['key'], rec['witness'] or {}
    acc = Acc()
    if key.startswith(('rule-', 'heavy@rule', 'conserve@rule', 'fixed-point@rule', 'twin-', 'exc:')) and 'rule' in w:
        name, i = w['rule'].split(' ')[0].rstrip(']').split('[')
        res = _rule_worker((name, int(i)))
        return not any(v[0] == key for v in res[3])
    if key.startswith(('documented:', 'fixed-point@documented', 'exc:')) and 'input' in w:
        kind = key.split('documented:')[1].split(':')[0]
        res = _pairs_worker((kind, w['input'], w['output']))
        return not any(v[0] == key for v in res[3])
    if key.endswith(':empty-molecule'):
        res = _special_worker((0, 'empty', '', 'quick'))
        return not any(v[0] == key for v in res[3])
    # corpus / decorated input: the witness text is "<smiles> + <group>" or "<smiles> . <ion>" or a plain smiles
    src = w.get('smiles', '')
    fname = w.get('function')
    r = random.Random(f'{env.SEED}:replay:{src}')
    text, kek = (src[:-len(KEKULE_MARK)], True) if src.endswith(KEKULE_MARK) else (src, False)
    head, *ions = text.split(' . ')
    smi, *groups = head.split(' + ')
    mols = []
    for k in range(24 if groups else 1):  # attachment sites were seeded choices: try the possible sites
        m = parse(smi)
        rr = random.Random(k)
        for g in groups:
            m = decorate(m, g, rr) if m is not None else None
        if m is None:
            continue
        for ion in ions:
            m = m | smiles(ion)
        if kek:
            m.kekule()
        mols.append(m)
    for m in mols:
        for k in range(12):
            if fname in FUNCS:
                check_function(acc, fname, m, src, r)
            elif fname == 'keep-kekule-agrees':
                check_keep_kekule(acc, m, src)
            else:
                check_inverse(acc, m, src)
                check_inverse(acc, m, src, start_map=(1, 2, 1000)[k % 3])
                check_tautomers(acc, m, src, r, True, options=[w['options']] if w.get('options') in TAUT_OPTS else ())
                break
    fam = key.split(':' + src)[0] if src else key
    return not any(v[0].startswith(fam) for v in acc.viol)


def bounded(run):
    _imports()
    from bounded.domains import corpus_smiles
    quick = run.tier == 'quick'
    n = 200 if quick else 2000
    t0 = time.time()
    cs = corpus_smiles()
    r = rnd('b14-corpus')
    idx = r.sample(range(len(cs)), n)
    res = pmap(_corpus_worker, [(i, cs[i], run.tier) for i in idx] + [(100000 + j, x, run.tier) for j, x in enumerate(AZOLIUM)], chunksize=2)
    sp = special_items(run.tier)
    res_s = pmap(_special_worker, sp, chunksize=2)
    t1 = time.time()
    rules = [(name, i) for name, i, *_ in O.rule_tables()]
    res_r = pmap(_rule_worker, rules, chunksize=4)
    pairs = [('groups', a, b) for a, b in O.documented_pairs(env.repo_path)] + [('charged', a, b) for a, b in O.charged_examples(env.repo_path)]
    res_p = pmap(_pairs_worker, pairs, chunksize=8)
    t2 = time.time()
    stats = {}
    found = {}
    for part in (res, res_s, res_r, res_p):
        for cnt, keys, samples, viol, st in part:
            run.case(cnt)
            run.nontrivial.update(keys)
            for s in samples:
                run.case(0, sample=s)
            for k, v in st.items():
                stats[k] = stats.get(k, 0) + v
            for key, what, witness, native in viol:
                size = len(str(witness.get('smiles') or witness.get('instance') or witness.get('input') or ''))
                old = found.get(key)
                if old is None or size < old[0]:
                    found[key] = (size, what, witness, native, (old[4] if old else 0) + 1)
                else:
                    found[key] = old[:4] + (old[4] + 1,)
    for key, (size, what, witness, native, cnt) in sorted(found.items()):
        run.violation(key, f'{what} [{cnt} inputs of this family; smallest shown]' if cnt > 1 else what, witness=witness, native=native)
    not_inst = sorted(k for k in stats if k.startswith('not-instantiated: '))
    run.bound(f'corpus: seeded sample of {n} of the 4200 molecules of pach/lipophilicity.csv + {len(AZOLIUM)} charged / protonated heteroaromatics; each also (a) with one functional-group spelling of '
              f'{len(O.GROUPS)} (valid and "wrong" spellings the rule tables mention) attached to a seeded CH and (b) mixed with one of '
              f'{len(O.COUNTER_IONS)} counter-ions/acids and (c) as a salt/zwitterion: 1-2 of {len(O.CATION_GROUPS)} ammonium groups attached + 1-2 of {len(O.ANIONS)} anions (balanced and unbalanced, so every branch of neutralize runs); one seeded renumbering per contract; {len(FUNCS)} function variants + explicify/implicify inverse '
              f'+ enumerate_tautomers (first {TAUT_LIMIT} tautomers, molecules <= 40 atoms, all corpus inputs and 30 % of the decorated ones)')
    ncls = {}
    for _, cls, _, _ in sp:
        ncls[cls] = ncls.get(cls, 0) + 1
    run.bound(f'keywords: {len(OPTION_BASE)} keyword variants (logging=True, ignore=False, prepare_molecule=False, start_map) of the observed functions on '
              f'{"a seeded 34 % of the (input, variant) pairs" if quick else "every input"} of the corpus part and on every added input; enumerate_tautomers with '
              f'{len(TAUT_OPTS)} keyword settings ({2 if quick else 5} seeded settings per corpus input, all on the added tautomeric inputs); '
              f'renumbering flavour seeded per contract from: permutation (2/5), sparse numbers <= 5000, descending + shift, permutation + shuffled insertion order; '
              f'the Kekule form of {"a seeded half" if quick else "each"} of the corpus entries (one seeded input of the entry)')
    run.bound(f'added input classes (each also in Kekule form when aromatic; all function variants; numbering independence only for the variants with tautomer fixing off): '
              f'{ncls}; atlas = valence-valid seeded decorations (C/N/O/S, double and triple bonds) of every connected graph with <= '
              f'{5 if quick else 6} nodes; charged-rule-instances = both sides of the {len(O.charged_examples(env.repo_path))} documented charge-rule examples and the {len(I.MORGAN_RULE_EXAMPLES)} Morgan-rule examples as written and '
              f'with one methyl group on each hydrogen-bearing ring position, under {len(CHARGE_FUNCS)} standardize_charges / canonicalize variants')
    run.bound(f'rules: {len(rules)} rules of _groups (double, single) and _metal_organics on their own instantiated pattern '
              f'({len(rules) - len(not_inst)} instantiated; not instantiated: {[k[18:] for k in not_inst]}); {len(pairs)} documented pairs '
              f'(test_groups.py data and the A>>B comments of _charged.py)')
    run.assume('canonical strings are numbering independent except for the documented C01 gap (stereo on centres with constitutionally equivalent '
               'substituents): an input/output whose own string changes under the renumbering is counted in gap_hits',
               'strong valence validity (oracles/o14_rules.invalid_atoms): hydrogen counts defined and accepted by check_implicit on a Kekule copy; '
               'the "valid" contract is asserted only for inputs that are strongly valid themselves',
               'the right-hand side of a rule is its own atom_fix/bonds_fix applied by an independent builder (oracles/o14_rules.apply_rhs); when '
               'standardize continues with a later rule the result is compared with standardize(right-hand side)',
               'renumbering with tautomer fixing enabled (standardize(), canonicalize(), enumerate_tautomers) is asserted on the undecorated corpus only '
               '(recorded gap of the property); differing tautomer sets under renumbering are counted, not reported',
               'a violation shown by a keyword variant is filed under the default-keyword function when that function violates the same contract on the same '
               'input (same renumbered copy); otherwise under the variant\'s own name',
               'enumerate_tautomers: tautomers are compared as yielded (canonical string and composition taken at yield time); pairwise distinct canonical '
               'strings are required (mechanism anchor: de-duplication by canonical form)',
               'non-trivial case = the function changed the canonical string of the input / the rule fired on its instance / the documented pair has a != b')
    fams = {}
    for k, v in stats.items():
        if k.startswith('family|'):
            _, fk, what = k.split('|')
            fams.setdefault(fk, {'members': 0, 'failing': 0})[what] = v
    if MEASURE:
        for k in sorted(fams):
            print(f'FAMILY {k:75s} members={fams[k]["members"]:6d} failing={fams[k]["failing"]:6d}')
    run.notes['b14'] = {'corpus_s': round(t1 - t0, 1), 'rules_pairs_s': round(t2 - t1, 1),
                        # tightness of the family keys: (input, function) cases for which the family predicate holds / cases where it was emitted
                        # (the experiment-based fix_resonance families are evaluated on non-failing cases only under VERIF_B14_MEASURE=1)
                        'family_tightness': {k: fams[k] for k in sorted(fams)},
                        'stats': {k: v for k, v in sorted(stats.items()) if not k.startswith(('not-instantiated: ', 'family|'))}}
