"""C01 - see DESIGN.md §2 C01.  Deductive parts (contracts/) are added to this module as they are built; the bounded stand-in is checks/b01.py."""
from vlib import env
from checks.common import anchored, bounded_part, want, contract_sources, make_replay, t_oblig
from pysym.harness import run_cases

LEVEL = 'exploration'
DEDUCTIVE = [('contracts.hashes', ('Element.__hash__', 'Bond.__hash__', 'CANARY')), ('contracts.ringsmorgan', ('_morgan',))]          # (contract module, case-name filter) run by engine P
FINISH = dict(rule='deductive: one obligation per path / table key; B: see run.bound entries of checks/b01.py',
              explanation='F: no memoised value read by this property\'s observables survives an edit it depends on (one obligation per covered mutator x cached key); P: hashed tuples of Element.__hash__/Bond.__hash__ (frame: only the named fields) and neighbour-order independence of one _morgan refinement step (degree<=3), all values; B: renumbering x insertion order x re-spelling relation with symmetry-oracle gap filter',
              trusted_base=['CPython', 'z3', 'pysym', 'oracles/iso.py, o01_gaps.py, o01_stereo.py, o01_families.py', 'RDKit (second writer)'])
replay = make_replay('C01')


def deductive(run):
    for mod, flt in DEDUCTIVE:
        run_cases(run, mod, select=(lambda c, flt=flt: flt is None or any(x in c.name for x in flt)))


def main(run):
    env.setup()
    if want(run, 'P') or want(run, 'T'):
      with anchored(run, 'C01/P'):
        deductive(run)
    if want(run, 'F'):
      with anchored(run, 'C01/F'):
        # the observables of this property are (or read) memoised values: no covered mutator leaves one of them stale (engine F restricted to the keys these observables read)
        from checks.fpart import run_F
        run_F(run, entry_points=['atoms_order', '__str__', '__hash__', '__eq__', '__format__', 'smiles_atoms_order', '_chiral_morgan', 'int_adjacency'])
    bounded_part(run, 'C01')
    return FINISH
