"""C06 - see DESIGN.md §2 C06.  Deductive parts (contracts/) are added to this module as they are built; the bounded stand-in is checks/b06.py."""
from vlib import env
from checks.common import anchored, bounded_part, want, contract_sources, make_replay, t_oblig
from pysym.harness import run_cases

LEVEL = 'exploration'
DEDUCTIVE = [('contracts.ringsmorgan', ('_canonic_ring',)), ('contracts.ringcount', None)]          # (contract module, case-name filter) run by engine P
FINISH = dict(rule='deductive: one obligation per path / table key; B: see run.bound entries of checks/b06.py',
              explanation='F: no memoised value read by this property\'s observables survives an edit it depends on (one obligation per covered mutator x cached key); P: the whole real rings_count == bonds - atoms + components for symbolic degrees, bond and component counts (atoms 1..12 quick, ..16 thorough; callee _connected_components by contract), the whole real not_special_connectivity drops exactly the order-8 bonds (symbolic orders, degree 1..4); _canonic_ring invariant under every rotation/reflection, is one of them and starts at the minimum (ring length 3..4 quick, ..6 thorough; symbolic distinct atom numbers); B: sssr post-conditions on every small connected graph',
              trusted_base=['CPython', 'z3', 'pysym', 'networkx minimum_cycle_basis', 'oracles/o06_gaps.py'])
replay = make_replay('C06')


def deductive(run):
    for mod, flt in DEDUCTIVE:
        run_cases(run, mod, select=(lambda c, flt=flt: flt is None or any(x in c.name for x in flt)))


def main(run):
    env.setup()
    if want(run, 'P') or want(run, 'T'):
      with anchored(run, 'C06/P'):
        deductive(run)
    if want(run, 'F'):
      with anchored(run, 'C06/F'):
        # the ring / component views the property names are memoised: every covered mutator leaves none of them stale (engine F, keys read by these observables)
        from checks.fpart import run_F
        run_F(run, entry_points=['sssr', 'atoms_rings', 'atoms_rings_sizes', 'rings_count', 'ring_atoms', 'connected_components', 'connected_components_count', 'not_special_connectivity', 'skin_graph', 'calc_labels'])
    bounded_part(run, 'C06')
    return FINISH
