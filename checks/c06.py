"""C06 - see DESIGN.md §2 C06.  Deductive parts (contracts/) are added to this module as they are built; the bounded stand-in is checks/b06.py."""
from vlib import env
from checks.common import bounded_part, want, contract_sources, make_replay, t_oblig
from pysym.harness import run_cases

LEVEL = 'exploration'
DEDUCTIVE = [('contracts.ringsmorgan', ('_canonic_ring',))]          # (contract module, case-name filter) run by engine P
FINISH = dict(rule='see checks/b06.py RULE / run.bound entries', explanation='bounded stand-in (engine B) of the contracts of DESIGN §2 C06; '
              'labelled bounded, never counted as proved', trusted_base=['CPython 3.12', 'oracles/*', 'RDKit where stated'])
replay = make_replay('C06')


def deductive(run):
    for mod, flt in DEDUCTIVE:
        run_cases(run, mod, select=(lambda c, flt=flt: flt is None or any(x in c.name for x in flt)))


def main(run):
    env.setup()
    if want(run, 'P') or want(run, 'T'):
        deductive(run)
    bounded_part(run, 'C06')
    return FINISH
