"""C02 bounded stand-in (engine B): SMILES write -> read is lossless; canonical strings never collide.

Contracts (DESIGN section 2, C02), attached to the real `Smiles.__format__` / `MoleculeSmiles._format_*` / `chython.smiles`:

  round trip   for every molecule m and every spec in the subsets of {a, A, m, r, h}:  text, order = m.__format__(spec, _return_order=True)
               (+ ' ' + m._format_cxsmiles(order) when the molecule has radicals) ; m2 = smiles(text) ; both sides kekule(); thiele();
               then *atom by atom under the written order*: element, isotope, charge, radical, hydrogen count, bond orders, and the
               configuration of every tetrahedral / allene / cis-trans element (sign relative to the neighbours sorted by written index);
               `format(m, spec)` is that text; with `m` the atom numbers come back.  Independently, RDKit reads the text and the
               canonical text of m to the same canonical isomeric SMILES.
  closures     for all 1 <= a < b <= 99: the text built from `_format_closure(a)`, `_format_closure(b)` is read as exactly those two ring bonds.
  injectivity  all pairs of the domain (decorated atlas incl. every 2^k labelling, all 2^k stereoisomers of sampled corpus molecules):
               str(a) == str(b)  =>  a, b isomorphic incl. configuration (oracles/iso.py + oracles/o01_stereo.py; for corpus stereoisomers
               also RDKit: canonical isomeric SMILES of the two independently flipped texts).
"""
import itertools
import math

from vlib import env
from vlib.report import pmap
from checks.b01 import _h

RULE = ('non-trivial = (canonical string, spec) with >= 2 atoms whose written text was read back and compared; for injectivity '
        '(canonical string, "inj") of molecules that share the constitution of another domain molecule (stereoisomer families)')

LETTERS = 'aAmrh'
ALL_SPECS = [''.join(c) for k in range(len(LETTERS) + 1) for c in itertools.combinations(LETTERS, k)]
QUICK_SPECS = ['', 'a', 'A', 'm', 'r', 'h', 'Ah', 'ar', 'mr', 'Ar', 'rh', 'aAmrh']


# ---- the comparison under the written order ----------------------------------------------------------------------------------

def view(m, order):
    idx = {n: i for i, n in enumerate(order)}
    atoms = m._atoms
    st, sa = m.stereogenic_tetrahedrons, m.stereogenic_allenes
    tet, al, other = [], [], []
    for n in order:
        a = atoms[n]
        if a.stereo is None:
            continue
        if n in st:
            tet.append((idx[n], bool(m._translate_tetrahedron_sign(n, sorted(st[n], key=idx.get)))))
        elif n in sa:
            t1, t2 = m._stereo_allenes_terminals[n]
            if idx[t1] > idx[t2]:
                t1, t2 = t2, t1
            env_ = sa[n]
            n1 = min((x for x in m._bonds[t1] if x in env_), key=idx.get)
            n2 = min((x for x in m._bonds[t2] if x in env_), key=idx.get)
            al.append((idx[n], idx[n1], idx[n2], bool(m._translate_allene_sign(n, n1, n2))))
        else:
            other.append(idx[n])
    ct = []
    seen = set()
    for (n, k), env_ in m.stereogenic_cis_trans.items():
        i, j = m._stereo_cis_trans_centers[n]
        if m._bonds[i][j].stereo is None or (i, j) in seen:
            continue
        seen.add((i, j))
        seen.add((j, i))
        a, b = (n, k) if idx[n] < idx[k] else (k, n)
        n1 = min((x for x in m._bonds[a] if x in env_ and x is not None), key=idx.get)
        n2 = min((x for x in m._bonds[b] if x in env_ and x is not None), key=idx.get)
        ct.append((idx[a], idx[b], idx[n1], idx[n2], bool(m._translate_cis_trans_sign(a, b, n1, n2))))
    nbond_labels = sum(b.stereo is not None for *_, b in m.bonds())
    return {'atoms': [(atoms[n].atomic_number, atoms[n].isotope, atoms[n].charge, atoms[n].is_radical, atoms[n].implicit_hydrogens)
                      for n in order],
            'bonds': sorted((min(idx[a], idx[b]), max(idx[a], idx[b]), b_.order) for a, b, b_ in m.bonds()),
            'tetrahedra': sorted(tet), 'allenes': sorted(al), 'cis_trans': sorted(ct), 'labels_elsewhere': sorted(other),
            'bond_labels': nbond_labels}


def _first_diff(v1, v2):
    for k in ('atoms', 'bonds', 'tetrahedra', 'allenes', 'cis_trans', 'labels_elsewhere', 'bond_labels'):
        if v1[k] != v2[k]:
            if isinstance(v1[k], list) and len(v1[k]) == len(v2[k]):
                d = [(i, x, y) for i, (x, y) in enumerate(zip(v1[k], v2[k])) if x != y][:3]
                return f'{k} differ (position, written, read back): {d}'
            return f'{k} differ: written {v1[k]!r:.200} read back {v2[k]!r:.200}'
    return None


def _rd_canon(text):
    from rdkit import Chem, RDLogger
    RDLogger.DisableLog('rdApp.*')
    try:
        rm = Chem.MolFromSmiles(text)
        if rm is None:
            return None
        for a in rm.GetAtoms():
            a.SetAtomMapNum(0)
        # atom maps make RDKit perceive extra (pseudo) centres at parse time: write without maps and canonicalise that text again
        rm = Chem.MolFromSmiles(Chem.MolToSmiles(rm))
        return None if rm is None else Chem.MolToSmiles(rm)
    except Exception:
        return None


def round_trip(m, spec, rd_ref=None):
    """one write -> read evaluation; returns (text, None | description of the difference, rdkit_used)"""
    from bounded import domains as D
    from chython import smiles
    try:
        text, order = m.__format__(spec, _return_order=True)
        cx = m._format_cxsmiles(order)
    except Exception as e:
        return None, f'writer raised {type(e).__name__}: {e}', False
    if len(order) != len(m) or set(order) != set(m._atoms):
        return text, f'written order is not a permutation of the atoms: {order}', False
    full = text + (' ' + cx if cx else '')
    if 'r' not in spec:
        try:
            pub = format(m, spec)
        except Exception as e:
            return full, f'format(m, {spec!r}) raised {type(e).__name__}: {e}', False
        if pub != full:
            return full, f'format(m, {spec!r}) = {pub!r} differs from the text of the ordered route {full!r}', False
    try:
        m2 = smiles(full)
        D.norm(m2)
    except Exception as e:
        return full, f'reading the written text back raised {type(e).__name__}: {e}', False
    o2 = list(m2._atoms)
    if len(o2) != len(order):
        return full, f'{len(order)} atoms written, {len(o2)} read back', False
    if 'm' in spec and o2 != list(order):
        return full, f'atom map numbers not preserved: written {list(order)}, read back {o2}', False
    d = _first_diff(view(m, order), view(m2, o2))
    if d:
        return full, d, False
    used = False
    if rd_ref is not None and 'A' not in spec:
        c = _rd_canon(full)
        if c is not None:
            used = True
            if c != rd_ref:
                return full, f'RDKit reads the text as {c!r} but the canonical text of the molecule as {rd_ref!r}', True
    return full, None, used


# ---- workers ------------------------------------------------------------------------------------------------------------------

def _eval_molecule(ident, m, specs, n_rand, use_rdkit=True):
    from oracles.o01_gaps import gaps
    s0 = str(m)
    # the secondary, RDKit-based judgement is used only outside the two symmetry classes (stereo labels next to constitutionally
    # equivalent substituents; symmetric polycyclic cages) where RDKit's own canonical isomeric SMILES is not invariant under
    # re-spelling (measured on the unchanged tree: 46 cage molecules of the decorated atlas, all inside these classes).  The primary
    # contract - atom by atom under the written order - has no exclusion.
    rd_ref = _rd_canon(s0) if use_rdkit and not any(gaps(m)) else None
    ncases, keys, bad, nrd = 0, set(), [], 0
    badspecs = set()
    for spec in specs:
        for rep in range(n_rand if 'r' in spec else 1):
            text, d, used = round_trip(m, spec, rd_ref)
            ncases += 1
            nrd += used
            if len(m) > 1:
                keys.add((s0, spec))
            if d and spec not in badspecs:
                badspecs.add(spec)
                bad.append((spec, text, d, None))
    return s0, ncases, keys, bad, nrd


def _family(m, bad):
    """root-cause family of a failing round trip (independent predicates of oracles/o01_families.py) or None"""
    if not bad:
        return None
    from oracles.o01_families import c02_family
    return c02_family(m, [b[2] for b in bad])


def _atlas_worker(job):
    import random
    from bounded import domains as D, d01_molgen as G
    recs, specs, n_rand, tag = job
    out = []
    for rec in recs:
        random.seed(f'{env.SEED}:{tag}:{rec["id"]}')  # the library's random writer draws from the global generator
        m, _ = G.build_rec(rec)
        D.norm(m)
        anchor = rec['id'].startswith('anchor:')  # fixed witnesses of the recorded defect families: enough draws to fire in every run
        s0, ncases, keys, bad, nrd = _eval_molecule(rec['id'], m, specs, 60 if anchor else n_rand, use_rdkit=len(rec['atoms']) <= 60)
        nst = sum(a.stereo is not None for _, a in m.atoms()) + sum(b.stereo is not None for *_, b in m.bonds())
        out.append((rec['id'], s0, ncases, keys, bad, nrd, nst, _family(m, bad)))
    return out


def _flip_rdkit(text, rec, subset):
    """independent description of the stereoisomer: RDKit reads the corpus text and inverts the same elements; None if the toolkits
    do not number / perceive alike"""
    from rdkit import Chem
    rm = Chem.MolFromSmiles(text)
    if rm is None or rm.GetNumAtoms() != len(rec['atoms']):
        return None
    for a, (sym, *_r) in zip(rm.GetAtoms(), rec['atoms']):
        if a.GetSymbol() != sym:
            return None
    rw = Chem.RWMol(rm)
    elems = [('t', e) for e in rec['tet']] + [('c', e) for e in rec['ct']] + [('a', e) for e in rec['al']]
    for k, (kind, e) in enumerate(elems):
        if k not in subset:
            continue
        if kind == 't':
            a = rw.GetAtomWithIdx(e[0])
            if a.GetChiralTag() in (Chem.ChiralType.CHI_TETRAHEDRAL_CW, Chem.ChiralType.CHI_TETRAHEDRAL_CCW):
                a.InvertChirality()
        elif kind == 'c':
            b = rw.GetBondBetweenAtoms(e[0], e[1])
            if b is not None:
                st = b.GetStereo()
                sw = {Chem.BondStereo.STEREOE: Chem.BondStereo.STEREOZ, Chem.BondStereo.STEREOZ: Chem.BondStereo.STEREOE,
                      Chem.BondStereo.STEREOCIS: Chem.BondStereo.STEREOTRANS, Chem.BondStereo.STEREOTRANS: Chem.BondStereo.STEREOCIS}
                if st in sw:
                    b.SetStereo(sw[st])
    try:
        return Chem.MolToSmiles(rw.GetMol())
    except Exception:
        return None


def _corpus_worker(job):
    import random
    from bounded import domains as D, d01_molgen as G
    from oracles.o01_stereo import stereo_isomorphic
    texts, specs, n_rand, iso_specs, max_k, tag = job
    out = []
    for text in texts:
        random.seed(f'{env.SEED}:{tag}:{text}')
        r = D.rnd(f'{tag}:{text}')
        m = D.parse(text)
        s0, ncases, keys, bad, nrd = _eval_molecule(text, m, specs, n_rand)
        fams = {(): _family(m, bad)}
        fam = []
        inj_bad = []
        rec = G.rec_of(m, text)
        k = G.n_stereo(rec)
        if k:
            which = list(range(k)) if k <= max_k else sorted(r.sample(range(k), max_k))
            members = []
            for sub in itertools.chain.from_iterable(itertools.combinations(which, j) for j in range(len(which) + 1)):
                fr = G.flip(rec, set(sub))
                fm, dropped = G.build_rec(fr)
                D.norm(fm)
                fs = str(fm)
                if sub:  # the stereoisomers are domain molecules too: canonical + two more styles
                    _, nc, ks, b2, nr2 = _eval_molecule(fr['id'], fm, iso_specs, 1)
                    ncases += nc
                    nrd += nr2
                    keys |= ks
                    bad += [(sp, tx, d, sorted(sub)) for sp, tx, d, _ in b2]
                    fams[tuple(sorted(sub))] = _family(fm, b2)
                members.append((sub, fs, fm, _flip_rdkit(text, rec, set(sub))))
            for (sa, fa, ma, ra), (sb, fb, mb, rb) in itertools.combinations(members, 2):
                ncases += 1
                if fa != fb:
                    continue
                keys.add((fa, 'inj'))
                same = stereo_isomorphic(ma, mb)
                if same is False:
                    inj_bad.append((sorted(sa), sorted(sb), fa, 'the reference enumerator finds no configuration-preserving isomorphism'))
                elif ra is not None and rb is not None and ra != rb:
                    inj_bad.append((sorted(sa), sorted(sb), fa, f'RDKit canonical isomeric SMILES differ: {ra!r} vs {rb!r}'))
            fam = [(fs, sorted(sub)) for sub, fs, _, _ in members]
        out.append((text, s0, ncases, keys, bad, nrd, k, fam, inj_bad, fams))
    return out


def _closure_contract(run):
    """every pair of closure numbers the writer can emit (its heap is range(1, 100)) is read back as exactly those two ring bonds"""
    from chython import smiles
    from chython.algorithms.smiles import Smiles
    f = Smiles._format_closure
    n = 0
    for a in range(1, 100):
        for b in range(a + 1, 100):
            text = f'C{f(a)}{f(b)}CC{f(a)}C{f(b)}'
            n += 1
            try:
                m = smiles(text)
                got = sorted((min(x, y), max(x, y)) for x, y, _ in m.bonds())
                ok = got == [(1, 2), (1, 3), (1, 4), (2, 3), (3, 4)]
                native = got
            except Exception as e:
                ok, native = False, f'{type(e).__name__}: {e}'
            if not ok:
                run.violation(f'closure:{a},{b}', f'C02 closures: text {text!r} written with _format_closure({a}), _format_closure({b}) is not '
                                                  f'read as the ring bonds 1-3 and 1-4', witness={'relation': 'closure', 'a': a, 'b': b,
                                                                                                  'text': text}, native=native)
    run.case(n, key=('closure-pairs', 'all'), sample={'contract': 'closures', 'pairs': n, 'example': f'C{f(9)}{f(10)}CC{f(9)}C{f(10)}'})
    run.bound('closure tokens: all 4851 pairs 1 <= a < b <= 99 of numbers the writer can draw from its heap')


def bounded(run):
    env.setup()
    from bounded import domains as D, d01_molgen as G
    from oracles import iso
    from oracles.o01_stereo import stereo_isomorphic
    quick = run.tier == 'quick'
    max_nodes, trials = (6, 6) if quick else (7, 7)
    specs_small = ALL_SPECS
    specs_corpus = QUICK_SPECS if quick else ALL_SPECS
    n_rand = 3 if quick else 2
    n_corpus = 300 if quick else None
    run.assume('the comparison reads stored labels through the sign convention of the library (stereogenic_* neighbour orders, '
               '_translate_*_sign table look-ups: C12 lemmas) relative to neighbours sorted by written index; nothing of the writer',
               'both sides are normalised with kekule(); thiele() before comparing (hydrogen counts of aromatic hetero atoms are '
               'unknown by design straight after parsing)',
               'oracles/iso.py + oracles/o01_stereo.py: reference judgement "isomorphic incl. configuration" (exhaustive enumeration, '
               'capped at 5000 isomorphisms per pair, undecided pairs are counted)',
               'RDKit 2026.03 (trusted, independent reader): the written text and the canonical text of one molecule get the same canonical '
               'isomeric SMILES whenever RDKit accepts both; stereoisomer texts for injectivity are produced by RDKit (InvertChirality / '
               'E<->Z on the corpus text), not by the writer under test',
               'the lossy options !s !b !z !x are not "supported styles" of the statement and are not exercised')

    _closure_contract(run)

    recs = G.atlas_records(max_nodes, trials) + G.ion_records()
    for s in G.SPECIAL_SMILES:
        recs.append(G.rec_of(D.parse(s), f'special:{s}'))
    recs += G.expander_records(36, 2 if quick else 4) + (G.expander_records(60, 2, tag='expander60') if not quick else [])
    from oracles.o01_families import ANCHORS
    anchors = [G.rec_of(D.parse(s), f'anchor:{s}') for fam in ANCHORS.values() for s in fam]
    run.bound(f'anchors: {len(anchors)} fixed witnesses of the recorded defect families (oracles/o01_families.py), identical in every tier / seed, '
              f'all 32 specs x 60 random orders for specs with r')
    recs = anchors + recs
    by_id = {rec['id']: rec for rec in recs}
    run.bound(f'decorated graph atlas <= {max_nodes} nodes ({trials} seeded decorations, 2x for trees; charges to +-3, isotopes, radicals, '
              f'spectator components, every 2^k labelling k <= 4 of perceived stereo elements) + hand-written + 4-regular 36/60-atom carbon '
              f'graphs (two-digit closures): {len(recs)} molecules x all {len(ALL_SPECS)} subsets of {{a,A,m,r,h}} x {n_rand} random orders for '
              f'specs with r')
    rs = anchors + sorted(recs[len(anchors):], key=lambda x: -len(x['atoms']))
    nchunk = max(env.NPROC * 6, 1)
    jobs = [(rs[i::nchunk], specs_small, n_rand, 'b02a') for i in range(nchunk) if rs[i::nchunk]]
    atlas_res = [x for part in pmap(_atlas_worker, jobs) for x in part]
    atlas_res.sort(key=lambda x: (not x[0].startswith('anchor:'),))  # anchors first: they become the recorded witnesses

    texts = list(dict.fromkeys(D.corpus_sample(n_corpus, tag='b02-corpus')))
    iso_specs = ['', 'r', 'ah']
    run.bound(f'corpus: {len(texts)} distinct SMILES of pach/lipophilicity.csv x {len(specs_corpus)} specs x {n_rand} random orders for specs '
              f'with r; all 2^k stereoisomers (k <= 4 labelled elements, seeded choice above) of every sampled molecule with stereo '
              f'labels, each written / read back in the styles {iso_specs}')
    nchunk = max(env.NPROC * 4, 1)
    jobs = [(texts[i::nchunk], specs_corpus, n_rand, iso_specs, 4, 'b02c') for i in range(nchunk) if texts[i::nchunk]]
    corpus_res = [x for part in pmap(_corpus_worker, jobs) for x in part]

    notes = {'molecules': 0, 'stereo_molecules': 0, 'rdkit_cross_checks': 0, 'corpus_stereo_families': 0, 'stereoisomers_enumerated': 0,
             'injectivity_pairs_judged': 0, 'injectivity_undecided': 0, 'stereo_elements_in_domain': 0}
    by_string = {}
    k = 0
    for ident, s0, ncases, keys, bad, nrd, nst, fam_key in atlas_res:
        k += 1
        notes['molecules'] += 1
        notes['stereo_molecules'] += bool(nst)
        notes['stereo_elements_in_domain'] += nst
        notes['rdkit_cross_checks'] += nrd
        run.case(ncases)
        for key in keys:
            run.case(0, key=key)
        if k % 211 == 1:
            run.case(0, sample={'domain': 'atlas', 'input': ident, 'canonical': s0, 'evaluations': ncases, 'stereo_labels': nst})
        by_string.setdefault(s0, []).append(ident)
        if bad:
            spec, text, d, _sub = bad[0]
            run.violation(f'c02:{fam_key}' if fam_key else f'roundtrip:{_h(ident)}:{ident}',
                          (f'[family {fam_key}] ' if fam_key else '') + f'C02 write->read, spec {spec!r}: {d} [atlas input {ident}, text {text!r}]' +
                          (f' (also specs {[b[0] for b in bad[1:]]})' if len(bad) > 1 else ''),
                          witness={'relation': 'roundtrip', 'domain': 'atlas', 'input': ident, 'record': by_id[ident], 'spec': spec,
                                   'text': text}, native={'canonical': s0, 'differences': {b[0]: [b[1], b[2]] for b in bad}})
    for text, s0, ncases, keys, bad, nrd, nst, fam, inj_bad, fams in corpus_res:
        k += 1
        notes['molecules'] += 1 + max(0, len(fam) - 1)
        notes['stereo_molecules'] += len(fam)
        notes['stereo_elements_in_domain'] += nst
        notes['rdkit_cross_checks'] += nrd
        notes['corpus_stereo_families'] += bool(fam)
        notes['stereoisomers_enumerated'] += len(fam)
        notes['injectivity_pairs_judged'] += len(fam) * (len(fam) - 1) // 2
        run.case(ncases)
        for key in keys:
            run.case(0, key=key)
        if k % 53 == 1:
            run.case(0, sample={'domain': 'corpus', 'input': text, 'canonical': s0, 'evaluations': ncases, 'stereo_labels': nst,
                                'stereoisomers': len(fam)})
        done = set()
        for spec, tx, d, sub in bad:
            fl = tuple(sub) if sub else ()
            if fl in done:
                continue
            done.add(fl)
            same = [b for b in bad if (tuple(b[3]) if b[3] else ()) == fl]
            fk = fams.get(fl)
            run.violation(f'c02:{fk}' if fk else f'roundtrip:{_h(text + str(fl))}:{text}' + (f'/flip{list(fl)}' if fl else ''),
                          (f'[family {fk}] ' if fk else '') + f'C02 write->read, spec {spec!r}: {d} [corpus input {text}' +
                          (f', stereoisomer with elements {list(fl)} inverted' if fl else '') + f', text {tx!r}]' +
                          (f' (also specs {[b[0] for b in same[1:]]})' if len(same) > 1 else ''),
                          witness={'relation': 'roundtrip', 'domain': 'corpus', 'input': text, 'spec': spec, 'text': tx, 'flip': sub},
                          native={'canonical': s0, 'differences': {b[0]: [b[1], b[2]] for b in same}})
        for sa, sb, fs, why in inj_bad:
            run.violation(f'injectivity:{_h(text + str(sa) + str(sb))}:{text}|{sa}|{sb}', f'C02 injectivity: stereoisomers {sa} and {sb} (inverted elements) of {text} share '
                                                           f'the canonical string {fs!r}: {why}',
                          witness={'relation': 'injectivity', 'domain': 'corpus', 'input': text, 'a': sa, 'b': sb}, native={'string': fs})

    # injectivity over the atlas domain: one canonical string => isomorphic incl. configuration
    def mol_of(ident):
        return D.norm(G.build_rec(by_id[ident])[0])
    for s0, members in by_string.items():
        if len(members) < 2:
            continue
        ref = mol_of(members[0])
        for other in members[1:]:
            notes['injectivity_pairs_judged'] += 1
            run.case(1, key=(s0, 'inj'))
            mo = mol_of(other)
            same = stereo_isomorphic(ref, mo) if iso.is_isomorphic(ref, mo) else False
            if same is None:
                notes['injectivity_undecided'] += 1
            elif same is False:
                run.violation(f'injectivity:{_h(members[0] + other)}:{members[0]}|{other}',
                              f'C02 injectivity: molecules {members[0]} and {other} are not isomorphic (incl. configuration) but share the '
                              f'canonical string {s0!r}',
                              witness={'relation': 'injectivity', 'domain': 'atlas', 'record_a': by_id[members[0]], 'record_b': by_id[other]},
                              native={'string': s0})
    notes['distinct_canonical_strings_atlas'] = len(by_string)
    run.bound(f'injectivity: all pairs inside the atlas domain ({len(atlas_res)} molecules, {len(by_string)} distinct strings) and inside each '
              f'corpus stereoisomer family; pairs with equal strings judged by the reference enumerator (+ RDKit for corpus families)')
    run.notes.update(notes)


# ---- replay -------------------------------------------------------------------------------------------------------------------

def replay(rec):
    """re-run the witness natively; True if the property holds for it on the current tree"""
    env.setup()
    from bounded import domains as D, d01_molgen as G
    from oracles.o01_stereo import stereo_isomorphic
    from checks.b01 import _unjson
    from chython import smiles
    w = rec['witness']
    rel = w['relation']
    if rel == 'closure':
        from chython.algorithms.smiles import Smiles
        f = Smiles._format_closure
        text = f'C{f(w["a"])}{f(w["b"])}CC{f(w["a"])}C{f(w["b"])}'
        try:
            got = sorted((min(x, y), max(x, y)) for x, y, _ in smiles(text).bonds())
        except Exception as e:
            got = repr(e)
        print('  text:', text, ' bonds read:', got)
        return got == [(1, 2), (1, 3), (1, 4), (2, 3), (3, 4)]
    if rel == 'injectivity':
        if w['domain'] == 'atlas':
            a = D.norm(G.build_rec(_unjson(w['record_a']))[0])
            b = D.norm(G.build_rec(_unjson(w['record_b']))[0])
        else:
            r0 = G.rec_of(D.parse(w['input']), w['input'])
            a = D.norm(G.build_rec(G.flip(r0, set(w['a'])))[0])
            b = D.norm(G.build_rec(G.flip(r0, set(w['b'])))[0])
        print('  a:', str(a), ' b:', str(b), ' isomorphic incl. configuration:', stereo_isomorphic(a, b))
        return str(a) != str(b) or stereo_isomorphic(a, b) is not False
    if w.get('record') is not None:
        m = D.norm(G.build_rec(_unjson(w['record']))[0])
    else:
        m = D.parse(w['input'])
        if w.get('flip'):
            m = D.norm(G.build_rec(G.flip(G.rec_of(m, w['input']), set(w['flip'])))[0])
    spec = w['spec']
    ok = True
    for _ in range(40 if 'r' in spec else 1):  # random orders: the witness text is one draw, try a number of them
        text, d, _u = round_trip(m, spec, _rd_canon(str(m)))
        if d:
            print('  text:', text, ' ->', d)
            ok = False
            break
    if ok and w.get('text'):
        # the recorded text itself, read back and compared with the molecule through the isomorphism oracle
        try:
            m2 = D.norm(smiles(w['text']))
            ok = stereo_isomorphic(m, m2) is not False
            print('  recorded text', w['text'], 'read back as', str(m2), '; isomorphic incl. configuration:', ok)
        except Exception as e:
            print('  recorded text raised', repr(e))
            ok = False
    return ok
