"""C02 bounded stand-in (engine B): SMILES write -> read is lossless; canonical strings never collide.

Contracts (DESIGN section 2, C02), attached to the real `Smiles.__format__` / `MoleculeSmiles._format_*` / `chython.smiles`:

  round trip   for every molecule m and every spec in the subsets of {a, A, m, r, h}:  text, order = m.__format__(spec, _return_order=True)
               (+ ' ' + m._format_cxsmiles(order) when the molecule has radicals) ; m2 = smiles(text) ; both sides kekule(); thiele();
               then *atom by atom under the written order*: element, isotope, charge, radical, hydrogen count, bond orders, and the
               configuration of every tetrahedral / allene / cis-trans element (sign relative to the neighbours sorted by written index);
               `format(m, spec)` is that text; with `m` the atom numbers come back.  Independently, RDKit reads the text and the
               canonical text of m to the same canonical isomeric SMILES.
  closures     for all 1 <= a < b <= 99: the text built from `_format_closure(a)`, `_format_closure(b)` is read as exactly those two ring bonds.
  injectivity  all pairs of the domain (decorated atlas incl. every 2^k labelling, all 2^k stereoisomers of sampled corpus molecules):
               str(a) == str(b)  =>  a, b isomorphic incl. configuration (oracles/iso.py + oracles/o01_stereo.py; for corpus stereoisomers
               also RDKit: canonical isomeric SMILES of the two independently flipped texts).

Audit extension (same contracts, domain classes the first version never wrote / read - see bounded/d02_extra.py):
  reader options   the written text is read with every keyword of `chython.smiles` that must not change what the text denotes
                   (remap=True: numbers 1..N in written order; ignore=False; keep_implicit=True; ignore_bad_isotopes + ignore_carbon_radicals;
                   ignore_aromatic_radicals=False on molecules without aromatic atoms) under the full comparison, and with ignore_stereo=True
                   under the comparison of atoms and bonds (+ no label is stored).
  numberings       molecules whose atom numbers are not 1..N in order (descending, gaps, four-digit up to 9999, shuffled insertion order).
  kekule forms     molecules with aromatic rings written from their Kekule form, compared without re-normalisation.
  atoms order      `mol.smiles_atoms_order`, `str(mol)`, `format(mol, '')` and the ordered route on fresh copies, in the three possible
                   access orders, give one string and one order; that string read back is the molecule under that order.
  reaction reader  the written text as the only reactant / reagent / product of a reaction text is read (reaction branch of
                   `chython.smiles` -> postprocess_molecule) as the same molecule in that role (incl. the CXSMILES radical block).
  sticky           `sticky_smiles(left[, right])` (terminal atoms, connected, radical-free: the domain of its docstring) is a text of the
                   same molecule (reference enumerator) that starts with `left` (ends with `right`).
"""
import itertools
import math

from vlib import env
from vlib.report import pmap
from checks.b01 import _h

RULE = ('non-trivial = (canonical string, spec) with >= 2 atoms whose written text was read back and compared; for injectivity '
        '(canonical string, "inj") of molecules that share the constitution of another domain molecule (stereoisomer families); audit '
        'extension: (canonical string, spec, contract variant) with variant = reader option set / numbering kind / kekule-form / atoms-order / '
        'reaction role, and (canonical string, "sticky", left, right)')

LETTERS = 'aAmrh'
ALL_SPECS = [''.join(c) for k in range(len(LETTERS) + 1) for c in itertools.combinations(LETTERS, k)]
QUICK_SPECS = ['', 'a', 'A', 'm', 'r', 'h', 'Ah', 'ar', 'mr', 'Ar', 'rh', 'aAmrh']


# ---- the comparison under the written order ----------------------------------------------------------------------------------

def view(m, order):
    idx = {n: i for i, n in enumerate(order)}
    atoms = m._atoms
    st, sa = m.stereogenic_tetrahedrons, m.stereogenic_allenes
    tet, al, other = [], [], []
    for n in order:
        a = atoms[n]
        if a.stereo is None:
            continue
        if n in st:
            tet.append((idx[n], bool(m._translate_tetrahedron_sign(n, sorted(st[n], key=idx.get)))))
        elif n in sa:
            t1, t2 = m._stereo_allenes_terminals[n]
            if idx[t1] > idx[t2]:
                t1, t2 = t2, t1
            env_ = sa[n]
            n1 = min((x for x in m._bonds[t1] if x in env_), key=idx.get)
            n2 = min((x for x in m._bonds[t2] if x in env_), key=idx.get)
            al.append((idx[n], idx[n1], idx[n2], bool(m._translate_allene_sign(n, n1, n2))))
        else:
            other.append(idx[n])
    ct = []
    seen = set()
    for (n, k), env_ in m.stereogenic_cis_trans.items():
        i, j = m._stereo_cis_trans_centers[n]
        if m._bonds[i][j].stereo is None or (i, j) in seen:
            continue
        seen.add((i, j))
        seen.add((j, i))
        a, b = (n, k) if idx[n] < idx[k] else (k, n)
        n1 = min((x for x in m._bonds[a] if x in env_ and x is not None), key=idx.get)
        n2 = min((x for x in m._bonds[b] if x in env_ and x is not None), key=idx.get)
        ct.append((idx[a], idx[b], idx[n1], idx[n2], bool(m._translate_cis_trans_sign(a, b, n1, n2))))
    nbond_labels = sum(b.stereo is not None for *_, b in m.bonds())
    return {'atoms': [(atoms[n].atomic_number, atoms[n].isotope, atoms[n].charge, atoms[n].is_radical, atoms[n].implicit_hydrogens)
                      for n in order],
            'bonds': sorted((min(idx[a], idx[b]), max(idx[a], idx[b]), b_.order) for a, b, b_ in m.bonds()),
            'tetrahedra': sorted(tet), 'allenes': sorted(al), 'cis_trans': sorted(ct), 'labels_elsewhere': sorted(other),
            'bond_labels': nbond_labels}


def _first_diff(v1, v2):
    for k in ('atoms', 'bonds', 'tetrahedra', 'allenes', 'cis_trans', 'labels_elsewhere', 'bond_labels'):
        if v1[k] != v2[k]:
            if isinstance(v1[k], list) and len(v1[k]) == len(v2[k]):
                d = [(i, x, y) for i, (x, y) in enumerate(zip(v1[k], v2[k])) if x != y][:3]
                return f'{k} differ (position, written, read back): {d}'
            return f'{k} differ: written {v1[k]!r:.200} read back {v2[k]!r:.200}'
    return None


def _rd_canon(text):
    from rdkit import Chem, RDLogger
    RDLogger.DisableLog('rdApp.*')
    try:
        rm = Chem.MolFromSmiles(text)
        if rm is None:
            return None
        for a in rm.GetAtoms():
            a.SetAtomMapNum(0)
        # atom maps make RDKit perceive extra (pseudo) centres at parse time: write without maps and canonicalise that text again
        rm = Chem.MolFromSmiles(Chem.MolToSmiles(rm))
        return None if rm is None else Chem.MolToSmiles(rm)
    except Exception:
        return None


def round_trip(m, spec, rd_ref=None):
    """one write -> read evaluation; returns (text, None | description of the difference, rdkit_used)"""
    from bounded import domains as D
    from chython import smiles
    try:
        text, order = m.__format__(spec, _return_order=True)
        cx = m._format_cxsmiles(order)
    except Exception as e:
        return None, f'writer raised {type(e).__name__}: {e}', False
    if len(order) != len(m) or set(order) != set(m._atoms):
        return text, f'written order is not a permutation of the atoms: {order}', False
    full = text + (' ' + cx if cx else '')
    if 'r' not in spec:
        try:
            pub = format(m, spec)
        except Exception as e:
            return full, f'format(m, {spec!r}) raised {type(e).__name__}: {e}', False
        if pub != full:
            return full, f'format(m, {spec!r}) = {pub!r} differs from the text of the ordered route {full!r}', False
    try:
        m2 = smiles(full)
        D.norm(m2)
    except Exception as e:
        return full, f'reading the written text back raised {type(e).__name__}: {e}', False
    o2 = list(m2._atoms)
    if len(o2) != len(order):
        return full, f'{len(order)} atoms written, {len(o2)} read back', False
    if 'm' in spec and o2 != list(order):
        return full, f'atom map numbers not preserved: written {list(order)}, read back {o2}', False
    d = _first_diff(view(m, order), view(m2, o2))
    if d:
        return full, d, False
    used = False
    if rd_ref is not None and 'A' not in spec:
        c = _rd_canon(full)
        if c is not None:
            used = True
            if c != rd_ref:
                return full, f'RDKit reads the text as {c!r} but the canonical text of the molecule as {rd_ref!r}', True
    return full, None, used


# ---- audit extension: reader options, numberings, Kekule forms, atoms order, reaction reader, sticky ---------------------------

# (name, keywords of chython.smiles, comparison): 'full' = the whole comparison of the statement; 'constitution' = atoms and bonds, and no
# stored label; 'no-aromatic' = full, on molecules without aromatic atoms only (the option re-interprets bracketed aromatic atoms without
# hydrogens - what style h writes for every substituted aromatic atom - as radicals: by design outside the statement); 'known-h' = full, on
# molecules all of whose atoms have a hydrogen count (an atom the valence rules reject has the count None and is written as a bracket atom
# without H: keep_implicit keeps that 0 and the strict reader rejects the text, both by the definition of the option)
READER_OPTIONS = (
    ('remap', {'remap': True}, 'full'),
    ('strict', {'ignore': False}, 'known-h'),
    ('keep_implicit', {'keep_implicit': True}, 'known-h'),
    ('other-flags', {'ignore_bad_isotopes': True, 'ignore_carbon_radicals': True}, 'full'),
    ('ignore_stereo', {'ignore_stereo': True}, 'constitution'),
    ('aromatic_radicals', {'ignore_aromatic_radicals': False}, 'no-aromatic'),
)
OPT_SPECS = ['', 'a', 'Ah', 'mr', 'aAmrh']
NUM_SPECS = ['', 'm', 'amh', 'Amr', 'r']
KEK_SPECS = ['', 'r', 'h', 'am']
RXN_SPECS = ['', 'mr']
ROLES = ('reactants', 'reagents', 'products')


class _Mismatch(Exception):
    pass


def _write(m, spec):
    text, order = m.__format__(spec, _return_order=True)
    cx = m._format_cxsmiles(order)
    return text, list(order), text + (' ' + cx if cx else '')


def _read_cmp(v1, order, full, spec, kwargs, mode='full', normalise=True, pick=None):
    """read `full` with the reader keywords and compare with the view of the written molecule; None | description"""
    from bounded import domains as D
    from chython import smiles
    try:
        m2 = smiles(full, **kwargs)
        if pick is not None:
            m2 = pick(m2)
        if normalise:
            D.norm(m2)
    except _Mismatch as e:
        return str(e)
    except Exception as e:
        return f'reading the written text back raised {type(e).__name__}: {e}'
    o2 = list(m2._atoms)
    if len(o2) != len(order):
        return f'{len(order)} atoms written, {len(o2)} read back'
    if kwargs.get('remap'):
        if o2 != list(range(1, len(o2) + 1)):
            return f'remap=True: atom numbers are not 1..N in written order: {o2}'
    elif 'm' in spec and o2 != list(order):
        return f'atom map numbers not preserved: written {list(order)}, read back {o2}'
    v2 = view(m2, o2)
    if mode == 'constitution':
        for k in ('atoms', 'bonds'):
            if v1[k] != v2[k]:
                return _first_diff({**v2, k: v1[k]}, v2)
        if v2['tetrahedra'] or v2['allenes'] or v2['cis_trans'] or v2['labels_elsewhere'] or v2['bond_labels']:
            return 'labels stored although the text was read with ignore_stereo=True'
        return None
    return _first_diff(v1, v2)


def _extra_key(m, relation, ident, variant, spec, full, kwargs, order, d):
    """known root-cause family (independent predicates on the input) or a key of this input"""
    from oracles import o02_text as T
    from oracles.o01_families import c02_family
    reading = d.startswith('reading')
    if reading and 'not equal cycle bonds' in d and full and T.strict_reader_asymmetric_closure(full, kwargs):
        return 'c02:strict-reader-asymmetric-closure'
    if reading and 'atom token invalid' in d and T.map_over_9999(spec, order or ()):
        return 'c02:map-over-9999'
    fam = c02_family(m, [d])
    if fam:
        return f'c02:{fam}'
    return f'{relation}:{_h(ident + variant)}:{ident}:{variant}'


def _is_aromatic(m):
    return any(a.hybridization == 4 for _, a in m.atoms())


def option_trips(m, ident, specs=OPT_SPECS, options=READER_OPTIONS):
    """-> (ncases, keys, failures); failures = [(key, what, witness, native)], first failing style per option"""
    s0 = str(m)
    arom = _is_aromatic(m)
    unknown_h = any(a.implicit_hydrogens is None for _, a in m.atoms())
    ncases, keys, fails, done = 0, set(), [], set()
    for spec in specs:
        try:
            text, order, full = _write(m, spec)
        except Exception:
            continue  # writer failures are reported by the base contract
        v1 = view(m, order)
        for name, kw, mode in options:
            if mode == 'no-aromatic' and arom or mode == 'known-h' and unknown_h:
                continue
            d = _read_cmp(v1, order, full, spec, kw, 'constitution' if mode == 'constitution' else 'full')
            ncases += 1
            if len(m) > 1:
                keys.add((s0, spec, 'opt:' + name))
            if d and name not in done:
                done.add(name)
                key = _extra_key(m, 'option', ident, name, spec, full, kw, order, d)
                fails.append((key, f'C02 write->read with reader option {kw}, spec {spec!r}: {d} [input {ident}, text {full!r}]',
                              {'relation': 'option', 'option': name, 'spec': spec, 'text': full}, {'canonical': s0, 'difference': d}))
    return ncases, keys, fails


def numbering_trips(rec, ident, kinds, specs, n_rand, r, stop=True):
    from bounded import d02_extra as X
    ncases, keys, fails = 0, set(), []
    for kind in kinds:
        m, _dropped, wit = X.renumbered(rec, kind, r)
        s0 = str(m)
        for spec in specs:
            bad = None
            for _rep in range(n_rand if 'r' in spec else 1):
                text, d, _u = round_trip(m, spec, None)
                ncases += 1
                if len(m) > 1:
                    keys.add((s0, spec, 'num:' + kind))
                if d and bad is None:
                    bad = (text, d)
            if bad:
                key = _extra_key(m, 'numbering', ident, kind, spec, bad[0], {}, list(m._atoms), bad[1])
                fails.append((key, f'C02 write->read of a molecule numbered {kind} ({sorted(m._atoms)[:4]}..), spec {spec!r}: {bad[1]} '
                                   f'[input {ident}, text {bad[0]!r}]',
                              {'relation': 'numbering', 'numbering': wit, 'spec': spec, 'text': bad[0]}, {'canonical': s0, 'difference': bad[1]}))
                if stop:
                    break
    return ncases, keys, fails


def kekule_trips(m, ident, specs, n_rand):
    """the Kekule form of a molecule with aromatic atoms is a domain molecule of its own: written and read back WITHOUT re-normalisation"""
    if not _is_aromatic(m):
        return 0, set(), []
    k = m.copy()
    k.kekule()
    s0 = str(k)
    ncases, keys, fails = 0, set(), []
    for spec in specs:
        for _rep in range(n_rand if 'r' in spec else 1):
            try:
                text, order, full = _write(k, spec)
                d = _read_cmp(view(k, order), order, full, spec, {}, normalise=False)
            except Exception as e:
                full, d = None, f'writer raised {type(e).__name__}: {e}'
            ncases += 1
            keys.add((s0, spec, 'kekule-form'))
            if d:
                key = _extra_key(k, 'kekule-form', ident, 'K', spec, full, {}, None, d)
                fails.append((key, f'C02 write->read of the Kekule form {s0!r}, spec {spec!r}: {d} [input {ident}, text {full!r}]',
                              {'relation': 'kekule-form', 'spec': spec, 'text': full}, {'canonical': s0, 'difference': d}))
                return ncases, keys, fails
    return ncases, keys, fails


def atoms_order_trips(m, ident):
    """observation point `mol.smiles_atoms_order`: three access orders on fresh copies (each fills the caches of the others)"""
    c1, c2, c3 = m.copy(), m.copy(), m.copy()
    d = full = None
    try:
        o1 = tuple(c1.smiles_atoms_order)
        s1 = str(c1)
        s2 = str(c2)
        o2 = tuple(c2.smiles_atoms_order)
        t3, o3 = c3.__format__('', _return_order=True)
        s3 = str(c3)
        o3b = tuple(c3.smiles_atoms_order)
        f3 = format(c3, '')
        p3 = c3.smiles
        full = s1
        if not (s1 == s2 == s3 == f3 == p3):
            d = f'strings differ by access order: order-first {s1!r}, str-first {s2!r}, ordered route {s3!r}, format {f3!r}, .smiles {p3!r}'
        elif not (o1 == o2 == tuple(o3) == o3b):
            d = f'smiles_atoms_order differs by access order: order-first {o1}, str-first {o2}, ordered route {tuple(o3)} / cached {o3b}'
        elif s1.split(' ')[0] != t3:
            d = f'str {s1!r} is not the text of the ordered route {t3!r}'
        else:
            d = _read_cmp(view(m, list(o1)), list(o1), s1, '', {})
    except Exception as e:
        d = f'raised {type(e).__name__}: {e}'
    if d:
        key = _extra_key(m, 'atoms-order', ident, 'O', '', full, {}, None, d)
        return 1, set(), [(key, f'C02 smiles_atoms_order / str: {d} [input {ident}]', {'relation': 'atoms-order', 'text': full},
                           {'difference': d})]
    return 1, ({(str(m), '', 'atoms-order')} if len(m) > 1 else set()), []


def reaction_trips(m, ident, specs, positions):
    s0 = str(m)
    ncases, keys, fails = 0, set(), []
    for spec in specs:
        try:
            text, order, full = _write(m, spec)
        except Exception:
            continue
        if '.' in text:
            continue  # a dot separates molecules in a reaction text
        cx = full[len(text):]
        v1 = view(m, order)
        for pos in positions:
            parts = ['', '', '']
            parts[pos] = text
            rtext = '>'.join(parts) + cx

            def pick(rxn, pos=pos):
                got = [len(getattr(rxn, role)) for role in ROLES]
                if got != [int(i == pos) for i in range(3)]:
                    raise _Mismatch(f'molecules per role (reactants, reagents, products) {got}, written as one of the {ROLES[pos]}')
                return getattr(rxn, ROLES[pos])[0]
            d = _read_cmp(v1, order, rtext, spec, {}, pick=pick)
            ncases += 1
            if len(m) > 1:
                keys.add((s0, spec, 'rxn:' + ROLES[pos]))
            if d:
                key = _extra_key(m, 'reaction', ident, ROLES[pos], spec, rtext, {}, order, d)
                fails.append((key, f'C02 write->read inside a reaction text ({ROLES[pos]}), spec {spec!r}: {d} [input {ident}, text {rtext!r}]',
                              {'relation': 'reaction', 'role': pos, 'spec': spec, 'text': rtext}, {'canonical': s0, 'difference': d}))
                return ncases, keys, fails
    return ncases, keys, fails


def _sig(a):
    return a.atomic_number, a.isotope, a.charge, a.is_radical, a.implicit_hydrogens


STICKY_GAP_HITS = [0]      # per worker process; configuration-only differences inside C01's recorded gaps (counted, not judged)


def sticky_trips(m, ident, r, n_left=3):
    """domain of the docstring of sticky_smiles: connected, terminal left / right atoms; radical-free because the method writes no CXSMILES"""
    from bounded import domains as D
    from oracles.o01_stereo import stereo_isomorphic
    from chython import smiles
    if len(m) < 2 or len(m) > 16 or m.connected_components_count != 1 or m.is_radical:
        return 0, set(), []
    term = [n for n in m._atoms if len(m._bonds[n]) == 1]
    if not term:
        return 0, set(), []
    s0 = str(m)
    ncases, keys, fails = 0, set(), []
    for left in r.sample(term, min(n_left, len(term))):
        others = [n for n in term if n != left]
        right = r.choice(others) if others and r.random() < .6 else None
        d = text = None
        try:
            text = m.sticky_smiles(left, right, tries=200) if right else m.sticky_smiles(left)
        except Exception as e:
            if 'generation of smiles failed' in str(e):
                continue  # documented outcome of the bounded number of tries
            d = f'sticky_smiles({left}, {right}) raised {type(e).__name__}: {e}'
        if d is None:
            try:
                m2 = D.norm(smiles(text))
                o2 = list(m2._atoms)
                if _sig(m2._atoms[o2[0]]) != _sig(m._atoms[left]):
                    d = f'the text does not start with the left atom {left}'
                elif right and _sig(m2._atoms[o2[-1]]) != _sig(m._atoms[right]):
                    d = f'the text does not end with the right atom {right}'
                elif stereo_isomorphic(m, m2) is False:
                    # same rule as every other C01 / C02 comparison: inside C01's two recorded gaps (predicates fixed in DESIGN section 2 C01, decided
                    # by the symmetry oracle on the input) a difference of CONFIGURATION only is counted, not judged; anything else is reported
                    from oracles.o01_gaps import gaps
                    if format(m, '!s') == format(m2, '!s') and any(gaps(m)):
                        STICKY_GAP_HITS[0] += 1
                    else:
                        d = f'the text denotes another molecule (reference enumerator), read back as {str(m2)!r}'
            except Exception as e:
                d = f'reading the written text back raised {type(e).__name__}: {e}'
        ncases += 1
        keys.add((s0, 'sticky', left, right))
        if d:
            key = _extra_key(m, 'sticky', ident, f'{left},{right}', '', text, {}, None, d)
            fails.append((key, f'C02 sticky_smiles({left}, {right}): {d} [input {ident}, text {text!r}]',
                          {'relation': 'sticky', 'left': left, 'right': right, 'text': text}, {'canonical': s0, 'difference': d}))
            break
    return ncases, keys, fails


def extra_trips(m, rec, ident, flags, tier_quick, tag):
    """the audit-extension contracts selected by `flags` on one normalised molecule -> (ncases, keys, failures)"""
    from bounded import domains as D, d02_extra as X
    ncases, keys, fails = 0, set(), []

    def add(res):
        nonlocal ncases
        ncases += res[0]
        keys.update(res[1])
        fails.extend(res[2])
    if 'S' in flags:
        add(atoms_order_trips(m, ident))
    if 'O' in flags:
        add(option_trips(m, ident))
    if 'K' in flags:
        add(kekule_trips(m, ident, KEK_SPECS, 2))
    if 'R' in flags:
        add(reaction_trips(m, ident, RXN_SPECS, (D.rnd(f'{tag}:rxn:{ident}').randrange(3),) if tier_quick else (0, 1, 2)))
    if 'N' in flags:
        add(numbering_trips(rec, ident, X.NUMBERINGS, NUM_SPECS, 2, D.rnd(f'{tag}:num:{ident}')))
    if 'T' in flags:
        add(sticky_trips(m, ident, D.rnd(f'{tag}:sticky:{ident}')))
    if 'F' in flags:
        add(numbering_trips(rec, ident, ('five-digit',), ['', 'm', 'mr'], 2, D.rnd(f'{tag}:num5:{ident}'), stop=False))
    return ncases, keys, fails


# ---- workers ------------------------------------------------------------------------------------------------------------------

def _eval_molecule(ident, m, specs, n_rand, use_rdkit=True):
    from oracles.o01_gaps import gaps
    s0 = str(m)
    # the secondary, RDKit-based judgement is used only outside the two symmetry classes (stereo labels next to constitutionally
    # equivalent substituents; symmetric polycyclic cages) where RDKit's own canonical isomeric SMILES is not invariant under
    # re-spelling (measured on the unchanged tree: 46 cage molecules of the decorated atlas, all inside these classes).  The primary
    # contract - atom by atom under the written order - has no exclusion.
    rd_ref = _rd_canon(s0) if use_rdkit and not any(gaps(m)) else None
    ncases, keys, bad, nrd = 0, set(), [], 0
    badspecs = set()
    for spec in specs:
        for rep in range(n_rand if 'r' in spec else 1):
            text, d, used = round_trip(m, spec, rd_ref)
            ncases += 1
            nrd += used
            if len(m) > 1:
                keys.add((s0, spec))
            if d and spec not in badspecs:
                badspecs.add(spec)
                bad.append((spec, text, d, None))
    return s0, ncases, keys, bad, nrd


def _family(m, bad):
    """root-cause family of a failing round trip (independent predicates of oracles/o01_families.py) or None"""
    if not bad:
        return None
    from oracles.o01_families import c02_family
    return c02_family(m, [b[2] for b in bad])


def _atlas_worker(job):
    import random
    from bounded import domains as D, d01_molgen as G
    recs, specs, n_rand, tag, flags, quick = job
    out = []
    for rec in recs:
        random.seed(f'{env.SEED}:{tag}:{rec["id"]}')  # the library's random writer draws from the global generator
        m, _ = G.build_rec(rec)
        D.norm(m)
        anchor = rec['id'].startswith('anchor:')  # fixed witnesses of the recorded defect families: enough draws to fire in every run
        s0, ncases, keys, bad, nrd = _eval_molecule(rec['id'], m, specs, 60 if anchor else n_rand, use_rdkit=len(rec['atoms']) <= 60)
        nst = sum(a.stereo is not None for _, a in m.atoms()) + sum(b.stereo is not None for *_, b in m.bonds())
        xn, xkeys, xfails = extra_trips(m, rec, rec['id'], flags.get(rec['id'], ''), quick, tag)
        out.append((rec['id'], s0, ncases + xn, keys | xkeys, bad, nrd, nst, _family(m, bad), xn, xfails))
    return out


def _flip_rdkit(text, rec, subset):
    """independent description of the stereoisomer: RDKit reads the corpus text and inverts the same elements; None if the toolkits
    do not number / perceive alike"""
    from rdkit import Chem
    rm = Chem.MolFromSmiles(text)
    if rm is None or rm.GetNumAtoms() != len(rec['atoms']):
        return None
    for a, (sym, *_r) in zip(rm.GetAtoms(), rec['atoms']):
        if a.GetSymbol() != sym:
            return None
    rw = Chem.RWMol(rm)
    elems = [('t', e) for e in rec['tet']] + [('c', e) for e in rec['ct']] + [('a', e) for e in rec['al']]
    for k, (kind, e) in enumerate(elems):
        if k not in subset:
            continue
        if kind == 't':
            a = rw.GetAtomWithIdx(e[0])
            if a.GetChiralTag() in (Chem.ChiralType.CHI_TETRAHEDRAL_CW, Chem.ChiralType.CHI_TETRAHEDRAL_CCW):
                a.InvertChirality()
        elif kind == 'c':
            b = rw.GetBondBetweenAtoms(e[0], e[1])
            if b is not None:
                st = b.GetStereo()
                sw = {Chem.BondStereo.STEREOE: Chem.BondStereo.STEREOZ, Chem.BondStereo.STEREOZ: Chem.BondStereo.STEREOE,
                      Chem.BondStereo.STEREOCIS: Chem.BondStereo.STEREOTRANS, Chem.BondStereo.STEREOTRANS: Chem.BondStereo.STEREOCIS}
                if st in sw:
                    b.SetStereo(sw[st])
    try:
        return Chem.MolToSmiles(rw.GetMol())
    except Exception:
        return None


def _corpus_worker(job):
    import random
    from bounded import domains as D, d01_molgen as G
    from oracles.o01_stereo import stereo_isomorphic
    texts, specs, n_rand, iso_specs, max_k, tag, flags, quick = job
    out = []
    for text in texts:
        random.seed(f'{env.SEED}:{tag}:{text}')
        r = D.rnd(f'{tag}:{text}')
        m = D.parse(text)
        s0, ncases, keys, bad, nrd = _eval_molecule(text, m, specs, n_rand)
        fl = flags.get(text, '')
        xn, xkeys, xfails = extra_trips(m, G.rec_of(m, text) if 'N' in fl else None, text, fl, quick, tag)
        ncases += xn
        keys |= xkeys
        fams = {(): _family(m, bad)}
        fam = []
        inj_bad = []
        rec = G.rec_of(m, text)
        k = G.n_stereo(rec)
        if k:
            which = list(range(k)) if k <= max_k else sorted(r.sample(range(k), max_k))
            members = []
            for sub in itertools.chain.from_iterable(itertools.combinations(which, j) for j in range(len(which) + 1)):
                fr = G.flip(rec, set(sub))
                fm, dropped = G.build_rec(fr)
                D.norm(fm)
                fs = str(fm)
                if sub:  # the stereoisomers are domain molecules too: canonical + two more styles
                    _, nc, ks, b2, nr2 = _eval_molecule(fr['id'], fm, iso_specs, 1)
                    ncases += nc
                    nrd += nr2
                    keys |= ks
                    bad += [(sp, tx, d, sorted(sub)) for sp, tx, d, _ in b2]
                    fams[tuple(sorted(sub))] = _family(fm, b2)
                members.append((sub, fs, fm, _flip_rdkit(text, rec, set(sub))))
            for (sa, fa, ma, ra), (sb, fb, mb, rb) in itertools.combinations(members, 2):
                ncases += 1
                if fa != fb:
                    continue
                keys.add((fa, 'inj'))
                same = stereo_isomorphic(ma, mb)
                if same is False:
                    inj_bad.append((sorted(sa), sorted(sb), fa, 'the reference enumerator finds no configuration-preserving isomorphism'))
                elif ra is not None and rb is not None and ra != rb:
                    inj_bad.append((sorted(sa), sorted(sb), fa, f'RDKit canonical isomeric SMILES differ: {ra!r} vs {rb!r}'))
            fam = [(fs, sorted(sub)) for sub, fs, _, _ in members]
        out.append((text, s0, ncases, keys, bad, nrd, k, fam, inj_bad, fams, xn, xfails))
    return out


def _closure_contract(run):
    """every pair of closure numbers the writer can emit (its heap is range(1, 100)) is read back as exactly those two ring bonds"""
    from chython import smiles
    from chython.algorithms.smiles import Smiles
    f = Smiles._format_closure
    n = 0
    for a in range(1, 100):
        for b in range(a + 1, 100):
            text = f'C{f(a)}{f(b)}CC{f(a)}C{f(b)}'
            n += 1
            try:
                m = smiles(text)
                got = sorted((min(x, y), max(x, y)) for x, y, _ in m.bonds())
                ok = got == [(1, 2), (1, 3), (1, 4), (2, 3), (3, 4)]
                native = got
            except Exception as e:
                ok, native = False, f'{type(e).__name__}: {e}'
            if not ok:
                run.violation(f'closure:{a},{b}', f'C02 closures: text {text!r} written with _format_closure({a}), _format_closure({b}) is not '
                                                  f'read as the ring bonds 1-3 and 1-4', witness={'relation': 'closure', 'a': a, 'b': b,
                                                                                                  'text': text}, native=native)
    run.case(n, key=('closure-pairs', 'all'), sample={'contract': 'closures', 'pairs': n, 'example': f'C{f(9)}{f(10)}CC{f(9)}C{f(10)}'})
    run.bound('closure tokens: all 4851 pairs 1 <= a < b <= 99 of numbers the writer can draw from its heap')


def bounded(run):
    env.setup()
    from bounded import domains as D, d01_molgen as G
    from oracles import iso
    from oracles.o01_stereo import stereo_isomorphic
    quick = run.tier == 'quick'
    max_nodes, trials = (6, 6) if quick else (7, 7)
    specs_small = ALL_SPECS
    specs_corpus = QUICK_SPECS if quick else ALL_SPECS
    n_rand = 3 if quick else 2
    n_corpus = 300 if quick else None
    run.assume('the comparison reads stored labels through the sign convention of the library (stereogenic_* neighbour orders, '
               '_translate_*_sign table look-ups: C12 lemmas) relative to neighbours sorted by written index; nothing of the writer',
               'both sides are normalised with kekule(); thiele() before comparing (hydrogen counts of aromatic hetero atoms are '
               'unknown by design straight after parsing)',
               'oracles/iso.py + oracles/o01_stereo.py: reference judgement "isomorphic incl. configuration" (exhaustive enumeration, '
               'capped at 5000 isomorphisms per pair, undecided pairs are counted)',
               'RDKit 2026.03 (trusted, independent reader): the written text and the canonical text of one molecule get the same canonical '
               'isomeric SMILES whenever RDKit accepts both; stereoisomer texts for injectivity are produced by RDKit (InvertChirality / '
               'E<->Z on the corpus text), not by the writer under test',
               'the lossy options !s !b !z !x are not "supported styles" of the statement and are not exercised')

    _closure_contract(run)

    recs = G.atlas_records(max_nodes, trials) + G.ion_records()
    if quick:  # single-label (partially specified) variants only in the thorough tier: time budget
        recs = [rec for rec in recs if '/only' not in rec['id']]
    for s in G.SPECIAL_SMILES:
        recs.append(G.rec_of(D.parse(s), f'special:{s}'))
    recs += G.expander_records(36, 2 if quick else 4) + (G.expander_records(60, 2, tag='expander60') if not quick else [])
    from oracles.o01_families import ANCHORS
    anchors = [G.rec_of(D.parse(s), f'anchor:{s}') for fam in ANCHORS.values() for s in fam]
    run.bound(f'anchors: {len(anchors)} fixed witnesses of the recorded defect families (oracles/o01_families.py), identical in every tier / seed, '
              f'all 32 specs x 60 random orders for specs with r')
    from bounded import d02_extra as X
    extra = X.extra_records()
    recs = anchors + extra + recs
    by_id = {rec['id']: rec for rec in recs}
    # audit extension: which additional contracts run on which molecule (S atoms order, K Kekule form, O reader options, R reaction reader,
    # N numberings, T sticky, F the five-digit numbering witness)
    oq, nq, rq, tq = (5, 10, 5, 10) if quick else (2, 3, 2, 3)
    flags = {rec['id']: 'SKORNT' for rec in anchors + extra}
    flags[extra[0]['id']] += 'F'
    for i, rec in enumerate(recs[len(anchors) + len(extra):]):
        hand = rec['id'].startswith('special:')
        flags[rec['id']] = 'SK' + ('O' if hand or i % oq == 0 else '') + ('R' if hand or i % rq == 1 else '') + \
                           ('N' if hand or i % nq == 3 else '') + ('T' if hand or i % tq == 7 % tq else '')
    nfl = {c: sum(c in f for f in flags.values()) for c in 'SKORNT'}
    run.bound(f'audit extension, atlas domain (+ {len(extra)} hand-written inputs of bounded/d02_extra.py: stereo after a dot, explicit H on stereo '
              f'elements, cyclic allenes, hetero / exocyclic / macrocyclic cis-trans, ring-fusion centres, aromatic B P Se charged isotopic anionic '
              f'rings, charges to +-4, three-digit isotopes, bare atoms, any-order bonds; all specs like the rest): atoms-order contract on '
              f'{nfl["S"]} molecules; Kekule forms of every molecule with aromatic atoms among {nfl["K"]} x specs {KEK_SPECS} (2 orders for r); '
              f'{len(READER_OPTIONS)} reader option sets {[o[0] for o in READER_OPTIONS]} x specs {OPT_SPECS} on {nfl["O"]} molecules; reaction '
              f'reader x specs {RXN_SPECS} x {"one seeded role" if quick else "3 roles"} on {nfl["R"]} molecules (texts without a dot); numberings '
              f'{list(X.NUMBERINGS)} (atom numbers <= 9999) x specs {NUM_SPECS} (2 orders for r) on {nfl["N"]} molecules; sticky_smiles '
              f'(<= 3 terminal left atoms, seeded right atom, <= 16 atoms, connected, radical-free) on {nfl["T"]} molecules; one fixed '
              f'five-digit numbering witness')
    run.assume('the reader keywords remap / ignore=False / keep_implicit / ignore_bad_isotopes / ignore_carbon_radicals (and '
               'ignore_aromatic_radicals=False on molecules without aromatic atoms) do not change what a well-formed written text denotes; '
               'ignore_stereo=True keeps atoms and bonds (docstring of chython.smiles)',
               'a ring system > 99 simultaneously open closures and the empty molecule have no SMILES text: outside the domain')
    run.bound(f'decorated graph atlas <= {max_nodes} nodes ({trials} seeded decorations, 2x for trees; charges to +-3, isotopes, radicals, '
              f'spectator components, every 2^k labelling k <= 4 of perceived stereo elements) + hand-written + 4-regular 36/60-atom carbon '
              f'graphs (two-digit closures): {len(recs)} molecules x all {len(ALL_SPECS)} subsets of {{a,A,m,r,h}} x {n_rand} random orders for '
              f'specs with r')
    rs = anchors + sorted(recs[len(anchors):], key=lambda x: -len(x['atoms']))
    nchunk = max(env.NPROC * 6, 1)
    jobs = [(rs[i::nchunk], specs_small, n_rand, 'b02a', {r_['id']: flags[r_['id']] for r_ in rs[i::nchunk]}, quick)
            for i in range(nchunk) if rs[i::nchunk]]
    atlas_res = [x for part in pmap(_atlas_worker, jobs) for x in part]
    atlas_res.sort(key=lambda x: (not x[0].startswith('anchor:'),))  # anchors first: they become the recorded witnesses

    texts = list(dict.fromkeys(D.corpus_sample(n_corpus, tag='b02-corpus')))
    iso_specs = ['', 'r', 'ah']
    run.bound(f'corpus: {len(texts)} distinct SMILES of pach/lipophilicity.csv x {len(specs_corpus)} specs x {n_rand} random orders for specs '
              f'with r; all 2^k stereoisomers (k <= 4 labelled elements, seeded choice above) of every sampled molecule with stereo '
              f'labels, each written / read back in the styles {iso_specs}')
    oq, nq, rq = (3, 5, 3) if quick else (4, 8, 4)
    cflags = {t: 'SK' + ('O' if j % oq == 0 else '') + ('N' if j % nq == 1 else '') + ('R' if j % rq == 2 else '') for j, t in enumerate(texts)}
    nfl = {c: sum(c in f for f in cflags.values()) for c in 'SKORN'}
    run.bound(f'audit extension, corpus: atoms-order contract and Kekule forms (specs {KEK_SPECS}) on all {nfl["S"]} molecules; reader option '
              f'sets x specs {OPT_SPECS} on {nfl["O"]}; numberings x specs {NUM_SPECS} on {nfl["N"]}; reaction reader on {nfl["R"]}')
    nchunk = max(env.NPROC * 4, 1)
    jobs = [(texts[i::nchunk], specs_corpus, n_rand, iso_specs, 4, 'b02c', {t: cflags[t] for t in texts[i::nchunk]}, quick)
            for i in range(nchunk) if texts[i::nchunk]]
    corpus_res = [x for part in pmap(_corpus_worker, jobs) for x in part]

    notes = {'molecules': 0, 'stereo_molecules': 0, 'rdkit_cross_checks': 0, 'corpus_stereo_families': 0, 'stereoisomers_enumerated': 0,
             'injectivity_pairs_judged': 0, 'injectivity_undecided': 0, 'stereo_elements_in_domain': 0, 'audit_extension_evaluations': 0}
    by_string = {}
    k = 0

    def report_extra(domain, ident, xn, xfails, record=None):
        notes['audit_extension_evaluations'] += xn
        for key, what, wit, native in xfails:
            run.violation(key, ('[family ' + key[4:] + '] ' if key.startswith('c02:') else '') + what,
                          witness={**wit, 'domain': domain, 'input': ident, **({'record': record} if record is not None else {})}, native=native)
    for ident, s0, ncases, keys, bad, nrd, nst, fam_key, xn, xfails in atlas_res:
        k += 1
        report_extra('atlas', ident, xn, xfails, by_id[ident])
        notes['molecules'] += 1
        notes['stereo_molecules'] += bool(nst)
        notes['stereo_elements_in_domain'] += nst
        notes['rdkit_cross_checks'] += nrd
        run.case(ncases)
        for key in keys:
            run.case(0, key=key)
        if k % 211 == 1:
            run.case(0, sample={'domain': 'atlas', 'input': ident, 'canonical': s0, 'evaluations': ncases, 'stereo_labels': nst})
        by_string.setdefault(s0, []).append(ident)
        if bad:
            spec, text, d, _sub = bad[0]
            run.violation(f'c02:{fam_key}' if fam_key else f'roundtrip:{_h(ident)}:{ident}',
                          (f'[family {fam_key}] ' if fam_key else '') + f'C02 write->read, spec {spec!r}: {d} [atlas input {ident}, text {text!r}]' +
                          (f' (also specs {[b[0] for b in bad[1:]]})' if len(bad) > 1 else ''),
                          witness={'relation': 'roundtrip', 'domain': 'atlas', 'input': ident, 'record': by_id[ident], 'spec': spec,
                                   'text': text}, native={'canonical': s0, 'differences': {b[0]: [b[1], b[2]] for b in bad}})
    for text, s0, ncases, keys, bad, nrd, nst, fam, inj_bad, fams, xn, xfails in corpus_res:
        k += 1
        report_extra('corpus', text, xn, xfails)
        notes['molecules'] += 1 + max(0, len(fam) - 1)
        notes['stereo_molecules'] += len(fam)
        notes['stereo_elements_in_domain'] += nst
        notes['rdkit_cross_checks'] += nrd
        notes['corpus_stereo_families'] += bool(fam)
        notes['stereoisomers_enumerated'] += len(fam)
        notes['injectivity_pairs_judged'] += len(fam) * (len(fam) - 1) // 2
        run.case(ncases)
        for key in keys:
            run.case(0, key=key)
        if k % 53 == 1:
            run.case(0, sample={'domain': 'corpus', 'input': text, 'canonical': s0, 'evaluations': ncases, 'stereo_labels': nst,
                                'stereoisomers': len(fam)})
        done = set()
        for spec, tx, d, sub in bad:
            fl = tuple(sub) if sub else ()
            if fl in done:
                continue
            done.add(fl)
            same = [b for b in bad if (tuple(b[3]) if b[3] else ()) == fl]
            fk = fams.get(fl)
            run.violation(f'c02:{fk}' if fk else f'roundtrip:{_h(text + str(fl))}:{text}' + (f'/flip{list(fl)}' if fl else ''),
                          (f'[family {fk}] ' if fk else '') + f'C02 write->read, spec {spec!r}: {d} [corpus input {text}' +
                          (f', stereoisomer with elements {list(fl)} inverted' if fl else '') + f', text {tx!r}]' +
                          (f' (also specs {[b[0] for b in same[1:]]})' if len(same) > 1 else ''),
                          witness={'relation': 'roundtrip', 'domain': 'corpus', 'input': text, 'spec': spec, 'text': tx, 'flip': sub},
                          native={'canonical': s0, 'differences': {b[0]: [b[1], b[2]] for b in same}})
        for sa, sb, fs, why in inj_bad:
            run.violation(f'injectivity:{_h(text + str(sa) + str(sb))}:{text}|{sa}|{sb}', f'C02 injectivity: stereoisomers {sa} and {sb} (inverted elements) of {text} share '
                                                           f'the canonical string {fs!r}: {why}',
                          witness={'relation': 'injectivity', 'domain': 'corpus', 'input': text, 'a': sa, 'b': sb}, native={'string': fs})

    # injectivity over the atlas domain: one canonical string => isomorphic incl. configuration
    def mol_of(ident):
        return D.norm(G.build_rec(by_id[ident])[0])
    for s0, members in by_string.items():
        if len(members) < 2:
            continue
        ref = mol_of(members[0])
        for other in members[1:]:
            notes['injectivity_pairs_judged'] += 1
            run.case(1, key=(s0, 'inj'))
            mo = mol_of(other)
            same = stereo_isomorphic(ref, mo) if iso.is_isomorphic(ref, mo) else False
            if same is None:
                notes['injectivity_undecided'] += 1
            elif same is False:
                run.violation(f'injectivity:{_h(members[0] + other)}:{members[0]}|{other}',
                              f'C02 injectivity: molecules {members[0]} and {other} are not isomorphic (incl. configuration) but share the '
                              f'canonical string {s0!r}',
                              witness={'relation': 'injectivity', 'domain': 'atlas', 'record_a': by_id[members[0]], 'record_b': by_id[other]},
                              native={'string': s0})
    notes['distinct_canonical_strings_atlas'] = len(by_string)
    run.bound(f'injectivity: all pairs inside the atlas domain ({len(atlas_res)} molecules, {len(by_string)} distinct strings) and inside each '
              f'corpus stereoisomer family; pairs with equal strings judged by the reference enumerator (+ RDKit for corpus families)')
    run.notes.update(notes)


# ---- replay -------------------------------------------------------------------------------------------------------------------

def replay(rec):
    """re-run the witness natively; True if the property holds for it on the current tree"""
    env.setup()
    from bounded import domains as D, d01_molgen as G
    from oracles.o01_stereo import stereo_isomorphic
    from checks.b01 import _unjson
    from chython import smiles
    w = rec['witness']
    rel = w['relation']
    if rel == 'closure':
        from chython.algorithms.smiles import Smiles
        f = Smiles._format_closure
        text = f'C{f(w["a"])}{f(w["b"])}CC{f(w["a"])}C{f(w["b"])}'
        try:
            got = sorted((min(x, y), max(x, y)) for x, y, _ in smiles(text).bonds())
        except Exception as e:
            got = repr(e)
        print('  text:', text, ' bonds read:', got)
        return got == [(1, 2), (1, 3), (1, 4), (2, 3), (3, 4)]
    if rel == 'injectivity':
        if w['domain'] == 'atlas':
            a = D.norm(G.build_rec(_unjson(w['record_a']))[0])
            b = D.norm(G.build_rec(_unjson(w['record_b']))[0])
        else:
            r0 = G.rec_of(D.parse(w['input']), w['input'])
            a = D.norm(G.build_rec(G.flip(r0, set(w['a'])))[0])
            b = D.norm(G.build_rec(G.flip(r0, set(w['b'])))[0])
        print('  a:', str(a), ' b:', str(b), ' isomorphic incl. configuration:', stereo_isomorphic(a, b))
        return str(a) != str(b) or stereo_isomorphic(a, b) is not False
    if w.get('record') is not None:
        m = D.norm(G.build_rec(_unjson(w['record']))[0])
    else:
        m = D.parse(w['input'])
        if w.get('flip'):
            m = D.norm(G.build_rec(G.flip(G.rec_of(m, w['input']), set(w['flip'])))[0])
    if rel in ('option', 'numbering', 'kekule-form', 'atoms-order', 'reaction', 'sticky'):
        return _replay_extra(rel, w, m)
    spec = w['spec']
    ok = True
    for _ in range(40 if 'r' in spec else 1):  # random orders: the witness text is one draw, try a number of them
        text, d, _u = round_trip(m, spec, _rd_canon(str(m)))
        if d:
            print('  text:', text, ' ->', d)
            ok = False
            break
    if ok and w.get('text'):
        # the recorded text itself, read back and compared with the molecule through the isomorphism oracle
        try:
            m2 = D.norm(smiles(w['text']))
            ok = stereo_isomorphic(m, m2) is not False
            print('  recorded text', w['text'], 'read back as', str(m2), '; isomorphic incl. configuration:', ok)
        except Exception as e:
            print('  recorded text raised', repr(e))
            ok = False
    return ok


def _replay_extra(rel, w, m):
    """audit-extension relations: the contract is re-run natively on the rebuilt molecule (random styles: 40 draws)"""
    import random
    from bounded import domains as D, d01_molgen as G
    from checks.b01 import _unjson
    ident = w.get('input', '?')
    spec = w.get('spec', '')
    reps = 40 if 'r' in spec else 1
    fails = []
    if rel == 'option':
        opts = [o for o in READER_OPTIONS if o[0] == w['option']]
        for _ in range(reps):
            fails += option_trips(m, ident, [spec], opts)[2]
        # the recorded text itself, read with the option
        kw, mode = opts[0][1], opts[0][2]
        if not fails and w.get('text'):
            from chython import smiles
            try:
                m2 = smiles(w['text'], **kw)
                print('  recorded text', w['text'], 'read with', kw, 'as', str(m2))
            except Exception as e:
                print('  recorded text', w['text'], 'read with', kw, 'raised', repr(e))
                return False
    elif rel == 'numbering':
        nb = w['numbering']
        rec = _unjson(w['record']) if w.get('record') is not None else G.rec_of(m, ident)
        m2, _ = G.build_rec(rec, nb['perm'], nb['node_order'], nb['edge_order'], set(nb['flip_edges']), offset=nb['offset'])
        D.norm(m2)
        for _ in range(reps):
            text, d, _u = round_trip(m2, spec, None)
            if d:
                fails.append((None, f'text {text!r}: {d}'))
                break
    elif rel == 'kekule-form':
        fails = kekule_trips(m, ident, [spec], reps)[2]
    elif rel == 'atoms-order':
        fails = atoms_order_trips(m, ident)[2]
    elif rel == 'reaction':
        for _ in range(reps):
            fails += reaction_trips(m, ident, [spec], (w['role'],))[2]
    elif rel == 'sticky':
        class _R(random.Random):  # the recorded pair of terminal atoms
            def sample(self, pop, k):
                return [w['left']]

            def choice(self, seq):
                return w['right']

            def random(self):
                return 0.0 if w['right'] else 1.0
        for _ in range(20):
            fails += sticky_trips(m, ident, _R(), 1)[2]
    for f in fails[:3]:
        print('  ', f[1])
    return not fails
