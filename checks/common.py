"""helpers shared by the per-property check modules"""
import contextlib
import importlib

from vlib.env import Unanchored
from vlib import env
import tables


def t_oblig(run, name, ok, key=None, what=None, witness=None, engine='T'):
    """one table-lemma obligation (complete enumeration of a finite key set)"""
    k = None
    if not ok:
        k = run.violation(key or name, what or f'table lemma {name} fails on the current tree', witness=witness, obligation=name)
    run.oblig(name, bool(ok), engine, 'enum', 0.0, known=(k == 'known'))
    return bool(ok)


@contextlib.contextmanager
def anchored(run, group):
    """a contract group whose function / region / table is not found in the current tree in the addressed shape is reported as UNANCHORED
    (obligations not generated) and the rest of the check goes on; never a violation, never a crash"""
    try:
        yield
    except Unanchored as e:
        run.unanchored(group, e)


def bounded_part(run, pid):
    """run checks/bNN.py:bounded(run) when it exists (engine B, never counted as proved)"""
    if run.only and 'B' not in run.only:
        return False
    try:
        b = importlib.import_module(f'checks.b{pid[1:]}')
    except ModuleNotFoundError as e:
        if e.name != f'checks.b{pid[1:]}':
            raise
        return False
    b.bounded(run)
    return True


def want(run, part):
    return not run.only or part in run.only


def contract_sources(run, pairs):
    for rel, qual in pairs:
        try:
            run.under_contract(rel, qual, tables.source_of(rel, qual))
        except LookupError:
            run.under_contract(rel, qual, env.read(rel))


def make_replay(pid):
    """replay delegation to checks/bNN.py when the record comes from the bounded part"""
    def replay(rec):
        b = importlib.import_module(f'checks.b{pid[1:]}')
        return b.replay(rec)
    return replay
