"""C17 bounded stand-in (engine B): fingerprints are structure functions with the documented fragment semantics.

The real `_chains`, `_fragments`, `linear_hash_set`, `linear_hash_smiles`, `linear_bit_set`, `linear_fingerprint`, `_atom_identifiers`,
`_morgan_hash_dict`, `morgan_hash_set`, `morgan_bit_set`, `morgan_fingerprint` are called on every molecule of the domain over the
parameter grid and compared with the reference semantics of oracles/o17_ref.py (shared simple-path enumerator, independent
neighbourhood hasher, independent folding) and with themselves under renumbering and insertion-order shuffles.  Never counted as proof.

Coverage audit (2026-10): also `linear_smiles_hash`, `morgan_hash_smiles`, `morgan_smiles_hash`, every default and keyword spelling, lengths
2^0..2^4 / 2^13 / 2^16 / 2^20, the written fragment SMILES (read back by oracles/o17_extra.py), CGRContainer inputs (FingerprintsCGR), the
hand-written input classes of bounded/d17_extra.py (salts, isotopes, explicit H, radicals, metals, cages, the empty molecule, an atom-type
table), a deterministic descending / gapped / > 999 numbering, aliasing of returned containers and an edit sequence on a fingerprinted copy.
"""
from collections import Counter

from vlib import env
from vlib.report import pmap

RULE = ('bounded: every C17 contract evaluated natively per molecule over the stated parameter grid; non-trivial = the molecule has at '
        'least one bond (paths longer than one atom, neighbourhoods of radius > 1) - keyed by its canonical SMILES / decoration')

RADII = [(lo, hi) for lo in range(1, 7) for hi in range(lo, 7)]          # 21 (min, max) pairs, radii 1-6
LENGTHS = [1 << k for k in range(5, 13)]                                  # 2^5 .. 2^12
NABS = [1, 2, 3, 4]
CAPS = [0, 1, 2, 3, 4, 5]                                                 # number_bit_pairs 0-5 (0 = unlimited)
EXT_LENGTHS = [1, 2, 4, 8, 16, 1 << 13, 1 << 16, 1 << 20]                  # boundary lengths 2^0..2^4, 2^13, 2^16 (4 windows = 64 bits), 2^20 (sign extension)
MAX_REPORT = 25
# linear_hash_smiles lists, per hash, the SMILES of ONE arbitrary chain of the fragment (chains[0]); which chain is first depends on set
# iteration order, hence on atom numbering (e.g. 'n' vs 'N' for Nc1ccc2ccccc2n1).  The property text names fingerprints, hash sets and
# fragment dictionaries; the keys of linear_hash_smiles are enforced, the representative strings are only counted (run.notes) unless
# the coordinator switches this on.
ENFORCE_HASH_SMILES_VALUES = False
ITEM_BUDGET_S = 120   # watchdog per molecule (normal: < 3 s); after a first timeout in a worker: 10 s, after five: skip
_TIMEOUTS = [0]


class _Watchdog(BaseException):
    pass


# ---------------------------------------------------------------------------------------------------------------------------------
def _params(tag, lo, hi, *rest):
    return f'{tag}({lo},{hi}' + ''.join(f',{x}' for x in rest) + ')'


def _mol_variant(m, r, v):
    """numbering / insertion-order variant v of molecule m: (variant, map old -> new number, how)"""
    from bounded import domains as D
    if v % 2 == 0:
        c, mp = D.renumber(m, r, offset=r.choice((0, 0, 5, 1000)))
        return c, mp, {'renumber': {str(k): x for k, x in mp.items()}}
    return D.rebuild(m, r), {n: n for n in m}, {'rebuild': 'shuffled insertion order of atoms and bonds'}


def check_molecule(m, r, full_caps=True, n_variants=2, view=None, make_variant=None, det_variant=True, edits=True):
    """all C17 contracts on one molecule (or CGR: view = CGRView); returns (failures [(contract, params, what, native)], evaluations, info)"""
    import numpy as np
    from bounded import domains as D
    from oracles import o17_ref as R
    from oracles import o17_extra as X
    view = view or X.MolView
    fails, seen = [], set()
    nev = 0

    def fail(contract, params, what, native=None, slot=None):
        if (contract, slot) not in seen:      # first failing parameter set per contract (and slot) and molecule
            seen.add((contract, slot))
            fails.append((contract, params, what, native))

    adj = view.adjacency(m)
    ids = m._atom_identifiers
    # identifiers: a function of (isotope, element, charge, radical) only, and distinct for distinct attribute tuples -----------------------
    akeys = {n: view.atom_key(a) for n, a in m.atoms()}
    by_key, by_id = {}, {}
    for n in akeys:
        by_key.setdefault(akeys[n], set()).add(ids[n])
        by_id.setdefault(ids[n], set()).add(akeys[n])
    nev += 1
    if set(ids) != set(akeys) or any(len(v) > 1 for v in by_key.values()):
        fail('atom-identifiers-structure-only', '', 'atoms with equal isotope/element/charge/radical have different identifiers',
             {str(k): sorted(v) for k, v in by_key.items() if len(v) > 1})
    for i, grp in sorted((i, sorted(v)) for i, v in by_id.items() if len(v) > 1):
        # family predicate on the input (not on the outcome): the colliding atom types differ only by the value -1 versus -2 of a charge field
        # (CPython: hash(-1) == hash(-2), so tuples that differ only there hash equal); any other collision keeps its own key
        minus = len({tuple(-2 if x == -1 and x is not True else x for x in k) for k in grp}) == 1
        if minus:
            fail('atom-identifiers-distinguish', 'charge-1~-2', f'atoms that differ only in charge -1 / -2 share an identifier, e.g. types {grp} '
                 f'(isotope, element, charge[, product charge], radical[, product radical]) -> {i}', {str(i): [list(k) for k in grp]}, slot='minus')
        else:
            fail('atom-identifiers-distinguish', '~'.join(str(k).replace(' ', '') for k in grp),
                 f'atoms with different isotope/element/charge/radical share the identifier {i}: {grp}', {str(i): [list(k) for k in grp]}, slot='other')

    paths = R.paths_by_length(adj, 6)
    levels = R.morgan_levels(adj, ids, 6)
    lin_hashes = {}      # (lo, hi, cap) -> reference hash set
    frag_tables = {}     # (lo, hi) -> {library key: count}
    max_mult = 0
    for lo, hi in RADII:
        P = set()
        for L in range(lo, hi + 1):
            P |= paths.get(L, set())
        # _chains = the simple paths with lo <= #atoms <= hi, each once up to reversal --------------------------------------------------------
        ch = m._chains(lo, hi)
        nev += 1
        norm = Counter(min(t, t[::-1]) for t in map(tuple, ch))
        if set(norm) != P or len(ch) != len(P) or any(v > 1 for v in norm.values()):
            extra, missing = sorted(set(norm) - P)[:3], sorted(P - set(norm))[:3]
            fail('chains=simple-paths', _params('_chains', lo, hi),
                 f'_chains returns {len(ch)} chains, the path oracle {len(P)}; not paths {extra}, missing {missing}, '
                 f'repeated {[k for k, v in norm.items() if v > 1][:3]}', {'n': len(ch), 'oracle': len(P)})
        # _fragments: keys = one canonical reading of (id, order, id, ...), multiplicity = number of such paths --------------------------------
        fr = m._fragments(lo, hi)
        nev += 1
        ref = R.fragment_counter(P, adj, ids)
        lib = Counter()
        ok = True
        stored = Counter()
        for k, chains in fr.items():
            lib[R.klass(tuple(k))] += len(chains)
            for c in chains:
                c = tuple(c)
                stored[min(c, c[::-1])] += 1
                if R.descriptor(c, adj, ids) != tuple(k):
                    ok = False
        if len({R.klass(tuple(k)) for k in fr}) != len(fr):
            fail('fragments-canonical-direction', _params('_fragments', lo, hi), 'a fragment is stored under both reading directions')
        if lib != ref:
            d = [(k, lib.get(k), ref.get(k)) for k in set(lib) | set(ref) if lib.get(k) != ref.get(k)][:3]
            fail('fragments=path-multiset', _params('_fragments', lo, hi),
                 f'fragment multiplicities differ from the path oracle: (descriptor, library, oracle) {d}', {'n_keys': len(fr), 'oracle': len(ref)})
        if not ok or stored != Counter(P):
            fail('fragments-chains', _params('_fragments', lo, hi), 'the chains listed under a key do not spell the key or are not exactly the simple paths')
        table = {tuple(k): ref.get(R.klass(tuple(k)), 0) for k in fr}
        frag_tables[lo, hi] = table
        max_mult = max([max_mult, *table.values()])
        # linear_hash_set: count semantics ----------------------------------------------------------------------------------------------------
        caps = CAPS + [None] if full_caps or (lo, hi) in ((1, 4), (1, 6), (2, 5)) else [r.choice(CAPS), r.choice(CAPS + [None])]
        for cap in caps:
            hs = m.linear_hash_set(lo, hi, cap)
            nev += 1
            exp = R.linear_hashes(table.items(), cap)
            lin_hashes[lo, hi, cap] = exp
            if hs != exp:
                fail('linear_hash_set-count-cap', _params('linear_hash_set', lo, hi, cap),
                     f'{len(hs)} hashes, reference (fragment with c occurrences -> counts 0..min(c, cap)-1; cap 0/None = all) gives {len(exp)}; '
                     f'extra {len(hs - exp)}, missing {len(exp - hs)}', {'n': len(hs), 'expected': len(exp)})
        # morgan ------------------------------------------------------------------------------------------------------------------------------
        md = m._morgan_hash_dict(lo, hi)
        nev += 1
        if [dict(x) for x in md] != levels[lo - 1:hi]:
            bad = [i + lo for i, (a, b) in enumerate(zip(md, levels[lo - 1:hi])) if dict(a) != b]
            fail('morgan=iterated-neighbourhood-hash', _params('_morgan_hash_dict', lo, hi),
                 f'{len(md)} radii returned for {hi - lo + 1} requested; radii that differ from the independent hasher: {bad}')
        ms = m.morgan_hash_set(lo, hi)
        nev += 1
        if ms != {x for lv in levels[lo - 1:hi] for x in lv.values()}:
            fail('morgan_hash_set', _params('morgan_hash_set', lo, hi), 'not the set of identifiers of the requested radii')

    # linear_hash_smiles / linear_smiles_hash: same hashes for every cap (the cap logic is a second copy of linear_hash_set's); each listed
    # SMILES reads (independent token reader) as one simple path of a fragment with that hash; linear_smiles_hash is the inverse relation ------
    def spellings(lo, hi):
        by_class = {}
        for L in range(lo, hi + 1):
            for p in paths.get(L, ()):
                toks = tuple(view.token(m._atoms[n]) for n in p)
                ords = tuple(adj[x][y] for x, y in zip(p, p[1:]))
                by_class.setdefault(R.klass(R.descriptor(p, adj, ids)), set()).update(((toks, ords), (toks[::-1], ords[::-1])))
        return by_class

    smi_calls = [(1, 4, cap) for cap in CAPS + [None]]
    for _ in range(2):
        lo, hi = r.choice(RADII)
        smi_calls.append((lo, hi, r.choice(CAPS)))
    spell_cache = {}
    for lo, hi, cap in smi_calls:
        try:
            d = m.linear_hash_smiles(lo, hi, cap)
            inv = m.linear_smiles_hash(lo, hi, cap)
        except Exception as e:
            fail('linear_hash_smiles-raises', _params('linear_hash_smiles', lo, hi, cap), f'{type(e).__name__}: {e}')
            continue
        nev += 2
        if set(d) != lin_hashes.get((lo, hi, cap), m.linear_hash_set(lo, hi, cap)) or \
                not all(isinstance(v, list) and v and all(isinstance(s, str) for s in v) for v in d.values()):
            fail('linear_hash_smiles-keys', _params('linear_hash_smiles', lo, hi, cap), 'keys are not the hash set / values not SMILES lists')
        pairs = [(k, s) for s, v in inv.items() for k in v]
        if set(pairs) != {(k, s) for k, v in d.items() for s in v} or len(pairs) != len(set(pairs)):
            fail('linear_smiles_hash-inverse', _params('linear_smiles_hash', lo, hi, cap),
                 'linear_smiles_hash is not the inverse relation {SMILES: hashes} of linear_hash_smiles for the same parameters',
                 {'pairs': len(pairs), 'expected': sum(len(v) for v in d.values())})
        if view.token is not None and cap in (None, 4):
            if (lo, hi) not in spell_cache:
                spell_cache[lo, hi] = spellings(lo, hi)
            sp = spell_cache[lo, hi]
            allowed = {}
            for k, c in frag_tables[lo, hi].items():
                for i in range(c if not cap else min(c, cap)):
                    allowed.setdefault(hash((*k, i)), set()).update(sp.get(R.klass(k), ()))
            for h, v in d.items():
                for sm in v:
                    rd = X.read_linear(sm) if isinstance(sm, str) else None
                    if rd is None or (tuple(rd[0]), tuple(rd[1])) not in allowed.get(h, ()):
                        fail('linear_hash_smiles-spells-fragment', _params('linear_hash_smiles', lo, hi, cap),
                             f'the SMILES {sm!r} listed for hash {h} does not read as (isotope, element, charge / bond order) sequence of any '
                             f'simple path of a fragment with that hash', {'smiles': sm, 'read': rd})
                        break

    # morgan_hash_smiles / morgan_smiles_hash: keys = identifiers of the requested radii; the SMILES listed for an identifier of radius r are
    # the neighbourhoods within r - 1 bonds of the atoms carrying it (atom-token multiset read independently); inverse relation ---------------
    mor_calls = [(1, 4)] if len(adj) <= 30 else []
    lo = r.randint(1, 6)
    mor_calls.append((lo, min(6, lo + r.randint(0, 1 if len(adj) > 30 else 2))))
    for lo, hi in mor_calls:
        try:
            d = m.morgan_hash_smiles(lo, hi)
            inv = m.morgan_smiles_hash(lo, hi)
        except Exception as e:
            fail('morgan_hash_smiles-raises', _params('morgan_hash_smiles', lo, hi), f'{type(e).__name__}: {e}')
            continue
        nev += 2
        if set(d) != {x for lv in levels[lo - 1:hi] for x in lv.values()} or \
                not all(isinstance(v, list) and v and all(isinstance(s, str) for s in v) for v in d.values()):
            fail('morgan_hash_smiles-keys', _params('morgan_hash_smiles', lo, hi), 'keys are not the identifiers of the requested radii / values not SMILES lists')
        pairs = [(k, s) for s, v in inv.items() for k in v]
        if set(pairs) != {(k, s) for k, v in d.items() for s in v} or len(pairs) != len(set(pairs)):
            fail('morgan_smiles_hash-inverse', _params('morgan_smiles_hash', lo, hi),
                 'morgan_smiles_hash is not the inverse relation {SMILES: identifiers} of morgan_hash_smiles for the same parameters')
        if view.token is not None:
            exp = {}
            for rad in range(lo, hi + 1):
                for a, h in levels[rad - 1].items():
                    exp.setdefault(h, set()).add(frozenset(Counter(view.token(m._atoms[n]) for n in X.ball(adj, a, rad - 1)).items()))
            for h, v in d.items():
                got = set()
                for sm in v:
                    cp = X.composition(sm) if isinstance(sm, str) else None
                    got.add(None if cp is None else frozenset(cp.items()))
                if got != exp.get(h):
                    fail('morgan_hash_smiles-neighbourhood', _params('morgan_hash_smiles', lo, hi),
                         f'the SMILES {v} listed for identifier {h} do not have the atoms of the neighbourhoods (radius r = r - 1 bonds) of the atoms '
                         f'carrying it', {'smiles': v, 'expected_atoms': sorted(sorted(map(str, x)) for x in exp.get(h, ()))[:3]})
                    break

    # defaults (1, 4, 1024, 2, 4) and keyword spelling of every public parameter ---------------------------------------------------------------------
    dm = {x for lv in levels[0:4] for x in lv.values()}
    nev += 8
    dflt = [('_chains', lambda: {min(t, t[::-1]) for t in map(tuple, m._chains())}, {min(t, t[::-1]) for t in map(tuple, m._chains(1, 4))}),
            ('_fragments', lambda: {tuple(k): len(v) for k, v in m._fragments().items()}, frag_tables[1, 4]),
            ('linear_hash_set', m.linear_hash_set, lin_hashes[1, 4, 4]),
            ('linear_bit_set', m.linear_bit_set, R.fold(lin_hashes[1, 4, 4], 1024, 2)),
            ('linear_hash_smiles', lambda: set(m.linear_hash_smiles()), lin_hashes[1, 4, 4]),
            ('linear_smiles_hash', lambda: {k for v in m.linear_smiles_hash().values() for k in v}, lin_hashes[1, 4, 4]),
            ('_morgan_hash_dict', lambda: [dict(x) for x in m._morgan_hash_dict()], levels[0:4]),
            ('morgan_hash_set', m.morgan_hash_set, dm),
            ('morgan_bit_set', m.morgan_bit_set, R.fold(dm, 1024, 2))]
    if len(adj) <= 30:
        dflt.append(('morgan_hash_smiles', lambda: set(m.morgan_hash_smiles()), dm))
    for name, call, exp in dflt:
        if call() != exp:
            fail('default-parameters', name + '()', 'the call without arguments is not the call with min_radius=1, max_radius=4, length=1024, '
                 'number_active_bits=2, number_bit_pairs=4')
    lo, hi = r.choice(RADII)
    cap, nab, length = r.choice(CAPS), r.choice(NABS), r.choice(LENGTHS)
    ms = {x for lv in levels[lo - 1:hi] for x in lv.values()}
    nev += 7
    kw = [('linear_hash_set', dict(number_bit_pairs=cap, max_radius=hi, min_radius=lo), lin_hashes[lo, hi, cap], None),
          ('linear_bit_set', dict(number_bit_pairs=cap, number_active_bits=nab, length=length, max_radius=hi, min_radius=lo),
           R.fold(lin_hashes[lo, hi, cap], length, nab), None),
          ('linear_fingerprint', dict(number_bit_pairs=cap, number_active_bits=nab, length=length, max_radius=hi, min_radius=lo),
           R.fold(lin_hashes[lo, hi, cap], length, nab), lambda a: {int(i) for i in np.flatnonzero(a)}),
          ('linear_hash_smiles', dict(number_bit_pairs=cap, max_radius=hi, min_radius=lo), lin_hashes[lo, hi, cap], set),
          ('morgan_hash_set', dict(max_radius=hi, min_radius=lo), ms, None),
          ('morgan_bit_set', dict(number_active_bits=nab, length=length, max_radius=hi, min_radius=lo), R.fold(ms, length, nab), None),
          ('morgan_fingerprint', dict(number_active_bits=nab, length=length, max_radius=hi, min_radius=lo), R.fold(ms, length, nab),
           lambda a: {int(i) for i in np.flatnonzero(a)})]
    for name, kwargs, exp, conv in kw:
        try:
            got = getattr(m, name)(**kwargs)
        except TypeError as e:
            fail('keyword-parameters', f'{name}(**{kwargs})', f'documented keyword not accepted: {e}')
            continue
        if (conv(got) if conv else got) != exp:
            fail('keyword-parameters', f'{name}(**{kwargs})', 'the call with keyword arguments differs from the reference for these parameters')

    # folding: every (length, active bits) of the grid with seeded radii / cap --------------------------------------------------------------------
    bit_calls = []
    for length in LENGTHS:
        for nab in NABS:
            lo, hi = r.choice(RADII)
            cap = r.choice([c for c in CAPS + [None] if (lo, hi, c) in lin_hashes])
            hs = lin_hashes[lo, hi, cap]
            bs = m.linear_bit_set(lo, hi, length, nab, cap)
            nev += 1
            bit_calls.append(('l', lo, hi, length, nab, cap))
            if any(not isinstance(x, int) or not 0 <= x < length for x in bs):
                fail('bit-index-range', _params('linear_bit_set', lo, hi, length, nab, cap), f'index outside 0..{length - 1}: {sorted(bs)[:3]}..{sorted(bs)[-3:]}')
            elif bs != R.fold(hs, length, nab) or len(bs) > nab * len(hs):
                fail('bits-follow-active-bits', _params('linear_bit_set', lo, hi, length, nab, cap),
                     f'bit set differs from the {nab} lowest {length.bit_length() - 1}-bit windows of each hash: {len(bs)} bits, expected '
                     f'{len(R.fold(hs, length, nab))} from {len(hs)} hashes')
            lo, hi = r.choice(RADII)
            ms = {x for lv in levels[lo - 1:hi] for x in lv.values()}
            bs = m.morgan_bit_set(lo, hi, length, nab)
            nev += 1
            bit_calls.append(('m', lo, hi, length, nab))
            if any(not isinstance(x, int) or not 0 <= x < length for x in bs):
                fail('bit-index-range', _params('morgan_bit_set', lo, hi, length, nab), f'index outside 0..{length - 1}')
            elif bs != R.fold(ms, length, nab) or len(bs) > nab * len(ms):
                fail('bits-follow-active-bits', _params('morgan_bit_set', lo, hi, length, nab),
                     f'bit set differs from the {nab} lowest {length.bit_length() - 1}-bit windows of each hash: {len(bs)} bits, expected '
                     f'{len(R.fold(ms, length, nab))} from {len(ms)} hashes')
    # boundary lengths 2^k outside 2^5..2^12: every active-bits value; one array per length ------------------------------------------------------
    ext_calls = []
    for length in EXT_LENGTHS:
        lo, hi = r.choice(RADII)
        cap = r.choice([c for c in CAPS + [None] if (lo, hi, c) in lin_hashes])
        hs = lin_hashes[lo, hi, cap]
        lo2, hi2 = r.choice(RADII)
        ms = {x for lv in levels[lo2 - 1:hi2] for x in lv.values()}
        for nab in NABS:
            nev += 2
            for tag, bs, ref, prm in (('linear_bit_set', m.linear_bit_set(lo, hi, length, nab, cap), hs, (lo, hi, length, nab, cap)),
                                      ('morgan_bit_set', m.morgan_bit_set(lo2, hi2, length, nab), ms, (lo2, hi2, length, nab))):
                if any(not isinstance(x, int) or not 0 <= x < length for x in bs):
                    fail('bit-index-range', _params(tag, *prm), f'index outside 0..{length - 1}: {sorted(bs)[:3]}..{sorted(bs)[-3:]}')
                elif bs != R.fold(ref, length, nab) or len(bs) > nab * len(ref):
                    fail('bits-follow-active-bits', _params(tag, *prm),
                         f'bit set differs from the {nab} lowest {length.bit_length() - 1}-bit windows of each hash: {len(bs)} bits, expected '
                         f'{len(R.fold(ref, length, nab))} from {len(ref)} hashes')
        nab = r.choice(NABS)
        ext_calls += [('l', lo, hi, length, nab, cap), ('m', lo2, hi2, length, nab)]
    # arrays ------------------------------------------------------------------------------------------------------------------------------------
    arr_calls = r.sample(bit_calls, 6) + [c for c in ext_calls if c[3] <= 1 << 16]
    for call in arr_calls:
        if call[0] == 'l':
            _, lo, hi, length, nab, cap = call
            arr, bs = m.linear_fingerprint(lo, hi, length, nab, cap), m.linear_bit_set(lo, hi, length, nab, cap)
        else:
            _, lo, hi, length, nab = call
            arr, bs = m.morgan_fingerprint(lo, hi, length, nab), m.morgan_bit_set(lo, hi, length, nab)
        nev += 1
        if len(arr) != length or {int(i) for i in np.flatnonzero(arr)} != set(bs) or any(int(x) not in (0, 1) for x in arr):
            fail('fingerprint-array', _params('linear_fingerprint' if call[0] == 'l' else 'morgan_fingerprint', *call[1:]),
                 f'array of length {len(arr)} for requested {length}, or ones not exactly at the bit set')
    for name in ('linear_fingerprint', 'morgan_fingerprint'):
        a = getattr(m, name)()
        nev += 1
        if len(a) != 1024 or {int(i) for i in np.flatnonzero(a)} != set(getattr(m, name.replace('fingerprint', 'bit_set'))()):
            fail('fingerprint-array', name + '()', 'default call: length is not 1024 or ones not at the default bit set')

    # numbering and insertion order ---------------------------------------------------------------------------------------------------------
    smiles_values_differ = False
    try:
        ref_smiles = {k: sorted(x) for k, x in m.linear_hash_smiles(1, 4, 4).items()}
    except Exception:
        ref_smiles = None
    make_variant = make_variant or (lambda v, rr: _mol_variant(m, rr, v))
    variants = list(range(n_variants)) + (['descending-gapped'] if det_variant else [])
    for v in variants:
        if v == 'descending-gapped':      # deterministic: numbers descending along the old order, gaps of 7, all > 999, reversed insertion order
            from bounded import d17_extra as E
            c, mp = E.descending_gapped(m)
            how = {'descending-gapped': {str(k): x for k, x in mp.items()}}
        else:
            c, mp, how = make_variant(v, r)
        for lo, hi in RADII:
            fr = {tuple(k): len(x) for k, x in c._fragments(lo, hi).items()}
            nev += 1
            if fr != frag_tables[lo, hi]:
                fail('renumbering:fragments', _params('_fragments', lo, hi), 'fragment dictionary (keys with multiplicities) changes under ' + next(iter(how)), how)
            md = c._morgan_hash_dict(lo, hi)
            nev += 1
            if [{n: lv[mp[n]] for n in mp} for lv in md] != levels[lo - 1:hi]:
                fail('renumbering:morgan', _params('_morgan_hash_dict', lo, hi), 'per-atom Morgan identifiers change under ' + next(iter(how)), how)
            for cap in (r.choice(CAPS), None):
                nev += 1
                if (lo, hi, cap) in lin_hashes and c.linear_hash_set(lo, hi, cap) != lin_hashes[lo, hi, cap]:
                    fail('renumbering:linear_hash_set', _params('linear_hash_set', lo, hi, cap), 'hash set changes under ' + next(iter(how)), how)
            nev += 1
            if c.morgan_hash_set(lo, hi) != {x for lv in levels[lo - 1:hi] for x in lv.values()}:
                fail('renumbering:morgan_hash_set', _params('morgan_hash_set', lo, hi), 'hash set changes under ' + next(iter(how)), how)
        if ref_smiles is not None:
            try:
                got = {k: sorted(x) for k, x in c.linear_hash_smiles(1, 4, 4).items()}
                if set(got) != set(ref_smiles):
                    fail('renumbering:linear_hash_smiles-keys', 'linear_hash_smiles(1,4,4)', 'hash keys change under ' + next(iter(how)), how)
                elif got != ref_smiles:      # observation only, see ENFORCE_HASH_SMILES_VALUES
                    smiles_values_differ = True
                    if ENFORCE_HASH_SMILES_VALUES:
                        d = [(k, ref_smiles[k], got[k]) for k in got if got[k] != ref_smiles[k]][:3]
                        fail('renumbering:linear_hash_smiles-values', 'linear_hash_smiles(1,4,4)',
                             f'representative fragment SMILES of a hash change under {next(iter(how))}: {d}', how)
            except Exception as e:
                fail('linear_hash_smiles-raises', 'linear_hash_smiles(1,4,4)', f'{type(e).__name__}: {e} after ' + next(iter(how)), how)
        for call in r.sample(bit_calls, 10):
            nev += 1
            if call[0] == 'l':
                _, lo, hi, length, nab, cap = call
                same = c.linear_bit_set(lo, hi, length, nab, cap) == m.linear_bit_set(lo, hi, length, nab, cap) and \
                    (c.linear_fingerprint(lo, hi, length, nab, cap) == m.linear_fingerprint(lo, hi, length, nab, cap)).all()
            else:
                _, lo, hi, length, nab = call
                same = c.morgan_bit_set(lo, hi, length, nab) == m.morgan_bit_set(lo, hi, length, nab) and \
                    (c.morgan_fingerprint(lo, hi, length, nab) == m.morgan_fingerprint(lo, hi, length, nab)).all()
            if not same:
                fail('renumbering:fingerprint', _params('bit_set/fingerprint', *call[1:]), 'bit set / array changes under ' + next(iter(how)), how)
    # aliasing: results handed out are not shared with later calls ---------------------------------------------------------------------------------
    nev += 1
    before = ({tuple(k): sorted(map(tuple, v)) for k, v in m._fragments(1, 4).items()}, [dict(x) for x in m._morgan_hash_dict(1, 3)],
              dict(m._atom_identifiers), set(map(tuple, m._chains(1, 3))), set(m.linear_hash_set()), set(m.morgan_hash_set()),
              {k: sorted(v) for k, v in m.linear_hash_smiles().items()})
    fr = m._fragments(1, 4)
    for v in fr.values():
        v.clear()
    fr.clear()
    for x in m._morgan_hash_dict(1, 3):
        x.clear()
    m._atom_identifiers.clear()
    for x in (m._chains(1, 3), m.linear_hash_set(), m.morgan_hash_set(), m.linear_bit_set(), m.morgan_bit_set()):
        x.clear()
    for v in m.linear_hash_smiles().values():
        v.clear()
    after = ({tuple(k): sorted(map(tuple, v)) for k, v in m._fragments(1, 4).items()}, [dict(x) for x in m._morgan_hash_dict(1, 3)],
             dict(m._atom_identifiers), set(map(tuple, m._chains(1, 3))), set(m.linear_hash_set()), set(m.morgan_hash_set()),
             {k: sorted(v) for k, v in m.linear_hash_smiles().items()})
    if before != after:
        names = ('_fragments', '_morgan_hash_dict', '_atom_identifiers', '_chains', 'linear_hash_set', 'morgan_hash_set', 'linear_hash_smiles')
        fail('results-not-shared', '', f'emptying the returned containers changes later results of {[n for n, a, b in zip(names, before, after) if a != b]}')

    # call sequence: documented edits of an already fingerprinted molecule; afterwards the fingerprints are those of a freshly built equal one ---
    edit_aborted = None
    if edits and view.kind == 'mol':
        c = m.copy()
        for f in (c.linear_hash_set, c.morgan_hash_set, c.linear_fingerprint, c.morgan_fingerprint, c.linear_hash_smiles, lambda: c._fragments(1, 6),
                  lambda: c._morgan_hash_dict(1, 6)):
            f()
        log = []

        def same(step):
            nonlocal nev
            nev += 1
            log.append(step)
            f = D.rebuild(c, keep_stereo=False)
            for name, args in (('linear_hash_set', (1, 4, 0)), ('morgan_hash_set', (1, 4)), ('linear_bit_set', ()), ('morgan_bit_set', ()),
                               ('linear_hash_set', (2, 6, 2)), ('morgan_hash_set', (3, 6))):
                try:
                    got = getattr(c, name)(*args)
                except Exception as e:
                    if not _library_frame(e):
                        raise
                    fail('after-edit=fresh', f'{name}{args}', f'after the edit sequence {log} of a molecule whose fingerprints had been computed, '
                         f'{name} raises {type(e).__name__}: {e}', {'edits': list(log)})
                    return
                if got != getattr(f, name)(*args):
                    fail('after-edit=fresh', f'{name}{args}', f'after the edit sequence {log} of a molecule whose fingerprints had been computed, '
                         f'{name} differs from the same call on a freshly built copy of the edited molecule', {'edits': list(log)})
                    return

        # library transformations that flush the cache only partially (keep_sssr / keep_components) come first
        for name in ('kekule', 'explicify_hydrogens', 'implicify_hydrogens', 'thiele', 'neutralize'):
            try:
                getattr(c, name)()
            except Exception as e:      # the transformation itself is outside C17: stop, count it
                edit_aborted = f'{name}: {type(e).__name__}: {e}'
                break
            same([name])
        atoms = list(c)
        st = {}

        def s_add_atom():
            st['new'] = c.add_atom(r.choice(('C', 'N', 'O', 'Cl')))
            return ['add_atom', st['new']]

        def s_add_bond():
            st['a'] = r.choice(atoms)
            c.add_bond(st['a'], st['new'], 1)
            return ['add_bond', st['a'], st['new'], 1]

        def s_charge():
            x = r.choice(atoms)
            c.atom(x).charge = 1 if c.atom(x).charge != 1 else 0
            c.flush_cache()
            return ['atom(x).charge=; flush_cache', x, c.atom(x).charge]

        def s_radical():
            x = r.choice(atoms)
            c.atom(x).is_radical = not c.atom(x).is_radical
            c.flush_cache()
            return ['atom(x).is_radical=; flush_cache', x]

        def s_isotope():
            y = r.choice(atoms)
            iso = sorted(c.atom(y).isotopes_distribution)[-1]
            c.atom(y).isotope = iso
            c.flush_cache()
            return ['atom(y).isotope=; flush_cache', y, iso]

        def s_del_new_bond():
            c.delete_bond(st['a'], st['new'])
            return ['delete_bond', st['a'], st['new']]

        def s_del_bond():
            bl = [(p, q) for p, q, _ in c.bonds()]
            if not bl:
                return None
            p, q = r.choice(bl)
            c.delete_bond(p, q)
            return ['delete_bond', p, q]

        def s_del_new():
            c.delete_atom(st['new'])
            return ['delete_atom', st['new']]

        def s_del_atom():
            z = r.choice(atoms)
            c.delete_atom(z)
            return ['delete_atom', z]

        steps = [s_add_atom] + ([s_add_bond, s_charge, s_radical, s_isotope, s_del_new_bond, s_del_bond] if atoms else []) + [s_del_new] + \
            ([s_del_atom] if len(atoms) > 1 else [])
        for step in steps:
            try:
                done = step()
            except Exception as e:      # the editing API itself is outside C17: stop the sequence, count it
                edit_aborted = (edit_aborted + '; ' if edit_aborted else '') + f'{step.__name__}: {type(e).__name__}: {e}'
                break
            if done is not None:
                same(done)
    idmap = {}
    for n, k in akeys.items():
        idmap.setdefault(k, ids[n])
    info = {'idmap': [[list(k), v] for k, v in idmap.items()], 'atoms': len(adj), 'simple_paths<=6': sum(len(v) for v in paths.values()), 'max_fragment_multiplicity': max_mult,
            'distinct_identifiers_radius6': len(set(levels[-1].values())), 'hash_smiles_values_differ': smiles_values_differ, 'edit_aborted': edit_aborted}
    return fails, nev, info


# ---------------------------------------------------------------------------------------------------------------------------------
def _build_item(item):
    """returns (name, molecule or CGR, witness dict, options for check_molecule)"""
    import networkx as nx
    from bounded import domains as D
    kind = item[0]
    if kind == 'smiles':
        return 'smi:' + item[1], D.parse(item[1]), {'smiles': item[1], 'normalised': 'kekule+thiele'}, {}
    if kind in ('special', 'special-raw'):      # hand-written input classes; -raw: as parsed (Kekule rings stay Kekule, no thiele)
        return f'{kind}:{item[1]}', D.parse(item[1], normalise=kind == 'special'), {'item': list(item)}, {}
    if kind == 'empty':
        from chython.containers import MoleculeContainer
        return 'empty', MoleculeContainer(), {'item': list(item)}, {}
    if kind == 'grid':
        from bounded import d17_extra as E
        return 'grid', E.atom_grid()[0], {'item': list(item), 'builder': 'bounded.d17_extra.atom_grid'}, {}
    if kind == 'cgr':
        from bounded import d17_extra as E
        from oracles import o17_extra as X
        _, smi, k = item[:3]
        m = D.parse(smi)
        p, edits = E.cgr_pair(m, D.rnd(f'b17:cgr:{smi}/{k}'))
        cgr = m ^ p

        def make_variant(v, r):
            if v % 2 == 0:
                nums = list(cgr._atoms)
                off = r.choice((0, 5, 1000))
                tgt = [x + off for x in nums]
                r.shuffle(tgt)
                mp = dict(zip(nums, tgt))
                a, b = m.copy(), p.copy()
                a.remap({x: y for x, y in mp.items() if x in a._atoms})
                b.remap({x: y for x, y in mp.items() if x in b._atoms})
                return a ^ b, mp, {'renumber both molecules, compose again': {str(x): y for x, y in mp.items()}}
            return D.rebuild(m, r, keep_stereo=False) ^ D.rebuild(p, r, keep_stereo=False), {n: n for n in cgr._atoms}, \
                {'rebuild': 'both molecules rebuilt with shuffled insertion order of atoms and bonds, composed again'}
        return f'cgr:{smi}/{k}', cgr, {'item': list(item), 'cgr': 'parse(smiles) ^ partner', 'partner_edits': edits, 'cgr_smiles': str(cgr)}, \
            {'view': X.CGRView, 'make_variant': make_variant, 'det_variant': False, 'edits': False}
    _, name, nodes, edges, el, od, marks, _tier = item
    g = nx.Graph()
    g.add_nodes_from(nodes)
    g.add_edges_from(edges)
    m = D.build(g, {v: el[v] for v in nodes}, {frozenset(e): o for e, o in od})
    for v, (iso, chg, rad) in marks.items():
        a = m._atoms[nodes.index(v) + 1]
        a._isotope, a._charge, a._is_radical = iso, chg, rad
    m.flush_cache()
    return name, m, {'graph': name, 'elements': el, 'bonds': [[a, b, o] for (a, b), o in od], 'atom_marks(isotope,charge,radical)': marks}, {}


def _library_frame(e):
    """True when the exception was raised inside the tree under verification (innermost frame), not in the checker"""
    import os
    tb = e.__traceback__
    while tb.tb_next is not None:
        tb = tb.tb_next
    return os.path.realpath(tb.tb_frame.f_code.co_filename).startswith(os.path.realpath(env.REPO) + os.sep)


def _work(item):
    import signal
    from bounded import domains as D

    def on_alarm(sig, frame):
        raise _Watchdog()
    if _TIMEOUTS[0] >= 5:
        return 0, [], [], [], {'timeout': [str(item[1])[:200] + ' (skipped after five timeouts in this worker)']}
    old = signal.signal(signal.SIGALRM, on_alarm)
    signal.alarm(ITEM_BUDGET_S if not _TIMEOUTS[0] else 10)
    try:
        try:
            name, m, wit, opts = _build_item(item)
        except Exception as e:      # parser / builder failure: other properties; skipped and counted
            return 0, [], [], [], {'skipped': [f'{item[1] if len(item) > 1 else item[0]}: {type(e).__name__}: {e}']}
        r = D.rnd('b17:' + name)
        try:
            fails, nev, info = check_molecule(m, r, full_caps=True, n_variants=4 if item[0] == 'atlas' or item[-1] is True else 2, **opts)
        except Exception as e:
            if not _library_frame(e):
                raise
            import traceback
            fr = traceback.extract_tb(e.__traceback__)[-1]
            fails, nev, info = [('raises', f'{fr.name}', f'a fingerprint call raised {type(e).__name__}: {e} at {fr.filename.rsplit("/", 1)[-1]}:{fr.lineno} '
                                 f'(the property holds for all molecules)', traceback.format_exc()[-1500:])], 1, {}
        viols = [(f'{c}:{name}:{params}', f'{c}: {what} [{name} {params}]', {'contract': c, 'params': params, **wit}, nat)
                 for c, params, what, nat in fails]
        keys = [name] if any(True for _ in m.bonds()) else []
        return nev, keys, [{'molecule': name, **info}], viols, {}
    except _Watchdog:
        _TIMEOUTS[0] += 1
        return 0, [], [], [], {'timeout': [str(item[1])[:200]]}
    finally:
        signal.alarm(0)
        signal.signal(signal.SIGALRM, old)


def bounded(run):
    env.setup()
    from bounded import domains as D
    thorough = run.tier == 'thorough'
    n_cor = 1500 if thorough else 150
    items = [('smiles', s, thorough) for s in D.corpus_sample(n_cor, 'b17:corpus')]
    r = D.rnd('b17:marks')
    n_at = 0
    for g, el, od, m in D.decorated_atlas(6, trials=4 if thorough else 3, tag='b17:atlas'):
        nodes = list(g.nodes)
        edges = [tuple(e) for e in g.edges]
        odl = [(tuple(sorted(k)), v) for k, v in od.items()]
        marks = {}
        t = n_at % 3
        if t == 1 and nodes:            # isotope / charge / radical labels: the identifiers must see them
            for v in r.sample(nodes, min(len(nodes), r.randint(1, 2))):
                marks[v] = r.choice(((13, 0, False), (None, 1, False), (None, -1, False), (None, 0, True), (14, 1, False)) if el[v] == 'C'
                                    else ((None, 1, False), (None, -1, False), (None, 0, True)))
        elif t == 2 and odl:            # a coordinate bond: fragments and neighbourhoods walk every bond
            i = r.randrange(len(odl))
            odl[i] = (odl[i][0], 8)
        items.append(('atlas', f'{g.name}/{n_at}', nodes, edges, dict(el), odl, marks, thorough))
        n_at += 1
    from bounded import d17_extra as E
    n_sp = 0
    for sm in E.SPECIAL_SMILES:
        items.append(('special', sm, thorough))
        n_sp += 1
        if any(ch in sm for ch in 'cnos=') or '[se]' in sm:      # as parsed: Kekule rings stay Kekule, aromatic atoms without H information
            items.append(('special-raw', sm, thorough))
            n_sp += 1
    items += [('empty', thorough), ('grid', thorough)]
    n_cgr = 0
    for sm in D.corpus_sample(400 if thorough else 40, 'b17:cgr') + E.SPECIAL_SMILES[::4]:
        for k in range(2 if thorough else 1):
            items.append(('cgr', sm, k, thorough))
            n_cgr += 1
    run.bound(f'input classes outside the corpus: {n_sp} hand-written molecules (bounded/d17_extra.SPECIAL_SMILES: multi-component salts, isotope labels '
              f'also on heteroatoms, explicit hydrogens, radicals, multiply charged atoms, metals, symmetric / cage / spiro / long-chain / macrocycle '
              f'skeletons; also as parsed without kekule+thiele where that differs); the empty molecule; one bond-free molecule of 200+ pairwise different '
              f'atom types (every element 1..118; H, C, N, O, Fe in every charge -4..4; isotope x charge x radical combinations) = injectivity of '
              f'the identifiers on that table; {n_cgr} CGRContainers (corpus / special molecule ^ partner with 1-3 seeded bond-order, cleavage, formation, '
              f'charge, radical, lost-atom edits) under the same contracts with FingerprintsCGR identifiers (key: isotope, element, charge, product '
              f'charge, radical, product radical) and dynamic bonds as hash((order|0, product order|0))')
    run.bound(f'additional calls per molecule: every documented default (call without arguments = (1, 4, 1024, 2, 4)) of the 10 public functions; one '
              f'seeded all-keyword call of 7 functions; lengths {EXT_LENGTHS} x active bits 1..4 for both bit sets + one array per length <= 2^16; '
              f'linear_hash_smiles + linear_smiles_hash for (1,4) x every cap + 2 seeded (keys, inverse relation, each SMILES read back by an '
              f'independent token reader as a path of the fragment for cap 4/None); morgan_hash_smiles + morgan_smiles_hash for (1,4) (<= 30 atoms) + '
              f'1 seeded radii pair (keys, inverse, atom multiset of the r-1 bond neighbourhood); one aliasing round (returned containers emptied); '
              f'one edit sequence on a fingerprinted copy (kekule, explicify_hydrogens, implicify_hydrogens, thiele, neutralize, add_atom, add_bond, charge / radical / isotope setters + flush_cache, delete_bond x2, '
              f'delete_atom x2; after each step 6 calls equal those of a fresh rebuild); one deterministic numbering variant (descending, gaps of 7, '
              f'numbers > 999, reversed insertion order) besides the seeded ones; atom identifiers of equal atom types equal across all molecules of the run')
    run.bound(f'molecules: seeded sample of {n_cor} corpus SMILES (kekule+thiele normal form) + {n_at} decorations of every connected atlas graph '
              f'<= 6 atoms (elements C/N/O/S, bond orders 1-3, every third with isotope/charge/radical labels, every third with a coordinate bond)')
    run.bound(f'parameter grid per molecule: all {len(RADII)} (min, max) radii pairs in 1..6 for _chains, _fragments, _morgan_hash_dict, morgan_hash_set; '
              f'x number_bit_pairs {CAPS} + None for linear_hash_set; every length 2^5..2^12 x active bits 1..4 for linear_bit_set and morgan_bit_set '
              f'with seeded radii / cap; 6 seeded + 2 default fingerprint arrays; 2 seeded linear_hash_smiles')
    run.bound('numbering: corpus molecules 1 renumbering (copy + remap, optionally shifted numbers) + 1 rebuild with shuffled insertion order '
              '(thorough: 2 + 2; atlas decorations always 2 + 2); all radii pairs for fragments / Morgan, seeded caps, 10 seeded bit sets and arrays each')
    run.assume('oracle: oracles/paths.simple_paths enumerates every simple path once up to reversal',
               'oracle: oracles/o17_ref.py (descriptor = (identifier, bond order, identifier, ...) read in a direction-free class; count-capped hashing '
               'hash((*key, i)), i < min(c, cap), cap 0/None = unlimited; Morgan radius r+1 = hash((own, order1, id1, order2, id2, ...)) over '
               'neighbours sorted by (order, id); folding = the number_active_bits lowest log2(length)-bit windows of the hash)',
               'atom identifiers are taken from the library and required to be a function of (isotope, element, charge, radical) only and '
               'injective on the attribute tuples that occur',
               'CGRContainer inputs: identifiers may depend on (isotope, element, charge, product charge, radical, product radical); a dynamic bond '
               'enters descriptors as hash((order or 0, product order or 0)) (DynamicBond.__int__, outside the C17 anchors, recomputed by the oracle)',
               'oracle: oracles/o17_extra.py token reader of linear / branched SMILES (isotope, element symbol case-insensitive, charge, bond symbol; '
               'hydrogen counts, stereo marks, ring-closure digits and the CXSMILES radical list are skipped); Graph.substructure / __format__ used by '
               'morgan_hash_smiles are outside the C17 anchors (C01/C02)',
               'after-edit contract: domains.rebuild(copy) is a fresh container without memoised values',
               'Python hash() of int tuples is deterministic (no string hashing involved)',
               'fragments and neighbourhoods walk every bond of the bond table, coordinate bonds included (as the code does)')
    order = sorted(range(len(items)), key=lambda i: -(len(items[i][1]) if items[i][0] in ('smiles', 'cgr', 'special', 'special-raw') else 300 if items[i][0] == 'grid' else 10))
    res = pmap(_work, [items[i] for i in order], chunksize=2)
    reported, suppressed = Counter(), Counter()
    skipped, timeouts = [], []
    obs = {'molecules': 0, 'differ': 0, 'examples': []}
    shown = Counter()
    idtab, aborted = {}, []
    for i, (n, keys, samples, viols, extra) in zip(order, res):
        kind = items[i][0]
        sample = None
        for sm in samples:
            for k, v in sm.pop('idmap', ()):      # identifiers are a function of the atom type across the whole run
                k = tuple(k)
                if idtab.setdefault(k, (v, sm['molecule']))[0] != v:
                    viols = viols + [(f'atom-identifiers-structure-only:global:{k}', f'atom-identifiers-structure-only: atoms of type {k} (isotope, '
                                      f'element, charge[, product charge], radical[, product radical]) have identifier {idtab[k][0]} in {idtab[k][1]} and '
                                      f'{v} in {sm["molecule"]}', {'contract': 'atom-identifiers-structure-only', 'molecules': [idtab[k][1], sm['molecule']]}, None)]
            if sm.get('edit_aborted'):
                aborted.append(f"{sm['molecule']}: {sm['edit_aborted']}")
        if samples and shown[kind] < 3 and samples[0].get('atoms', 0) > 2:
            shown[kind] += 1
            sample = samples[0]
        run.case(n, sample=sample)
        for k in keys:
            run.case(0, key=k)
        for key, what, wit, nat in viols:
            c = key.split(':', 1)[0]
            if (run.pid, key) not in run.known and reported[c] >= MAX_REPORT:
                suppressed[c] += 1
                continue
            if run.violation(key, what, witness=wit, native=nat) == 'new':
                reported[c] += 1
        for sm in samples:
            obs['molecules'] += 1
            obs['differ'] += bool(sm.get('hash_smiles_values_differ'))
            if sm.get('hash_smiles_values_differ') and len(obs['examples']) < 3:
                obs['examples'].append(sm['molecule'])
        skipped += extra.get('skipped', [])
        timeouts += extra.get('timeout', [])
    run.notes['observation_linear_hash_smiles_values'] = {
        'enforced': ENFORCE_HASH_SMILES_VALUES, 'molecules': obs['molecules'], 'representative_smiles_change_under_renumbering': obs['differ'],
        'examples': obs['examples'], 'why': 'linear_hash_smiles keeps the SMILES of chains[0] only; the first chain of a fragment depends on set order'}
    print(f"C17 bounded: observation (not enforced): linear_hash_smiles representative SMILES change under renumbering for "
          f"{obs['differ']} of {obs['molecules']} molecules", flush=True)
    if aborted:
        run.notes['edit_sequences_stopped_by_the_editing_api'] = {'count': len(aborted), 'examples': aborted[:5], 'why': 'the transformation / editing call itself raised (outside C17); the other steps of the sequence were still checked'}
    if suppressed:
        run.notes['violations_not_listed'] = {'why': f'more than {MAX_REPORT} new violations of the same contract', 'per_contract': dict(suppressed)}
        print(f'C17 bounded: further violations not listed (same contracts): {dict(suppressed)}', flush=True)
    if timeouts:
        run.notes['timeouts'] = {'budget_s': ITEM_BUDGET_S, 'count': len(timeouts), 'items': timeouts[:10]}
        if not run.violations:
            raise RuntimeError(f'{len(timeouts)} work items timed out (never mapped to a violation), e.g. {timeouts[0]}')
    if skipped:
        run.notes['skipped_inputs'] = {'count': len(skipped), 'examples': skipped[:5], 'why': 'the library raised while building the molecule (outside C17)'}
        if len(skipped) > len(items) // 10 and not run.violations:
            raise RuntimeError(f'{len(skipped)} of {len(items)} molecules could not be built, e.g. {skipped[0]}')


def replay(rec):
    """rebuild the witness and re-evaluate the named contract natively; True if it now holds"""
    env.setup()
    from bounded import domains as D
    w = rec.get('witness') or {}
    if 'item' in w:
        item = tuple(w['item'][:-1]) + (True,)
    elif 'smiles' in w:
        item = ('smiles', w['smiles'], True)
    elif 'graph' in w:
        bonds = [((a, b), o) for a, b, o in w['bonds']]
        nodes = sorted({int(k) for k in w['elements']})
        item = ('atlas', w['graph'], nodes, [e for e, _ in bonds], {int(k): v for k, v in w['elements'].items()}, bonds,
                {int(k): tuple(v) for k, v in (w.get('atom_marks(isotope,charge,radical)') or {}).items()}, True)
    else:
        return False
    name, m, _, opts = _build_item(item)
    try:
        fails, _, _ = check_molecule(m, D.rnd('b17:' + name), full_caps=True, n_variants=4 if item[0] == 'atlas' or item[-1] is True else 2, **opts)
    except Exception as e:
        if not _library_frame(e):
            raise
        fails = [('raises', '', f'{type(e).__name__}: {e}', None)]
    print('native:', [(c, p, what) for c, p, what, _ in fails])
    c = w.get('contract')
    return not any(f[0] == c for f in fails) if c else not fails
