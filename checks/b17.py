"""C17 bounded stand-in (engine B): fingerprints are structure functions with the documented fragment semantics.

The real `_chains`, `_fragments`, `linear_hash_set`, `linear_hash_smiles`, `linear_bit_set`, `linear_fingerprint`, `_atom_identifiers`,
`_morgan_hash_dict`, `morgan_hash_set`, `morgan_bit_set`, `morgan_fingerprint` are called on every molecule of the domain over the
parameter grid and compared with the reference semantics of oracles/o17_ref.py (shared simple-path enumerator, independent
neighbourhood hasher, independent folding) and with themselves under renumbering and insertion-order shuffles.  Never counted as proof.
"""
from collections import Counter

from vlib import env
from vlib.report import pmap

RULE = ('bounded: every C17 contract evaluated natively per molecule over the stated parameter grid; non-trivial = the molecule has at '
        'least one bond (paths longer than one atom, neighbourhoods of radius > 1) - keyed by its canonical SMILES / decoration')

RADII = [(lo, hi) for lo in range(1, 7) for hi in range(lo, 7)]          # 21 (min, max) pairs, radii 1-6
LENGTHS = [1 << k for k in range(5, 13)]                                  # 2^5 .. 2^12
NABS = [1, 2, 3, 4]
CAPS = [0, 1, 2, 3, 4, 5]                                                 # number_bit_pairs 0-5 (0 = unlimited)
MAX_REPORT = 25
# linear_hash_smiles lists, per hash, the SMILES of ONE arbitrary chain of the fragment (chains[0]); which chain is first depends on set
# iteration order, hence on atom numbering (e.g. 'n' vs 'N' for Nc1ccc2ccccc2n1).  The property text names fingerprints, hash sets and
# fragment dictionaries; the keys of linear_hash_smiles are enforced, the representative strings are only counted (run.notes) unless
# the coordinator switches this on.
ENFORCE_HASH_SMILES_VALUES = False
ITEM_BUDGET_S = 120   # watchdog per molecule (normal: < 3 s); after a first timeout in a worker: 10 s, after five: skip
_TIMEOUTS = [0]


class _Watchdog(BaseException):
    pass


# ---------------------------------------------------------------------------------------------------------------------------------
def _params(tag, lo, hi, *rest):
    return f'{tag}({lo},{hi}' + ''.join(f',{x}' for x in rest) + ')'


def check_molecule(m, r, full_caps=True, n_variants=2):
    """all C17 contracts on one molecule; returns (failures [(contract, params, what, native)], evaluations, info)"""
    import numpy as np
    from bounded import domains as D
    from oracles import o17_ref as R
    fails, seen = [], set()
    nev = 0

    def fail(contract, params, what, native=None):
        if contract not in seen:      # first failing parameter set per contract and molecule
            seen.add(contract)
            fails.append((contract, params, what, native))

    adj = R.adjacency(m)
    ids = m._atom_identifiers
    # identifiers: a function of (isotope, element, charge, radical) only, and distinct for distinct attribute tuples -----------------------
    akeys = {n: R.atom_key(a) for n, a in m.atoms()}
    by_key, by_id = {}, {}
    for n in akeys:
        by_key.setdefault(akeys[n], set()).add(ids[n])
        by_id.setdefault(ids[n], set()).add(akeys[n])
    nev += 1
    if set(ids) != set(akeys) or any(len(v) > 1 for v in by_key.values()):
        fail('atom-identifiers-structure-only', '', 'atoms with equal isotope/element/charge/radical have different identifiers',
             {str(k): sorted(v) for k, v in by_key.items() if len(v) > 1})
    if any(len(v) > 1 for v in by_id.values()):
        fail('atom-identifiers-distinguish', '', 'atoms with different isotope/element/charge/radical share an identifier',
             {str(k): sorted(v) for k, v in by_id.items() if len(v) > 1})

    paths = R.paths_by_length(adj, 6)
    levels = R.morgan_levels(adj, ids, 6)
    lin_hashes = {}      # (lo, hi, cap) -> reference hash set
    frag_tables = {}     # (lo, hi) -> {library key: count}
    max_mult = 0
    for lo, hi in RADII:
        P = set()
        for L in range(lo, hi + 1):
            P |= paths.get(L, set())
        # _chains = the simple paths with lo <= #atoms <= hi, each once up to reversal --------------------------------------------------------
        ch = m._chains(lo, hi)
        nev += 1
        norm = Counter(min(t, t[::-1]) for t in map(tuple, ch))
        if set(norm) != P or len(ch) != len(P) or any(v > 1 for v in norm.values()):
            extra, missing = sorted(set(norm) - P)[:3], sorted(P - set(norm))[:3]
            fail('chains=simple-paths', _params('_chains', lo, hi),
                 f'_chains returns {len(ch)} chains, the path oracle {len(P)}; not paths {extra}, missing {missing}, '
                 f'repeated {[k for k, v in norm.items() if v > 1][:3]}', {'n': len(ch), 'oracle': len(P)})
        # _fragments: keys = one canonical reading of (id, order, id, ...), multiplicity = number of such paths --------------------------------
        fr = m._fragments(lo, hi)
        nev += 1
        ref = R.fragment_counter(P, adj, ids)
        lib = Counter()
        ok = True
        stored = Counter()
        for k, chains in fr.items():
            lib[R.klass(tuple(k))] += len(chains)
            for c in chains:
                c = tuple(c)
                stored[min(c, c[::-1])] += 1
                if R.descriptor(c, adj, ids) != tuple(k):
                    ok = False
        if len({R.klass(tuple(k)) for k in fr}) != len(fr):
            fail('fragments-canonical-direction', _params('_fragments', lo, hi), 'a fragment is stored under both reading directions')
        if lib != ref:
            d = [(k, lib.get(k), ref.get(k)) for k in set(lib) | set(ref) if lib.get(k) != ref.get(k)][:3]
            fail('fragments=path-multiset', _params('_fragments', lo, hi),
                 f'fragment multiplicities differ from the path oracle: (descriptor, library, oracle) {d}', {'n_keys': len(fr), 'oracle': len(ref)})
        if not ok or stored != Counter(P):
            fail('fragments-chains', _params('_fragments', lo, hi), 'the chains listed under a key do not spell the key or are not exactly the simple paths')
        table = {tuple(k): ref.get(R.klass(tuple(k)), 0) for k in fr}
        frag_tables[lo, hi] = table
        max_mult = max([max_mult, *table.values()])
        # linear_hash_set: count semantics ----------------------------------------------------------------------------------------------------
        caps = CAPS + [None] if full_caps or (lo, hi) in ((1, 4), (1, 6), (2, 5)) else [r.choice(CAPS), r.choice(CAPS + [None])]
        for cap in caps:
            hs = m.linear_hash_set(lo, hi, cap)
            nev += 1
            exp = R.linear_hashes(table.items(), cap)
            lin_hashes[lo, hi, cap] = exp
            if hs != exp:
                fail('linear_hash_set-count-cap', _params('linear_hash_set', lo, hi, cap),
                     f'{len(hs)} hashes, reference (fragment with c occurrences -> counts 0..min(c, cap)-1; cap 0/None = all) gives {len(exp)}; '
                     f'extra {len(hs - exp)}, missing {len(exp - hs)}', {'n': len(hs), 'expected': len(exp)})
        # morgan ------------------------------------------------------------------------------------------------------------------------------
        md = m._morgan_hash_dict(lo, hi)
        nev += 1
        if [dict(x) for x in md] != levels[lo - 1:hi]:
            bad = [i + lo for i, (a, b) in enumerate(zip(md, levels[lo - 1:hi])) if dict(a) != b]
            fail('morgan=iterated-neighbourhood-hash', _params('_morgan_hash_dict', lo, hi),
                 f'{len(md)} radii returned for {hi - lo + 1} requested; radii that differ from the independent hasher: {bad}')
        ms = m.morgan_hash_set(lo, hi)
        nev += 1
        if ms != {x for lv in levels[lo - 1:hi] for x in lv.values()}:
            fail('morgan_hash_set', _params('morgan_hash_set', lo, hi), 'not the set of identifiers of the requested radii')

    # linear_hash_smiles: same hashes ---------------------------------------------------------------------------------------------------------
    for _ in range(2):
        lo, hi = r.choice(RADII)
        cap = r.choice(CAPS)
        try:
            d = m.linear_hash_smiles(lo, hi, cap)
        except Exception as e:
            fail('linear_hash_smiles-raises', _params('linear_hash_smiles', lo, hi, cap), f'{type(e).__name__}: {e}')
            continue
        nev += 1
        if set(d) != lin_hashes.get((lo, hi, cap), m.linear_hash_set(lo, hi, cap)) or \
                not all(isinstance(v, list) and v and all(isinstance(s, str) for s in v) for v in d.values()):
            fail('linear_hash_smiles-keys', _params('linear_hash_smiles', lo, hi, cap), 'keys are not the hash set / values not SMILES lists')

    # folding: every (length, active bits) of the grid with seeded radii / cap --------------------------------------------------------------------
    bit_calls = []
    for length in LENGTHS:
        for nab in NABS:
            lo, hi = r.choice(RADII)
            cap = r.choice([c for c in CAPS + [None] if (lo, hi, c) in lin_hashes])
            hs = lin_hashes[lo, hi, cap]
            bs = m.linear_bit_set(lo, hi, length, nab, cap)
            nev += 1
            bit_calls.append(('l', lo, hi, length, nab, cap))
            if any(not isinstance(x, int) or not 0 <= x < length for x in bs):
                fail('bit-index-range', _params('linear_bit_set', lo, hi, length, nab, cap), f'index outside 0..{length - 1}: {sorted(bs)[:3]}..{sorted(bs)[-3:]}')
            elif bs != R.fold(hs, length, nab) or len(bs) > nab * len(hs):
                fail('bits-follow-active-bits', _params('linear_bit_set', lo, hi, length, nab, cap),
                     f'bit set differs from the {nab} lowest {length.bit_length() - 1}-bit windows of each hash: {len(bs)} bits, expected '
                     f'{len(R.fold(hs, length, nab))} from {len(hs)} hashes')
            lo, hi = r.choice(RADII)
            ms = {x for lv in levels[lo - 1:hi] for x in lv.values()}
            bs = m.morgan_bit_set(lo, hi, length, nab)
            nev += 1
            bit_calls.append(('m', lo, hi, length, nab))
            if any(not isinstance(x, int) or not 0 <= x < length for x in bs):
                fail('bit-index-range', _params('morgan_bit_set', lo, hi, length, nab), f'index outside 0..{length - 1}')
            elif bs != R.fold(ms, length, nab) or len(bs) > nab * len(ms):
                fail('bits-follow-active-bits', _params('morgan_bit_set', lo, hi, length, nab),
                     f'bit set differs from the {nab} lowest {length.bit_length() - 1}-bit windows of each hash: {len(bs)} bits, expected '
                     f'{len(R.fold(ms, length, nab))} from {len(ms)} hashes')
    # arrays ------------------------------------------------------------------------------------------------------------------------------------
    arr_calls = r.sample(bit_calls, 6)
    for call in arr_calls:
        if call[0] == 'l':
            _, lo, hi, length, nab, cap = call
            arr, bs = m.linear_fingerprint(lo, hi, length, nab, cap), m.linear_bit_set(lo, hi, length, nab, cap)
        else:
            _, lo, hi, length, nab = call
            arr, bs = m.morgan_fingerprint(lo, hi, length, nab), m.morgan_bit_set(lo, hi, length, nab)
        nev += 1
        if len(arr) != length or {int(i) for i in np.flatnonzero(arr)} != set(bs) or any(int(x) not in (0, 1) for x in arr):
            fail('fingerprint-array', _params('linear_fingerprint' if call[0] == 'l' else 'morgan_fingerprint', *call[1:]),
                 f'array of length {len(arr)} for requested {length}, or ones not exactly at the bit set')
    for name in ('linear_fingerprint', 'morgan_fingerprint'):
        a = getattr(m, name)()
        nev += 1
        if len(a) != 1024 or {int(i) for i in np.flatnonzero(a)} != set(getattr(m, name.replace('fingerprint', 'bit_set'))()):
            fail('fingerprint-array', name + '()', 'default call: length is not 1024 or ones not at the default bit set')

    # numbering and insertion order ---------------------------------------------------------------------------------------------------------
    smiles_values_differ = False
    try:
        ref_smiles = {k: sorted(x) for k, x in m.linear_hash_smiles(1, 4, 4).items()}
    except Exception:
        ref_smiles = None
    for v in range(n_variants):
        if v % 2 == 0:
            c, mp = D.renumber(m, r, offset=r.choice((0, 0, 5, 1000)))
            how = {'renumber': {str(k): x for k, x in mp.items()}}
        else:
            c = D.rebuild(m, r)
            mp = {n: n for n in m}
            how = {'rebuild': 'shuffled insertion order of atoms and bonds'}
        for lo, hi in RADII:
            fr = {tuple(k): len(x) for k, x in c._fragments(lo, hi).items()}
            nev += 1
            if fr != frag_tables[lo, hi]:
                fail('renumbering:fragments', _params('_fragments', lo, hi), 'fragment dictionary (keys with multiplicities) changes under ' + next(iter(how)), how)
            md = c._morgan_hash_dict(lo, hi)
            nev += 1
            if [{n: lv[mp[n]] for n in mp} for lv in md] != levels[lo - 1:hi]:
                fail('renumbering:morgan', _params('_morgan_hash_dict', lo, hi), 'per-atom Morgan identifiers change under ' + next(iter(how)), how)
            for cap in (r.choice(CAPS), None):
                nev += 1
                if (lo, hi, cap) in lin_hashes and c.linear_hash_set(lo, hi, cap) != lin_hashes[lo, hi, cap]:
                    fail('renumbering:linear_hash_set', _params('linear_hash_set', lo, hi, cap), 'hash set changes under ' + next(iter(how)), how)
            nev += 1
            if c.morgan_hash_set(lo, hi) != {x for lv in levels[lo - 1:hi] for x in lv.values()}:
                fail('renumbering:morgan_hash_set', _params('morgan_hash_set', lo, hi), 'hash set changes under ' + next(iter(how)), how)
        if ref_smiles is not None:
            try:
                got = {k: sorted(x) for k, x in c.linear_hash_smiles(1, 4, 4).items()}
                if set(got) != set(ref_smiles):
                    fail('renumbering:linear_hash_smiles-keys', 'linear_hash_smiles(1,4,4)', 'hash keys change under ' + next(iter(how)), how)
                elif got != ref_smiles:      # observation only, see ENFORCE_HASH_SMILES_VALUES
                    smiles_values_differ = True
                    if ENFORCE_HASH_SMILES_VALUES:
                        d = [(k, ref_smiles[k], got[k]) for k in got if got[k] != ref_smiles[k]][:3]
                        fail('renumbering:linear_hash_smiles-values', 'linear_hash_smiles(1,4,4)',
                             f'representative fragment SMILES of a hash change under {next(iter(how))}: {d}', how)
            except Exception as e:
                fail('linear_hash_smiles-raises', 'linear_hash_smiles(1,4,4)', f'{type(e).__name__}: {e} after ' + next(iter(how)), how)
        for call in r.sample(bit_calls, 10):
            nev += 1
            if call[0] == 'l':
                _, lo, hi, length, nab, cap = call
                same = c.linear_bit_set(lo, hi, length, nab, cap) == m.linear_bit_set(lo, hi, length, nab, cap) and \
                    (c.linear_fingerprint(lo, hi, length, nab, cap) == m.linear_fingerprint(lo, hi, length, nab, cap)).all()
            else:
                _, lo, hi, length, nab = call
                same = c.morgan_bit_set(lo, hi, length, nab) == m.morgan_bit_set(lo, hi, length, nab) and \
                    (c.morgan_fingerprint(lo, hi, length, nab) == m.morgan_fingerprint(lo, hi, length, nab)).all()
            if not same:
                fail('renumbering:fingerprint', _params('bit_set/fingerprint', *call[1:]), 'bit set / array changes under ' + next(iter(how)), how)
    info = {'atoms': len(adj), 'simple_paths<=6': sum(len(v) for v in paths.values()), 'max_fragment_multiplicity': max_mult,
            'distinct_identifiers_radius6': len(set(levels[-1].values())), 'hash_smiles_values_differ': smiles_values_differ}
    return fails, nev, info


# ---------------------------------------------------------------------------------------------------------------------------------
def _build_item(item):
    """returns (name, molecule, witness dict)"""
    import networkx as nx
    from bounded import domains as D
    if item[0] == 'smiles':
        return 'smi:' + item[1], D.parse(item[1]), {'smiles': item[1], 'normalised': 'kekule+thiele'}
    _, name, nodes, edges, el, od, marks, _tier = item
    g = nx.Graph()
    g.add_nodes_from(nodes)
    g.add_edges_from(edges)
    m = D.build(g, {v: el[v] for v in nodes}, {frozenset(e): o for e, o in od})
    for v, (iso, chg, rad) in marks.items():
        a = m._atoms[nodes.index(v) + 1]
        a._isotope, a._charge, a._is_radical = iso, chg, rad
    m.flush_cache()
    return name, m, {'graph': name, 'elements': el, 'bonds': [[a, b, o] for (a, b), o in od], 'atom_marks(isotope,charge,radical)': marks}


def _work(item):
    import signal
    from bounded import domains as D

    def on_alarm(sig, frame):
        raise _Watchdog()
    if _TIMEOUTS[0] >= 5:
        return 0, [], [], [], {'timeout': [str(item[1])[:200] + ' (skipped after five timeouts in this worker)']}
    old = signal.signal(signal.SIGALRM, on_alarm)
    signal.alarm(ITEM_BUDGET_S if not _TIMEOUTS[0] else 10)
    try:
        try:
            name, m, wit = _build_item(item)
        except Exception as e:      # parser / builder failure: other properties; skipped and counted
            return 0, [], [], [], {'skipped': [f'{item[1]}: {type(e).__name__}: {e}']}
        r = D.rnd('b17:' + name)
        fails, nev, info = check_molecule(m, r, full_caps=True, n_variants=4 if item[0] != 'smiles' or item[2] else 2)
        viols = [(f'{c}:{name}:{params}', f'{c}: {what} [{name} {params}]', {'contract': c, 'params': params, **wit}, nat)
                 for c, params, what, nat in fails]
        keys = [name] if any(True for _ in m.bonds()) else []
        return nev, keys, [{'molecule': name, **info}], viols, {}
    except _Watchdog:
        _TIMEOUTS[0] += 1
        return 0, [], [], [], {'timeout': [str(item[1])[:200]]}
    finally:
        signal.alarm(0)
        signal.signal(signal.SIGALRM, old)


def bounded(run):
    env.setup()
    from bounded import domains as D
    thorough = run.tier == 'thorough'
    n_cor = 1500 if thorough else 150
    items = [('smiles', s, thorough) for s in D.corpus_sample(n_cor, 'b17:corpus')]
    r = D.rnd('b17:marks')
    n_at = 0
    for g, el, od, m in D.decorated_atlas(6, trials=4 if thorough else 3, tag='b17:atlas'):
        nodes = list(g.nodes)
        edges = [tuple(e) for e in g.edges]
        odl = [(tuple(sorted(k)), v) for k, v in od.items()]
        marks = {}
        t = n_at % 3
        if t == 1 and nodes:            # isotope / charge / radical labels: the identifiers must see them
            for v in r.sample(nodes, min(len(nodes), r.randint(1, 2))):
                marks[v] = r.choice(((13, 0, False), (None, 1, False), (None, -1, False), (None, 0, True), (14, 1, False)) if el[v] == 'C'
                                    else ((None, 1, False), (None, -1, False), (None, 0, True)))
        elif t == 2 and odl:            # a coordinate bond: fragments and neighbourhoods walk every bond
            i = r.randrange(len(odl))
            odl[i] = (odl[i][0], 8)
        items.append(('atlas', f'{g.name}/{n_at}', nodes, edges, dict(el), odl, marks, thorough))
        n_at += 1
    run.bound(f'molecules: seeded sample of {n_cor} corpus SMILES (kekule+thiele normal form) + {n_at} decorations of every connected atlas graph '
              f'<= 6 atoms (elements C/N/O/S, bond orders 1-3, every third with isotope/charge/radical labels, every third with a coordinate bond)')
    run.bound(f'parameter grid per molecule: all {len(RADII)} (min, max) radii pairs in 1..6 for _chains, _fragments, _morgan_hash_dict, morgan_hash_set; '
              f'x number_bit_pairs {CAPS} + None for linear_hash_set; every length 2^5..2^12 x active bits 1..4 for linear_bit_set and morgan_bit_set '
              f'with seeded radii / cap; 6 seeded + 2 default fingerprint arrays; 2 seeded linear_hash_smiles')
    run.bound('numbering: corpus molecules 1 renumbering (copy + remap, optionally shifted numbers) + 1 rebuild with shuffled insertion order '
              '(thorough: 2 + 2; atlas decorations always 2 + 2); all radii pairs for fragments / Morgan, seeded caps, 10 seeded bit sets and arrays each')
    run.assume('oracle: oracles/paths.simple_paths enumerates every simple path once up to reversal',
               'oracle: oracles/o17_ref.py (descriptor = (identifier, bond order, identifier, ...) read in a direction-free class; count-capped hashing '
               'hash((*key, i)), i < min(c, cap), cap 0/None = unlimited; Morgan radius r+1 = hash((own, order1, id1, order2, id2, ...)) over '
               'neighbours sorted by (order, id); folding = the number_active_bits lowest log2(length)-bit windows of the hash)',
               'atom identifiers are taken from the library and required to be a function of (isotope, element, charge, radical) only and '
               'injective on the attribute tuples that occur',
               'Python hash() of int tuples is deterministic (no string hashing involved)',
               'fragments and neighbourhoods walk every bond of the bond table, coordinate bonds included (as the code does)')
    order = sorted(range(len(items)), key=lambda i: -(len(items[i][1]) if items[i][0] == 'smiles' else 10))
    res = pmap(_work, [items[i] for i in order], chunksize=2)
    reported, suppressed = Counter(), Counter()
    skipped, timeouts = [], []
    obs = {'molecules': 0, 'differ': 0, 'examples': []}
    shown = Counter()
    for i, (n, keys, samples, viols, extra) in zip(order, res):
        kind = items[i][0]
        sample = None
        if samples and shown[kind] < 3 and samples[0].get('atoms', 0) > 2:
            shown[kind] += 1
            sample = samples[0]
        run.case(n, sample=sample)
        for k in keys:
            run.case(0, key=k)
        for key, what, wit, nat in viols:
            c = key.split(':', 1)[0]
            if (run.pid, key) not in run.known and reported[c] >= MAX_REPORT:
                suppressed[c] += 1
                continue
            if run.violation(key, what, witness=wit, native=nat) == 'new':
                reported[c] += 1
        for sm in samples:
            obs['molecules'] += 1
            obs['differ'] += bool(sm.get('hash_smiles_values_differ'))
            if sm.get('hash_smiles_values_differ') and len(obs['examples']) < 3:
                obs['examples'].append(sm['molecule'])
        skipped += extra.get('skipped', [])
        timeouts += extra.get('timeout', [])
    run.notes['observation_linear_hash_smiles_values'] = {
        'enforced': ENFORCE_HASH_SMILES_VALUES, 'molecules': obs['molecules'], 'representative_smiles_change_under_renumbering': obs['differ'],
        'examples': obs['examples'], 'why': 'linear_hash_smiles keeps the SMILES of chains[0] only; the first chain of a fragment depends on set order'}
    print(f"C17 bounded: observation (not enforced): linear_hash_smiles representative SMILES change under renumbering for "
          f"{obs['differ']} of {obs['molecules']} molecules", flush=True)
    if suppressed:
        run.notes['violations_not_listed'] = {'why': f'more than {MAX_REPORT} new violations of the same contract', 'per_contract': dict(suppressed)}
        print(f'C17 bounded: further violations not listed (same contracts): {dict(suppressed)}', flush=True)
    if timeouts:
        run.notes['timeouts'] = {'budget_s': ITEM_BUDGET_S, 'count': len(timeouts), 'items': timeouts[:10]}
        if not run.violations:
            raise RuntimeError(f'{len(timeouts)} work items timed out (never mapped to a violation), e.g. {timeouts[0]}')
    if skipped:
        run.notes['skipped_inputs'] = {'count': len(skipped), 'examples': skipped[:5], 'why': 'the library raised while building the molecule (outside C17)'}
        if len(skipped) > len(items) // 10 and not run.violations:
            raise RuntimeError(f'{len(skipped)} of {len(items)} molecules could not be built, e.g. {skipped[0]}')


def replay(rec):
    """rebuild the witness and re-evaluate the named contract natively; True if it now holds"""
    env.setup()
    from bounded import domains as D
    w = rec.get('witness') or {}
    if 'smiles' in w:
        item = ('smiles', w['smiles'], True)
    elif 'graph' in w:
        bonds = [((a, b), o) for a, b, o in w['bonds']]
        nodes = sorted({int(k) for k in w['elements']})
        item = ('atlas', w['graph'], nodes, [e for e, _ in bonds], {int(k): v for k, v in w['elements'].items()}, bonds,
                {int(k): tuple(v) for k, v in (w.get('atom_marks(isotope,charge,radical)') or {}).items()}, True)
    else:
        return False
    name, m, _ = _build_item(item)
    fails, _, _ = check_molecule(m, D.rnd('b17:' + name), full_caps=True, n_variants=4)
    print('native:', [(c, p, what) for c, p, what, _ in fails])
    c = w.get('contract')
    return not any(f[0] == c for f in fails) if c else not fails
