"""C11 - see DESIGN.md §2 C11.  Deductive parts (contracts/) are added to this module as they are built; the bounded stand-in is checks/b11.py."""
from vlib import env
from checks.common import anchored, bounded_part, want, contract_sources, make_replay, t_oblig
from pysym.harness import run_cases

LEVEL = 'exploration'
DEDUCTIVE = []          # contract modules run by engine P for this property
FINISH = dict(rule='deductive: one obligation per path / table key; B: see run.bound entries of checks/b11.py',
              explanation='T: V2000 charge code tables mutually inverse; B: write->read record equality for five writer/reader pairs, corrupted records at every position, index access',
              trusted_base=['CPython', 'RDKit molblock writer', 'oracles/o11_records.py'])
replay = make_replay('C11')


def deductive(run):
    for mod, flt in DEDUCTIVE:
        run_cases(run, mod, select=(lambda c, flt=flt: flt is None or any(x in c.name for x in flt)))


def main(run):
    env.setup()
    if want(run, 'T'):
      with anchored(run, 'C11/T'):
        from contracts import tablelemmas
        tablelemmas.C11(run)
    if want(run, 'P') or want(run, 'T'):
      with anchored(run, 'C11/P'):
        deductive(run)
    bounded_part(run, 'C11')
    return FINISH
