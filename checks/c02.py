"""C02 - see DESIGN.md §2 C02.  Deductive parts (contracts/) are added to this module as they are built; the bounded stand-in is checks/b02.py."""
from vlib import env
from checks.common import anchored, bounded_part, want, contract_sources, make_replay, t_oblig
from pysym.harness import run_cases

LEVEL = 'exploration'
DEDUCTIVE = [('contracts.stereo', ('involution', 'translate_tetrahedron_sign/tetrahedron', 'CANARY'))]   # sign translation kernel (shared with C12)
FINISH = dict(rule='deductive: one obligation per path / table key; B: see run.bound entries of checks/b02.py',
              explanation='F: no memoised value read by this property\'s observables survives an edit it depends on (one obligation per covered mutator x cached key); T: writer/reader tables mutually inverse, closure numbers 1..99, element symbols; P: sign translation kernel (shared with C12); B: write->read atom by atom under the written order for all 32 option subsets, injectivity',
              trusted_base=['CPython', 'z3', 'pysym', 'oracles/o01_stereo.py', 'RDKit (secondary)'])
replay = make_replay('C02')


def deductive(run):
    for mod, flt in DEDUCTIVE:
        run_cases(run, mod, select=(lambda c, flt=flt: flt is None or any(x in c.name for x in flt)))


def main(run):
    env.setup()
    if want(run, 'T'):
      with anchored(run, 'C02/T'):
        from contracts import tablelemmas
        tablelemmas.C02(run)
    if want(run, 'P') or want(run, 'T'):
      with anchored(run, 'C02/P'):
        deductive(run)
    if want(run, 'F'):
      with anchored(run, 'C02/F'):
        # the observables of this property are (or read) memoised values: no covered mutator leaves one of them stale (engine F restricted to the keys these observables read)
        from checks.fpart import run_F
        run_F(run, entry_points=['__format__', '__str__', 'smiles_atoms_order', 'atoms_order'])
    bounded_part(run, 'C02')
    return FINISH
